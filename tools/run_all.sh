#!/bin/bash
# usage: tools/run_all.sh <tier> <seed> [props...]   — runs every check sequentially, one summary line each
TIER=${1:-quick}; SEED=${2:-0}; shift 2
PROPS=${@:-$(seq -f "C%02g" 1 20)}
cd "$(dirname "$0")/.."
for p in $PROPS; do
  out=$(VERIF_SEED=$SEED ./check $p $TIER 2>&1); rc=$?
  echo "$p rc=$rc $(echo "$out" | grep -c '^VIOLATION') violations; $(echo "$out" | grep -c '^KNOWN-FINDING') known; $(echo "$out" | grep "^$p $TIER" | sed 's/.*obligations/obligations/')"
  if [ $rc -ne 0 ]; then echo "$out" | grep -E "^VIOLATION|^  - " | head -5 | cut -c1-300; fi
done
