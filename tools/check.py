#!/venv/bin/python
"""./check --setup | ./check Cxx quick|thorough | ./check Cxx --replay <file> | ./check --all [tier]"""
import importlib
import json
import os
import sys
import time

sys.path.insert(0, os.path.dirname(os.path.abspath(__file__)))
from vlib import coq, core  # noqa: E402


def setup():
    t0 = time.time()
    os.makedirs(coq.WORK, exist_ok=True)
    # translators first so that Gen/ exists before the project file is written
    tdir = os.path.join(os.path.dirname(os.path.abspath(__file__)), "props")
    for f in sorted(os.listdir(tdir)):
        if f.startswith("c") and f.endswith(".py"):
            try:
                mod = importlib.import_module("props." + f[:-3])
            except Exception as e:
                print("setup: cannot import %s: %s" % (f, e))
                continue
            for tr in getattr(mod, "TRANSLATORS", []):
                try:
                    tr(core.Ctx(mod.PROP, "quick", 0))
                except Exception as e:
                    print("setup: translator %s failed: %s" % (tr.__name__, e))
    coq.write_project()
    ok, log, dt = coq.make(None, timeout=3000, keep_going=True)
    print(log[-3000:])
    print("setup: make %s in %.0fs" % ("ok" if ok else "FAILED", time.time() - t0))
    return 0 if ok else 1


def main(argv):
    if not argv:
        print(__doc__)
        return 2
    if argv[0] == "--setup":
        return setup()
    if argv[0] == "--all":
        tier = argv[1] if len(argv) > 1 else "quick"
        rc = 0
        for i in range(1, 21):
            p = "C%02d" % i
            if os.path.exists(os.path.join(os.path.dirname(__file__), "props", p.lower() + ".py")):
                rc |= os.system("%s %s %s" % (os.path.join(coq.VERIF, "check"), p, tier)) and 1
        return rc
    prop = argv[0].upper()
    mod = importlib.import_module("props." + prop.lower())
    seed = int(os.environ.get("VERIF_SEED", "0") or 0)
    if len(argv) >= 3 and argv[1] == "--replay":
        data = json.load(open(argv[2]))
        ctx = core.Ctx(prop, "quick", data.get("seed", seed))
        fn = getattr(mod, "replay", None)
        if fn is None:
            print("no replay support for", prop)
            return 2
        still = fn(ctx, data)
        print("replay: property predicate %s on this input" % ("STILL FAILS" if still else "holds"))
        return 1 if still else 0
    tier = argv[1] if len(argv) > 1 else os.environ.get("VERIF_TIER", "quick")
    if tier not in ("quick", "thorough"):
        tier = "quick"
    return core.run_property(mod, tier, seed)


if __name__ == "__main__":
    sys.exit(main(sys.argv[1:]))
