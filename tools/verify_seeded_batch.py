#!/venv/bin/python
"""Lead's confirmation of seeded changes, batched: for every change not yet suite-verified in seeded/VERIFY.json
(1) demo.py exits 0 on the unchanged scratch worktree, (2) the patch applies alone and demo.py then exits 1, (3) the repository's
test suite is run ONCE per batch of patches that apply together (they touch different places): no failure other than those of the
unchanged tree means none of the batch's patches breaks a test; an unexpected failure is re-run alone, then attributed by running
that test under each patch of the batch separately.  Usage: tools/verify_seeded_batch.py [-n 8] [--batch 8] [--only substr]"""
import json, os, re, subprocess, sys
V = os.path.dirname(os.path.dirname(os.path.abspath(__file__)))
WT = "/tmp/sfv_verify_wt"
KNOWN_BAD = ("test_default_sf_logger[strawberryfields.engine]", "test_average_fidelity")


def sh(c):
    return subprocess.run(c, shell=True, stdout=subprocess.PIPE, stderr=subprocess.STDOUT, text=True)


def pytest(args, n=None, timeout=7200):
    par = "-n %d" % n if n else ""
    return sh("cd %s && env -u SF_VERIF PYTHONPATH=%s timeout %d /venv/bin/python -m pytest -q -p no:cacheprovider --timeout=900 %s %s" % (WT, WT, timeout, par, args))


def main():
    n, bsz, only = 8, 8, None
    a = sys.argv[1:]
    while a:
        x = a.pop(0)
        if x == "-n": n = int(a.pop(0))
        elif x == "--batch": bsz = int(a.pop(0))
        elif x == "--only": only = a.pop(0)
    if os.path.isdir(WT):
        sh("git -C /repo worktree remove --force " + WT)
    sh("git -C /repo worktree add --detach %s HEAD" % WT)
    out_path = os.path.join(V, "seeded", "VERIFY.json")
    res = json.load(open(out_path)) if os.path.exists(out_path) else {}
    todo = []
    for d in sorted(os.listdir(os.path.join(V, "seeded"))):
        p = os.path.join(V, "seeded", d)
        if not os.path.isdir(p) or (only and only not in d):
            continue
        if res.get(d, {}).get("suite_passed") and not res[d].get("suite_failed_unexpected"):
            continue
        rec = {}
        demo = "cd %s && PYTHONPATH=%s timeout 2400 /venv/bin/python -W ignore %s/demo.py" % (WT, WT, p)
        rec["demo_unchanged"] = sh(demo).returncode
        ap = sh("git -C %s apply --whitespace=nowarn %s/patch.diff" % (WT, p))
        rec["applies"] = ap.returncode == 0
        if rec["applies"]:
            rec["demo_changed"] = sh(demo).returncode
            sh("git -C %s checkout -- ." % WT)
            todo.append(d)
        res[d] = rec
        json.dump(res, open(out_path, "w"), indent=1)
        print(d, rec, flush=True)
    # batches of patches that apply together
    while todo:
        batch = []
        for d in list(todo):
            if len(batch) >= bsz:
                break
            if sh("git -C %s apply --whitespace=nowarn %s/seeded/%s/patch.diff" % (WT, V, d)).returncode == 0:
                batch.append(d)
                todo.remove(d)
        if not batch:
            print("cannot apply any of", todo)
            break
        r = pytest("tests", n=n)
        fails = re.findall(r"^FAILED (\S+)", r.stdout, re.M)
        m = re.search(r"(\d+) passed", r.stdout)
        unexpected = [f for f in fails if not any(k in f for k in KNOWN_BAD)]
        still = []
        for f in unexpected:
            if pytest("'%s'" % f, timeout=1800).returncode != 0:
                still.append(f)
        sh("git -C %s checkout -- ." % WT)
        blame = {d: [] for d in batch}
        for f in still:
            for d in batch:
                sh("git -C %s apply --whitespace=nowarn %s/seeded/%s/patch.diff" % (WT, V, d))
                if pytest("'%s'" % f, timeout=1800).returncode != 0:
                    blame[d].append(f)
                sh("git -C %s checkout -- ." % WT)
        for d in batch:
            res[d].update({"suite_passed": int(m.group(1)) if m else None, "suite_batch": batch, "suite_failed_known": len(fails) - len(unexpected),
                           "suite_failed_flaky_passed_alone": [f for f in unexpected if f not in still], "suite_failed_unexpected": blame[d]})
        json.dump(res, open(out_path, "w"), indent=1)
        print("BATCH", batch, "passed", m.group(1) if m else None, "known", len(fails) - len(unexpected), "flaky", [f for f in unexpected if f not in still], "blame", {k: v for k, v in blame.items() if v}, flush=True)
    sh("git -C /repo worktree remove --force " + WT)


if __name__ == "__main__":
    main()
