"""Program specs, generators and implementation drivers shared by the property modules.

A *spec* is plain JSON: {"n": <modes>, "cmds": [[name, [params...], [modes...], dagger], ...]}.
Complex parameters are written as {"re":..,"im":..}.  Everything random is drawn from the rng
handed in (ctx.rng), never from global state.
"""
import math
import warnings

warnings.filterwarnings("ignore")
import numpy as np  # noqa: E402

import strawberryfields as sf  # noqa: E402
from strawberryfields import ops  # noqa: E402

GRID = [0.0, 0.25, -0.25, 0.5, -0.5, 0.75, 1.0, -1.0, 0.125, 0.375]
ANGLES = [0.0, math.pi / 2, math.pi, -math.pi / 2, math.pi / 4, 2 * math.pi, -math.pi, 0.3, -0.7, 1.1, 2.5]

# name -> (number of modes, [param kinds]); kinds: r (small real), a (angle), t (transmissivity), n (nbar>=0), d (displacement magnitude)
GAUSSIAN_GATES = {
    "Dgate": (1, ["d", "a"]),
    "Xgate": (1, ["r"]),
    "Zgate": (1, ["r"]),
    "Sgate": (1, ["r", "a"]),
    "Rgate": (1, ["a"]),
    "Pgate": (1, ["r"]),
    "Fouriergate": (1, []),
    "BSgate": (2, ["a", "a"]),
    "MZgate": (2, ["a", "a"]),
    "S2gate": (2, ["r", "a"]),
    "CXgate": (2, ["r"]),
    "CZgate": (2, ["r"]),
}
CHANNELS = {"LossChannel": (1, ["t"]), "ThermalLossChannel": (1, ["t", "n"])}
PREPS = {
    "Vacuum": (1, []),
    "Coherent": (1, ["d", "a"]),
    "Squeezed": (1, ["r", "a"]),
    "DisplacedSqueezed": (1, ["d", "a", "r", "a"]),
    "Thermal": (1, ["n"]),
}
NONGAUSS = {"Kgate": (1, ["r"]), "Vgate": (1, ["r"]), "CKgate": (2, ["r"])}
FOCK_PREPS = {"Fock": (1, ["k"])}
# deterministic (post-selected) measurements: MeasureHomodyne(phi, select=value), MeasureHeterodyne(select=re + i im)
MEASURE_SEL = {"MeasureHomodyneSel": (1, ["a", "r"]), "MeasureHeterodyneSel": (1, ["r", "r"])}
# PassiveChannel(T) on 1..3 modes (Gaussian backend only): params = [Re T, Im T] nested lists, T a contraction (singular values <= 1)
PASSIVE = {"PassiveChannel": (1, ["passive"])}
ALL = {}
for _d in (GAUSSIAN_GATES, CHANNELS, PREPS, NONGAUSS, FOCK_PREPS, MEASURE_SEL, PASSIVE):
    ALL.update(_d)


def draw_param(rng, kind, exact=False):
    if kind == "k":
        return rng.randrange(0, 3)
    if kind == "t":
        return rng.choice([1.0, 0.5, 0.25, 0.75, 0.0, 0.9]) if exact or rng.random() < 0.5 else round(rng.uniform(0.05, 1.0), 3)
    if kind == "n":
        return rng.choice([0.0, 0.5, 1.0, 0.25]) if exact or rng.random() < 0.5 else round(rng.uniform(0, 1.5), 3)
    if kind == "a":
        if exact:
            return rng.choice(GRID)
        return rng.choice(ANGLES) if rng.random() < 0.4 else round(rng.uniform(-math.pi, math.pi), 3)
    if kind == "d":
        if exact:
            return rng.choice([g for g in GRID if g >= 0])
        return rng.choice([0.0, 0.5, 1.0]) if rng.random() < 0.3 else round(rng.uniform(0, 1.2), 3)
    # r
    if exact:
        return rng.choice(GRID)
    return rng.choice([0.0, 0.5, -0.5, 0.25]) if rng.random() < 0.3 else round(rng.uniform(-0.8, 0.8), 3)


def passive_T(rng, k):
    """A random k x k passive transformation (contraction): unitary . diag(s) . unitary, s in [0, 1]; sometimes unitary or diagonal."""
    rs = np.random.RandomState(rng.randrange(2 ** 31))

    def unitary():
        q, r = np.linalg.qr(rs.randn(k, k) + 1j * rs.randn(k, k))
        return q * (np.diag(r) / np.abs(np.diag(r)))
    kind = rng.choice(["general", "general", "unitary", "diagonal"])
    sv = np.ones(k) if kind == "unitary" else np.round(rs.uniform(0.2, 1.0, size=k), 3)
    T = np.diag(np.sqrt(sv)).astype(complex) if kind == "diagonal" else unitary() @ np.diag(sv) @ unitary()
    # full precision: rounding the entries would push singular values above 1 by ~1e-6 (a "lossy" map that creates photons:
    # false alarm of C07 seed 31, photon number 0.499937503 -> 0.499937798)
    return [T.real.tolist(), T.imag.tolist()]


def random_cmd(rng, n, names, dagger_prob=0.25, exact=False):
    names = [x for x in names if ALL[x][0] <= n]
    name = rng.choice(names)
    if name == "PassiveChannel":
        k = rng.randint(1, min(3, n))
        return [name, passive_T(rng, k), rng.sample(range(n), k), False]
    nm, kinds = ALL[name]
    modes = rng.sample(range(n), nm)
    params = [draw_param(rng, k, exact) for k in kinds]
    dagger = name in GAUSSIAN_GATES or name in NONGAUSS
    dagger = dagger and rng.random() < dagger_prob
    return [name, params, modes, bool(dagger)]


def random_spec(rng, n=None, ncmds=None, names=None, dagger_prob=0.25, exact=False, max_n=4, max_cmds=8):
    n = n or rng.randint(1, max_n)
    ncmds = rng.randint(0, max_cmds) if ncmds is None else ncmds
    names = names or list(GAUSSIAN_GATES)
    return {"n": n, "cmds": [random_cmd(rng, n, names, dagger_prob, exact) for _ in range(ncmds)]}


def entangling_prefix(rng, n):
    """A fixed-shape circuit producing a displaced, correlated, mixed n-mode Gaussian state."""
    cmds = []
    for i in range(n):
        cmds.append(["Sgate", [round(rng.uniform(0.2, 0.6), 3), round(rng.uniform(-1, 1), 3)], [i], False])
        cmds.append(["Dgate", [round(rng.uniform(0.2, 0.8), 3), round(rng.uniform(-2, 2), 3)], [i], False])
    for i in range(n - 1):
        cmds.append(["BSgate", [round(rng.uniform(0.3, 1.2), 3), round(rng.uniform(-1, 1), 3)], [i, i + 1], False])
    if n > 2:
        cmds.append(["BSgate", [round(rng.uniform(0.3, 1.2), 3), round(rng.uniform(-1, 1), 3)], [n - 1, 0], False])
    for i in range(n):
        if rng.random() < 0.5:
            cmds.append(["ThermalLossChannel", [round(rng.uniform(0.6, 0.95), 3), round(rng.uniform(0.1, 0.8), 3)], [i], False])
    return cmds


def _param(p, regs=None):
    if isinstance(p, dict) and "re" in p:
        return complex(p["re"], p["im"])
    if isinstance(p, dict) and "par" in p:
        # a measured parameter: mul * q[par].par (+ add)
        return p.get("mul", 1.0) * regs[p["par"]].par + p.get("add", 0.0)
    return p


def make_op(name, params, dagger=False, regs=None):
    if name == "MeasureHomodyneSel":
        return ops.MeasureHomodyne(params[0], select=params[1])
    if name == "MeasureHeterodyneSel":
        return ops.MeasureHeterodyne(select=complex(params[0], params[1]))
    if name == "PassiveChannel":
        return ops.PassiveChannel(np.array(params[0], dtype=float) + 1j * np.array(params[1], dtype=float))
    if name == "GaussianNoDecomp":
        # params = [V (nested list, xxpp order over the listed modes, hbar = 2), r (list)]
        return ops.Gaussian(np.array(params[0], dtype=float), np.array(params[1], dtype=float), decomp=False)
    op = getattr(ops, name)(*[_param(p, regs) for p in params])
    if dagger:
        op = op.H
    return op


def build_program(spec, name="p"):
    """Commands may include the pseudo-operations ["New", [], [k], False] (allocate one mode, which gets index k)
    and ["Del", [], [m], False]."""
    prog = sf.Program(spec["n"], name=name)
    with prog.context as q:
        regs = list(q)
        for name_, params, modes, dagger in spec["cmds"]:
            if name_ == "New":
                (r,) = ops.New(1)
                assert r.ind == modes[0] == len(regs), (r.ind, modes, len(regs))
                regs.append(r)
                continue
            if name_ == "Del":
                ops.Del | regs[modes[0]]
                continue
            op = make_op(name_, params, dagger, regs)
            op | tuple(regs[m] for m in modes)
    return prog


def random_history_spec(rng, names, n0=None, ncmds=None, max_total=4, p_new=0.15, p_del=0.12, dagger_prob=0.2, cmd_fn=None):
    """A program in which modes are created and deleted along the way. Returns a spec whose commands use the
    external (lifetime) mode indices; spec["live"] lists the live indices at the end."""
    n0 = n0 or rng.randint(1, min(3, max_total))
    ncmds = ncmds if ncmds is not None else rng.randint(2, 9)
    live = list(range(n0))
    total = n0
    cmds = []
    for _ in range(ncmds):
        r = rng.random()
        if r < p_new and total < max_total + 2 and len(live) < max_total:
            cmds.append(["New", [], [total], False])
            live.append(total)
            total += 1
            continue
        if r < p_new + p_del and len(live) > 1:
            m = rng.choice(live)
            live.remove(m)
            cmds.append(["Del", [], [m], False])
            continue
        avail = [x for x in names if ALL[x][0] <= len(live)]
        if not avail:
            continue
        c = (cmd_fn or random_cmd)(rng, len(live), avail) if cmd_fn else random_cmd(rng, len(live), avail, dagger_prob)
        c[2] = [live[i] for i in c[2]]  # positions -> external indices
        cmds.append(c)
    return {"n": n0, "cmds": cmds, "live": list(live), "total": total}


def spec_of_program(prog):
    """Inverse of build_program as far as numeric programs go."""
    cmds = []
    for c in prog.circuit:
        ps = []
        for p in c.op.p:
            try:
                ps.append(float(p))
            except Exception:
                ps.append(repr(p))
        cmds.append([c.op.__class__.__name__, ps, [r.ind for r in c.reg], bool(getattr(c.op, "dagger", False))])
    return cmds


def run_gaussian(spec, hbar=None):
    """Return (means, cov) in xxpp order from the gaussian backend."""
    prog = build_program(spec)
    eng = sf.Engine("gaussian")
    res = eng.run(prog)
    st = res.state
    return np.array(st.means()), np.array(st.cov())


def run_backend(spec, backend, **opts):
    prog = build_program(spec)
    eng = sf.Engine(backend, backend_options=opts)
    return eng.run(prog)


def states_close(a, b, tol=1e-8):
    return np.allclose(a[0], b[0], atol=tol, rtol=0) and np.allclose(a[1], b[1], atol=tol, rtol=0)
