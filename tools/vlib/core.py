"""Check runner shared by every property.

A property module (tools/props/cXX.py) defines

    PROP = "C18"
    COQ_TARGETS = ["C18/Model.vo", "C18/Proofs.vo"]      # built with make; each is an obligation
    PROPERTIES_FILE = "Properties/C18.v"                # compiled last, output scanned for axioms
    ALLOWED_AXIOMS = set()                              # names Print Assumptions may show
    TRANSLATORS = [callable(ctx) -> None]               # optional; raise => broken obligation
    def correspondence(ctx): ...                        # model vs implementation (adds issues)
    def search(ctx): ...                                # property predicate on implementation
    def replay(ctx, data) -> bool                       # True iff the replayed input still fails

and the runner does the rest: grep gate, build, assumptions audit, issue triage against
known_findings.json, VIOLATION / KNOWN-FINDING lines, replay files, evidence.
"""
import hashlib
import json
import os
import random
import subprocess
import sys
import time
import traceback

from . import coq

VERIF = coq.VERIF
WORK = coq.WORK
REPLAYS = os.path.join(VERIF, "replays")
EVIDENCE = os.path.join(VERIF, "evidence")
if os.environ.get("SFV_REPO", "/repo") != "/repo":
    # experiment against a scratch worktree (seeded changes): never overwrite the real evidence / replays
    REPLAYS = os.path.join(WORK, "seeded_replays")
    EVIDENCE = os.path.join(WORK, "seeded_evidence")
KNOWN = os.path.join(VERIF, "known_findings.json")


def canon(obj):
    return json.dumps(obj, sort_keys=True, default=repr)


class Issue:
    """Something that speaks against the property on this run.

    kind: 'counterexample' (a concrete input on which the property's predicate fails on the
          implementation), 'disagreement' (model and implementation differ on an input),
          'broken-obligation' (a theorem / translator / build step no longer checks).
    signature: short stable string naming the *specific* failing site / input class; matched
          against known_findings.json.
    """

    def __init__(self, kind, signature, what, data=None):
        self.kind = kind
        self.signature = signature
        self.what = what
        self.data = data or {}

    def to_json(self):
        return {"kind": self.kind, "signature": self.signature, "what": self.what, "data": self.data}


class Ctx:
    def __init__(self, prop, tier, seed):
        self.prop = prop
        self.tier = tier
        self.seed = seed
        self.rng = random.Random((seed * 1000003) ^ int(hashlib.sha1(prop.encode()).hexdigest()[:8], 16))
        # one scratch directory per run, so that two runs of the same property (quick and thorough, or two seeds)
        # can execute at the same time without reading each other's case files
        self.work = os.path.join(WORK, prop, "run-%d" % os.getpid())
        os.makedirs(self.work, exist_ok=True)
        self.t0 = time.time()
        self.obligations = []  # (name, ok, detail)
        self.issues = []
        self.evaluations = 0
        self.nontrivial = set()
        self.samples = []
        self.hist = {}
        self.assumptions = []
        self.axioms_seen = set()
        self.checker_cmds = []
        self.notes = []
        self.traces = 0
        self.extra = {}

    # --- bookkeeping used by property modules -----------------------------------------
    @property
    def quick(self):
        return self.tier == "quick"

    def budget(self, quick, thorough):
        return quick if self.tier == "quick" else thorough

    def case(self, case, nontrivial=False, bucket=None):
        """Record one explored case (for the evidence file)."""
        self.evaluations += 1
        if nontrivial:
            self.nontrivial.add(hashlib.sha1(canon(case).encode()).hexdigest())
        if bucket is not None:
            self.hist[bucket] = self.hist.get(bucket, 0) + 1
        if len(self.samples) < 6 or (nontrivial and len(self.samples) < 12 and self.rng.random() < 0.05):
            s = canon(case)
            if len(s) < 1500:
                self.samples.append(case)

    def obligation(self, name, ok, detail=""):
        self.obligations.append((name, bool(ok), detail[-3000:] if detail else ""))
        if not ok:
            self.issues.append(Issue("broken-obligation", "obligation:" + name, "obligation %s no longer checks" % name,
                                     {"obligation": name, "detail": detail[-3000:]}))

    def issue(self, kind, signature, what, data=None):
        self.issues.append(Issue(kind, signature, what, data))

    def counterexample(self, signature, what, data=None):
        self.issue("counterexample", signature, what, data)

    def disagreement(self, signature, what, data=None):
        self.issue("disagreement", signature, what, data)

    def coq_eval(self, name, text, timeout=900):
        ok, vals, raw = coq.eval_file(self.work, name, text, timeout=timeout)
        self.checker_cmds.append("coqc -Q coq SFV .work/%s/%s.v" % (self.prop, name))
        return ok, vals, raw


def load_known(prop):
    out = []
    if os.path.exists(KNOWN):
        d = json.load(open(KNOWN))
        out += [f for f in d.get("findings", []) if f["property"] == prop]
    import glob as _glob
    for p in sorted(_glob.glob(os.path.join(VERIF, "known_findings.d", "*.json"))):
        d = json.load(open(p))
        items = d.get("findings", []) if isinstance(d, dict) else d
        out += [f for f in items if f["property"] == prop]
    return out


def validate_evidence(path):
    schema = "/root/.vp/EVIDENCE.schema.json"
    if not os.path.exists(schema):
        return True, "schema absent"
    code = (
        "import json,sys,jsonschema;"
        "jsonschema.validate(json.load(open(sys.argv[1])), json.load(open(sys.argv[2])))"
    )
    for py in ("python3-vt", "/opt/veriftools/pyvenv/bin/python"):
        try:
            p = subprocess.run([py, "-c", code, path, schema], stdout=subprocess.PIPE, stderr=subprocess.STDOUT, text=True, timeout=60)
            return p.returncode == 0, p.stdout[-500:]
        except (OSError, subprocess.TimeoutExpired):
            continue
    return True, "no validator available"


def run_property(mod, tier, seed):
    prop = mod.PROP
    ctx = Ctx(prop, tier, seed)
    level = getattr(mod, "LEVEL", "proof")

    # 1. grep gate
    import glob as _glob
    dirs = ["Base", "Gen"] + list(getattr(mod, "COQ_DIRS", [prop]))
    files = []
    for d in dirs:
        files += sorted(_glob.glob(os.path.join(coq.COQ, d, "**", "*.v"), recursive=True))
    for d in dirs:
        f = os.path.join(coq.COQ, "Properties", d + ".v")
        if os.path.exists(f):
            files.append(f)
    ctx.extra["coq_files"] = [os.path.relpath(f, coq.COQ) for f in files]
    bad = coq.grep_gate(files) if files else []
    ctx.obligation("grep-gate", not bad, "\n".join("%s:%d: %s" % b for b in bad))

    # 2. translators
    for tr in getattr(mod, "TRANSLATORS", []):
        try:
            tr(ctx)
            ctx.obligation("translator:" + tr.__name__, True)
        except Exception as e:  # fail-closed
            ctx.obligation("translator:" + tr.__name__, False, "%s\n%s" % (e, traceback.format_exc()[-1500:]))

    # 3. build
    targets = list(getattr(mod, "COQ_TARGETS", []))
    pf = getattr(mod, "PROPERTIES_FILE", None)
    built_ok = True
    if targets:
        ok, log, dt = coq.make(targets, keep_going=True)
        ctx.checker_cmds.append("cd coq && make -j16 -k " + " ".join(targets))
        if ok:
            for t in targets:
                ctx.obligation("build:" + t, True)
        else:
            built_ok = False
            for t in targets:
                okt = os.path.exists(os.path.join(coq.COQ, t)) and _fresh(t)
                ctx.obligation("build:" + t, okt, "" if okt else log)
    # 4. property theorems + assumptions (the property's own file, plus files of shared components)
    for pf_x in [pf] + list(getattr(mod, "EXTRA_PROPERTIES_FILES", [])):
        _audit_properties_file(ctx, mod, pf_x)
    # 4a. thorough tier: independent re-check of the compiled property file (and everything it depends on) with coqchk
    for pf_c in ([pf] + list(getattr(mod, "EXTRA_PROPERTIES_FILES", [])) if tier == "thorough" else []):
      if pf_c and os.path.exists(os.path.join(coq.COQ, pf_c[:-2] + ".vo")):
        modname = "SFV." + pf_c[:-2].replace("/", ".")
        try:
            pr = subprocess.run(["timeout", "2400", "coqchk", "-silent", "-o", "-Q", ".", "SFV", modname], cwd=coq.COQ,
                                stdout=subprocess.PIPE, stderr=subprocess.STDOUT, text=True)
            out = pr.stdout
            ctx.checker_cmds.append("cd coq && coqchk -silent -o -Q . SFV " + modname)
            import re as _re
            summary = out[out.find("CONTEXT SUMMARY"):] if "CONTEXT SUMMARY" in out else out[-1500:]
            def _sect(title):
                m = _re.search(r"\* " + title + r":(.*?)(?=\n\* |\Z)", summary, _re.S)
                return (m.group(1).strip() if m else "?")
            ax = _sect("Axioms")
            tit = _sect("Constants/Inductives relying on type-in-type")
            unsafe = _sect("Constants/Inductives relying on unsafe \\(co\\)fixpoints")
            pos = _sect("Inductives whose positivity is assumed")
            allowed = set(getattr(mod, "ALLOWED_AXIOMS", set()))
            ax_names = [] if ax == "<none>" else [a.split(":")[0].strip() for a in ax.split("\n") if a.strip()]
            bad_ax = [a for a in ax_names if a not in allowed and a.split(".")[-1] not in allowed]
            okc = pr.returncode == 0 and not bad_ax and tit == "<none>" and unsafe == "<none>" and pos == "<none>"
            ctx.extra.setdefault("coqchk", {})[modname] = {"axioms": ax_names, "type_in_type": tit, "unsafe_fixpoints": unsafe, "assumed_positivity": pos}
            ctx.obligation("coqchk:" + modname, okc, summary[-1500:])
        except Exception as e:
            ctx.obligation("coqchk:" + modname, False, repr(e))

    # 4b. corpus: minimised past failures / recorded findings are replayed first
    import glob as _g, io as _io, contextlib as _cl
    rp = getattr(mod, "replay", None)
    if rp is not None:
        for cf in sorted(_g.glob(os.path.join(VERIF, "corpus", prop + "-*.json"))):
            try:
                cd = json.load(open(cf))
                buf = _io.StringIO()
                with _cl.redirect_stdout(buf):
                    still = rp(ctx, cd)
                ctx.case({"corpus": os.path.basename(cf)}, nontrivial=True, bucket="corpus")
                if still:
                    ctx.counterexample(cd.get("signature", "corpus:" + os.path.basename(cf)), cd.get("what", "corpus case %s still fails" % os.path.basename(cf)), cd.get("data"))
            except Exception as e:
                ctx.obligation("corpus:" + os.path.basename(cf), False, "%s\n%s" % (e, traceback.format_exc()[-1500:]))

    # 5. correspondence, 6. search
    for phase in ("correspondence", "search"):
        fn = getattr(mod, phase, None)
        if fn is None:
            continue
        try:
            fn(ctx)
            ctx.obligation(phase + ":completed", True)
        except Exception as e:
            ctx.obligation(phase + ":completed", False, "%s\n%s" % (e, traceback.format_exc()[-2500:]))

    return finish(ctx, mod, level)


def _audit_properties_file(ctx, mod, pf):
    if not pf:
        return
    if not os.path.exists(os.path.join(coq.COQ, pf)):
        ctx.obligation("theorems:" + pf, False, "file missing")
        return
    ok, out = coq.coqc_capture(pf)
    ctx.checker_cmds.append("cd coq && coqc -Q . SFV " + pf)
    ctx.obligation("theorems:" + pf, ok, out)
    if not ok:
        return
    blocks = coq.parse_assumptions(out)
    allowed = set(getattr(mod, "ALLOWED_AXIOMS", set()))
    names = _theorem_names(os.path.join(coq.COQ, pf))
    ctx.extra.setdefault("theorems", [])
    ctx.extra["theorems"] += names
    for i, b in enumerate(blocks):
        extra = [a for a in b if a not in allowed and a.split(".")[-1] not in allowed]
        ctx.axioms_seen.update(b)
        nm = names[i] if i < len(names) else "#%d" % i
        ctx.obligation("assumptions:" + nm, not extra, "unexpected axioms: %s" % extra if extra else "")
    if len(blocks) < len(names):
        ctx.obligation("assumptions-printed:" + pf, False, "%d theorems but %d Print Assumptions blocks" % (len(names), len(blocks)))


def _fresh(target):
    vo = os.path.join(coq.COQ, target)
    v = vo[:-1]
    try:
        return os.path.getmtime(vo) >= os.path.getmtime(v)
    except OSError:
        return False


def _theorem_names(path):
    import re
    src = coq._strip_comments(open(path).read())
    return re.findall(r"Print\s+Assumptions\s+([\w.']+)\s*\.", src)


def finish(ctx, mod, level):
    prop = ctx.prop
    known = load_known(prop)
    os.makedirs(REPLAYS, exist_ok=True)
    os.makedirs(EVIDENCE, exist_ok=True)

    def match(issue):
        import re as _re
        for k in known:
            if k.get("signature") == issue.signature:
                return k
            rx = k.get("signature_regex")
            if rx and _re.fullmatch(rx, issue.signature):
                return k
        return None

    known_hit = {}
    fresh = []
    for iss in ctx.issues:
        k = match(iss)
        if k is not None:
            known_hit.setdefault(k.get("signature") or k.get("signature_regex"), (k, iss))
        else:
            fresh.append(iss)

    lines = []
    for sig, (k, iss) in sorted(known_hit.items()):
        lines.append("KNOWN-FINDING: property=%s %s [%s]" % (prop, k["what_fails"], sig))

    broken = [i for i in fresh if i.kind == "broken-obligation"]
    concrete = [i for i in fresh if i.kind in ("counterexample", "disagreement")]
    # a 'disagreement' alone (model != impl) means the tie is broken; a counterexample is a failing input
    violations = 0
    seen_sig = set()
    for iss in concrete + broken:
        if iss.signature in seen_sig:
            continue
        seen_sig.add(iss.signature)
    rc = 0
    if fresh:
        rc = 1
        cex = [i for i in fresh if i.kind == "counterexample"]
        if cex:
            done = set()
            for iss in cex:
                if iss.signature in done:
                    continue
                done.add(iss.signature)
                path = write_replay(ctx, iss, related=[b.to_json() for b in broken + [d for d in fresh if d.kind == "disagreement"]][:6])
                lines.append("VIOLATION property=%s replay=%s" % (prop, path))
                violations += 1
        else:
            # no concrete failing input for the property's own predicate
            first = (broken + concrete)[0]
            path = write_replay(ctx, first, related=[b.to_json() for b in (broken + concrete)[1:6]])
            lines.append("VIOLATION property=%s replay=%s no-failing-input-found" % (prop, path))
            violations += 1

    n_obl = len(ctx.obligations)
    n_ok = sum(1 for o in ctx.obligations if o[1])
    ev = {
        "property_id": prop,
        "tier": ctx.tier,
        "seed": ctx.seed,
        "level": level,
        "coverage": {
            "obligations": n_obl,
            "discharged": n_ok,
            "checker_cmd": "; ".join(dict.fromkeys(ctx.checker_cmds))[:4000] or "none",
            "trusted_base": list(getattr(mod, "TRUSTED_BASE", [])) + ["axioms reported by Print Assumptions on this run: %s" % (sorted(ctx.axioms_seen) or "none (closed under the global context)")],
            "evaluations": ctx.evaluations,
            "distinct_nontrivial": len(ctx.nontrivial),
            "rule": getattr(mod, "RULE", ""),
            "samples": ctx.samples[:12] or ["(no cases run)"],
            "traces_validated_against_impl": ctx.traces,
            "histogram": ctx.hist,
            "obligation_list": [{"name": n, "ok": ok} for n, ok, _ in ctx.obligations],
            "theorems": ctx.extra.get("theorems", []),
            "known_findings_reproduced": sorted(known_hit),
            "notes": ctx.notes,
        },
        "assumptions": list(getattr(mod, "ASSUMPTIONS", [])),
        "wall_s": round(time.time() - ctx.t0, 2),
        "violations": violations,
    }
    for k, v in ctx.extra.items():
        if k not in ev["coverage"]:
            ev["coverage"][k] = v
    evpath = os.path.join(EVIDENCE, prop + ".json")
    with open(evpath, "w") as f:
        json.dump(ev, f, indent=1, default=repr)
    okv, msg = validate_evidence(evpath)
    if not okv:
        print("WARNING: evidence file does not validate: " + msg)
    try:
        import shutil
        shutil.rmtree(ctx.work, ignore_errors=True)
    except Exception:
        pass
    for l in lines:
        print(l)
    print("%s %s: obligations %d/%d, cases %d (%d distinct non-trivial), known findings reproduced %d, violations %d, %.1fs"
          % (prop, ctx.tier, n_ok, n_obl, ctx.evaluations, len(ctx.nontrivial), len(known_hit), violations, time.time() - ctx.t0))
    if rc:
        for iss in fresh[:10]:
            print("  - [%s] %s: %s" % (iss.kind, iss.signature, iss.what[:300]))
    sys.stdout.flush()
    return rc


def write_replay(ctx, iss, related=None):
    body = {
        "property": ctx.prop,
        "kind": iss.kind,
        "signature": iss.signature,
        "what": iss.what,
        "seed": ctx.seed,
        "tier": ctx.tier,
        "data": iss.data,
        "related": related or [],
        "how_to_replay": "./check %s --replay <this file>" % ctx.prop,
    }
    h = hashlib.sha1(canon(body).encode()).hexdigest()[:12]
    path = os.path.join(REPLAYS, "%s-%s.json" % (ctx.prop, h))
    with open(path, "w") as f:
        json.dump(body, f, indent=1, default=repr)
    return path
