"""Coq build + evaluation helpers.

All Coq sources live under /verif/coq with logical root SFV (-Q . SFV).
`setup()` writes _CoqProject by globbing, runs coq_makefile and a full `make`.
`make(targets)` builds named .vo files (incremental, under a file lock, under `timeout`).
`eval_file(name, text)` compiles a scratch .v under /verif/.work and returns parsed `Eval` results.
"""
import fcntl
import glob
import os
import re
import subprocess
import time

VERIF = os.path.dirname(os.path.dirname(os.path.dirname(os.path.abspath(__file__))))
COQ = os.path.join(VERIF, "coq")
WORK = os.path.join(VERIF, ".work")

FORBIDDEN = re.compile(
    r"\b(Admitted|admit|Axiom|Axioms|Parameter|Parameters|Conjecture|Conjectures|"
    r"Admit Obligations|bypass_check|give_up)\b|Unset\s+Guard|Unset\s+Positivity|"
    r"Unset\s+Universe\s+Checking|-type-in-type|-impredicative-set"
)
# top-level Variable/Hypothesis outside a Section are checked separately


def _strip_comments(src):
    out, depth, i = [], 0, 0
    n = len(src)
    while i < n:
        if src.startswith("(*", i):
            depth += 1
            i += 2
        elif src.startswith("*)", i) and depth > 0:
            depth -= 1
            i += 2
        else:
            if depth == 0:
                out.append(src[i])
            elif src[i] == "\n":
                out.append("\n")
            i += 1
    return "".join(out)


def grep_gate(paths=None):
    """Return list of (file, line, text) for forbidden constructs in the development."""
    bad = []
    files = paths or sorted(glob.glob(os.path.join(COQ, "**", "*.v"), recursive=True))
    for f in files:
        try:
            src = _strip_comments(open(f).read())
        except OSError:
            continue
        # forbidden keywords
        for ln, line in enumerate(src.split("\n"), 1):
            if FORBIDDEN.search(line):
                bad.append((os.path.relpath(f, VERIF), ln, line.strip()[:120]))
        # Variable / Hypothesis / Context outside a section
        depth = 0
        for ln, line in enumerate(src.split("\n"), 1):
            s = line.strip()
            if re.match(r"(Section|Module\s+Type)\s+\w+", s):
                if s.startswith("Section"):
                    depth += 1
            elif re.match(r"End\s+\w+\s*\.", s) and depth > 0:
                depth -= 1
            elif depth == 0 and re.match(r"(Variable|Variables|Hypothesis|Hypotheses|Context)\b", s):
                bad.append((os.path.relpath(f, VERIF), ln, "outside Section: " + s[:100]))
    return bad


class _Lock:
    def __init__(self, name="make.lock"):
        os.makedirs(WORK, exist_ok=True)
        self.path = os.path.join(WORK, name)

    def __enter__(self):
        self.f = open(self.path, "w")
        fcntl.flock(self.f, fcntl.LOCK_EX)
        return self

    def __exit__(self, *a):
        fcntl.flock(self.f, fcntl.LOCK_UN)
        self.f.close()


def write_project():
    files = sorted(
        os.path.relpath(f, COQ) for f in glob.glob(os.path.join(COQ, "**", "*.v"), recursive=True)
    )
    text = "-Q . SFV\n-arg -w -arg -notation-overridden,-deprecated-hint-without-locality,-deprecated-instance-without-locality,-ambiguous-paths,-redundant-canonical-projection,-deprecated-hint-rewrite-without-locality\n" + "\n".join(files) + "\n"
    p = os.path.join(COQ, "_CoqProject")
    old = open(p).read() if os.path.exists(p) else None
    if old != text:
        open(p, "w").write(text)
        return True
    return False


def ensure_makefile():
    changed = write_project()
    mk = os.path.join(COQ, "Makefile")
    if changed or not os.path.exists(mk):
        subprocess.run(
            ["coq_makefile", "-f", "_CoqProject", "-o", "Makefile"],
            cwd=COQ, check=True, stdout=subprocess.DEVNULL, stderr=subprocess.DEVNULL,
        )


def make(targets=None, timeout=1500, jobs=16, keep_going=False):
    """Build targets (paths relative to coq/, ending in .vo). Returns (ok, log)."""
    with _Lock():
        ensure_makefile()
        cmd = ["timeout", str(timeout), "make", "-j%d" % jobs]
        if keep_going:
            cmd.append("-k")
        cmd += list(targets or [])
        t0 = time.time()
        p = subprocess.run(cmd, cwd=COQ, stdout=subprocess.PIPE, stderr=subprocess.STDOUT, text=True)
        return p.returncode == 0, p.stdout, time.time() - t0


def coqc_capture(relpath, timeout=600):
    """(Re)compile one file of the development capturing its output (Print Assumptions...)."""
    with _Lock():
        cmd = ["timeout", str(timeout), "coqc", "-Q", ".", "SFV", "-w", "none", relpath]
        p = subprocess.run(cmd, cwd=COQ, stdout=subprocess.PIPE, stderr=subprocess.STDOUT, text=True)
    return p.returncode == 0, p.stdout


def parse_assumptions(out):
    """Parse the output of a file consisting of `Print Assumptions X.` commands.
    Returns list of blocks; each block is [] for closed, or list of axiom names."""
    blocks = []
    cur = None
    for line in out.split("\n"):
        if line.startswith("Closed under the global context"):
            blocks.append([])
            cur = None
        elif line.startswith("Axioms:"):
            cur = []
            blocks.append(cur)
        elif cur is not None:
            m = re.match(r"^([A-Za-z_][\w.']*)\s*(:|$)", line)
            if m:
                cur.append(m.group(1))
            elif line and not line.startswith(" "):
                cur = None
    return blocks


# --------------------------------------------------------------------------------------
# Parsing values printed by `Eval vm_compute in`.

class _P:
    def __init__(self, s):
        self.s = s
        self.i = 0

    def ws(self):
        while self.i < len(self.s) and self.s[self.i] in " \n\t\r":
            self.i += 1

    def peek(self):
        self.ws()
        return self.s[self.i] if self.i < len(self.s) else ""

    def expect(self, c):
        self.ws()
        if not self.s.startswith(c, self.i):
            raise ValueError("expected %r at %d: %r" % (c, self.i, self.s[self.i:self.i + 40]))
        self.i += len(c)

    def term(self):
        """application-level term: atom atom*  (constructor applied to args)"""
        head = self.atom()
        args = []
        while True:
            c = self.peek()
            if c == "" or c in ";,)]|}:":
                break
            args.append(self.atom())
        if args:
            return (head,) + tuple(args) if isinstance(head, str) else (head,) + tuple(args)
        return head

    def atom(self):
        c = self.peek()
        if c == "[":
            self.i += 1
            items = []
            if self.peek() == "]":
                self.i += 1
                return items
            while True:
                items.append(self.term())
                c = self.peek()
                if c == ";":
                    self.i += 1
                elif c == "]":
                    self.i += 1
                    break
                else:
                    raise ValueError("list: unexpected %r at %d" % (c, self.i))
            return self._suffix(items)
        if c == "(":
            self.i += 1
            items = [self.term()]
            while self.peek() == ",":
                self.i += 1
                items.append(self.term())
            self.expect(")")
            v = items[0] if len(items) == 1 else tuple(items)
            return self._suffix(v)
        if c == '"':
            j = self.i + 1
            buf = []
            while True:
                if self.s[j] == '"':
                    if j + 1 < len(self.s) and self.s[j + 1] == '"':
                        buf.append('"')
                        j += 2
                        continue
                    break
                buf.append(self.s[j])
                j += 1
            self.i = j + 1
            return self._suffix("".join(buf))
        m = re.compile(r"-?(0x[0-9a-fA-F.]+(p[-+]?\d+)?|\d+(\.\d+)?([eE][-+]?\d+)?|infinity|nan)").match(self.s, self.i)
        if m:
            self.i = m.end()
            txt = m.group(0)
            if re.fullmatch(r"-?\d+", txt):
                v = int(txt)
            elif "0x" in txt:
                v = float.fromhex(txt)
            else:
                v = float(txt.replace("infinity", "inf"))
            return self._suffix(v)
        m = re.compile(r"[A-Za-z_][\w.']*").match(self.s, self.i)
        if m:
            self.i = m.end()
            w = m.group(0)
            if w == "true":
                return True
            if w == "false":
                return False
            if w == "None":
                return None
            return w
        raise ValueError("unexpected %r at %d: %r" % (c, self.i, self.s[self.i:self.i + 40]))

    def _suffix(self, v):
        m = re.compile(r"%[A-Za-z_]\w*").match(self.s, self.i)
        if m:
            self.i = m.end()
        return v


def parse_value(s):
    p = _P(s)
    v = p.term()
    p.ws()
    if p.i != len(p.s):
        raise ValueError("trailing text: %r" % p.s[p.i:p.i + 60])
    return v


def parse_evals(out):
    """Extract the values of all `Eval ... in` outputs ('     = v\n     : T')."""
    vals = []
    for m in re.finditer(r"^\s*= (.*?)\n\s*: [^\n]*(?:\n\s{7,}[^\n]*)*", out, re.S | re.M):
        vals.append(parse_value(m.group(1)))
    return vals


def eval_file(workdir, name, text, timeout=900):
    """Write text to <workdir>/<name>.v, compile with the development on the load path.
    Returns (ok, values, raw_output)."""
    os.makedirs(workdir, exist_ok=True)
    path = os.path.join(workdir, name + ".v")
    header = "Set Printing Depth 1000000.\nSet Printing Width 1000000.\n"
    open(path, "w").write(header + text)
    cmd = "ulimit -s unlimited 2>/dev/null; exec timeout %d coqc -Q %s SFV -w none %s" % (timeout, COQ, path)
    p = subprocess.run(["bash", "-c", cmd], cwd=workdir, stdout=subprocess.PIPE, stderr=subprocess.STDOUT, text=True)
    ok = p.returncode == 0
    vals = []
    if ok:
        try:
            vals = parse_evals(p.stdout)
        except ValueError as e:
            return False, [], "PARSE ERROR %s\n%s" % (e, p.stdout[-2000:])
    for ext in (".vo", ".vok", ".vos", ".glob"):
        try:
            os.remove(os.path.join(workdir, name + ext))
        except OSError:
            pass
    try:
        os.remove(os.path.join(workdir, "." + name + ".aux"))
    except OSError:
        pass
    return ok, vals, p.stdout


# --------------------------------------------------------------------------------------
# Rendering Python values as Coq terms

def coq_Z(n):
    return "(%d)%%Z" % n if n < 0 else "%d%%Z" % n


def coq_nat(n):
    assert 0 <= n < 5000, n
    return "%d%%nat" % n


def coq_bool(b):
    return "true" if b else "false"


def coq_float(x):
    x = float(x)
    if x != x:
        return "nan%float"
    if x in (float("inf"), float("-inf")):
        return "(%sinfinity)%%float" % ("-" if x < 0 else "")
    return "(%s)%%float" % x.hex()


def coq_list(items, f=str):
    return "[" + "; ".join(f(i) for i in items) + "]"


def coq_string(s):
    return '"' + s.replace('"', '""') + '"'
