#!/venv/bin/python
"""Merge known_findings.d/*.json (findings) and known_findings.d/*-fixed.txt (fixed lines) into known_findings.json,
then empty known_findings.d.  Idempotent."""
import glob, json, os
V = os.path.dirname(os.path.dirname(os.path.abspath(__file__)))
main = json.load(open(os.path.join(V, "known_findings.json")))
have = {(f["property"], f.get("signature") or f.get("signature_regex")) for f in main["findings"]}
for p in sorted(glob.glob(os.path.join(V, "known_findings.d", "*.json"))):
    d = json.load(open(p))
    items = d.get("findings", []) if isinstance(d, dict) else d
    for f in items:
        key = (f["property"], f.get("signature") or f.get("signature_regex"))
        if key not in have:
            main["findings"].append(f)
            have.add(key)
    if isinstance(d, dict):
        for line in d.get("fixed", []):
            if line not in main["fixed"]:
                main["fixed"].append(line)
    os.remove(p)
for p in sorted(glob.glob(os.path.join(V, "known_findings.d", "*-fixed.txt"))):
    for line in open(p):
        line = line.strip()
        if line and line not in main["fixed"]:
            main["fixed"].append(line)
    os.remove(p)
main["findings"].sort(key=lambda f: (f["property"], f.get("signature") or f.get("signature_regex")))
json.dump(main, open(os.path.join(V, "known_findings.json"), "w"), indent=1)
print("findings:", len(main["findings"]), "fixed:", len(main["fixed"]))
