"""Fail-closed translator for the WHOLE-ARRAY methods of GaussianModes (gaussiancircuit.py): apply_u, scovmatxp, smeanxp.

The element-wise update methods are handled by translate_gauss.py; the methods here are written with numpy's whole-array
operators (`@`, `.T`, `.conj()`, np.transpose, np.conj, np.identity, np.concatenate, `.real`).  Each statement is mapped to
the operations of coq/Base/MatOps.v; anything outside the recognised sub-language raises Untranslatable.  Output:
coq/Gen/GaussMat.v and coq/Gen/gaussmat_sig.json.
"""
import ast
import json
import os

from translate_gauss import Untranslatable, is_self_attr, np_call

SRC = os.path.join(os.environ.get("SFV_REPO", "/repo"), "strawberryfields/backends/gaussianbackend/gaussiancircuit.py")
METHODS = ["apply_u", "scovmatxp", "smeanxp"]
RESERVED = {"s", "N", "K", "fun", "let", "in", "if", "then", "else", "re", "im", "mean", "nmat", "mmat", "nlen", "a_", "b_"}


def fail(node, why):
    raise Untranslatable("UNTRANSLATABLE %s:%s: %s   [%s]" % (SRC, getattr(node, "lineno", "?"), why, ast.unparse(node)[:120] if isinstance(node, ast.AST) else node))


class MFn:
    def __init__(self, fdef):
        self.fdef = fdef
        self.name = fdef.name
        a = fdef.args
        if a.vararg or a.kwarg or a.defaults or a.kwonlyargs:
            fail(fdef, "only plain positional parameters")
        self.params = [x.arg for x in a.args[1:]]  # every parameter is a matrix (apply_u: U)
        for p in self.params:
            if p in RESERVED:
                fail(fdef, "parameter name clashes with the generated code")
        self.locals = {}  # name -> "mat" | "nlen" | "rbuf"
        self.halves = {}  # buffer name -> [first half term, second half term]
        self.lines = []
        self.result = None  # (type, term)

    # ---- matrix / vector expressions ---------------------------------------------------
    def is_nlen(self, e):
        return is_self_attr(e, "nlen") or (isinstance(e, ast.Name) and self.locals.get(e.id) == "nlen")

    def mexpr(self, e):
        """-> (Gallina term, 'mat' | 'vec')"""
        if isinstance(e, ast.Name):
            if e.id in self.params or self.locals.get(e.id) == "mat":
                return e.id, "mat"
            fail(e, "unknown name in a matrix expression")
        if is_self_attr(e, "nmat") or is_self_attr(e, "mmat"):
            return "(%s s)" % e.attr, "mat"
        if is_self_attr(e, "mean"):
            return "(mean s)", "vec"
        if isinstance(e, ast.Attribute) and e.attr == "T":
            t, ty = self.mexpr(e.value)
            if ty != "mat":
                fail(e, ".T of a vector")
            return "(mtr %s)" % t, "mat"
        if isinstance(e, ast.Call) and isinstance(e.func, ast.Attribute) and e.func.attr == "conj" and not e.args and not e.keywords \
                and not (isinstance(e.func.value, ast.Name) and e.func.value.id == "np"):
            t, ty = self.mexpr(e.func.value)
            if ty != "mat":
                fail(e, ".conj() of a vector")
            return "(mconj N %s)" % t, "mat"
        c = np_call(e)
        if c:
            f, args = c
            if f in ("transpose", "conj") and len(args) == 1:
                t, ty = self.mexpr(args[0])
                if ty != "mat":
                    fail(e, "np.%s of a vector" % f)
                return ("(mtr %s)" % t) if f == "transpose" else ("(mconj N %s)" % t), "mat"
            if f == "identity" and len(args) == 1 and self.is_nlen(args[0]):
                return "(mid N)", "mat"
            fail(e, "numpy call in a matrix expression")
        if isinstance(e, ast.UnaryOp) and isinstance(e.op, ast.USub):
            t, ty = self.mexpr(e.operand)
            if ty != "mat":
                fail(e, "negated vector")
            return "(mopp N %s)" % t, "mat"
        if isinstance(e, ast.BinOp):
            if isinstance(e.op, (ast.Add, ast.Sub)):
                (l, tl), (r, tr) = self.mexpr(e.left), self.mexpr(e.right)
                if tl != "mat" or tr != "mat":
                    fail(e, "sum of vectors")
                return "(%s N %s %s)" % ("madd" if isinstance(e.op, ast.Add) else "msub", l, r), "mat"
            if isinstance(e.op, ast.Mult) and isinstance(e.left, ast.Constant) and e.left.value == 1j:
                r, tr = self.mexpr(e.right)
                if tr != "mat":
                    fail(e, "1j * vector")
                return "(mscale N (Ci N) %s)" % r, "mat"
            if isinstance(e.op, ast.MatMult):
                (l, tl), (r, tr) = self.mexpr(e.left), self.mexpr(e.right)
                if tl == "mat" and tr == "mat":
                    return "(mmul N (nlen s) %s %s)" % (l, r), "mat"
                if tl == "mat" and tr == "vec":
                    return "(mvec N (nlen s) %s %s)" % (l, r), "vec"
                fail(e, "matrix product shape")
            fail(e, "operator in a matrix expression")
        fail(e, "matrix expression")

    def rvexpr(self, e):
        """real vector: 2 * self.mean.real | 2 * self.mean.imag  ->  fun a_ => ..."""
        if isinstance(e, ast.BinOp) and isinstance(e.op, ast.Mult) and isinstance(e.left, ast.Constant) and e.left.value == 2 \
                and isinstance(e.right, ast.Attribute) and e.right.attr in ("real", "imag") and is_self_attr(e.right.value, "mean"):
            return "(fun a_ => nmul N (Knat N 2) (%s (mean s a_)))" % ("re" if e.right.attr == "real" else "im")
        fail(e, "real-vector expression")

    def twice_nlen(self, e):
        return isinstance(e, ast.BinOp) and isinstance(e.op, ast.Mult) and isinstance(e.left, ast.Constant) and e.left.value == 2 and self.is_nlen(e.right)

    # ---- statements ------------------------------------------------------------------------
    def emit(self, s):
        self.lines.append("  " + s)

    def stmt(self, st):
        if self.result is not None:
            fail(st, "statement after return")
        if isinstance(st, ast.Expr) and isinstance(st.value, ast.Constant) and isinstance(st.value.value, str):
            return
        if isinstance(st, ast.Assign) and len(st.targets) == 1:
            tgt, val = st.targets[0], st.value
            if isinstance(tgt, ast.Name):
                if tgt.id in RESERVED or tgt.id in self.params or tgt.id in self.locals:
                    fail(st, "assignment to a reserved / already bound name")
                if self.is_nlen(val):
                    self.locals[tgt.id] = "nlen"
                    return
                c = np_call(val)
                if c and c[0] == "empty" and len(c[1]) == 1 and self.twice_nlen(c[1][0]):
                    self.locals[tgt.id] = "rbuf"
                    self.halves[tgt.id] = [None, None]
                    return
                t, ty = self.mexpr(val)
                if ty != "mat":
                    fail(st, "local vector")
                self.locals[tgt.id] = "mat"
                self.emit("let %s := %s in" % (tgt.id, t))
                return
            if is_self_attr(tgt) and tgt.attr in ("mean", "nmat", "mmat"):
                t, ty = self.mexpr(val)
                if ty != ("vec" if tgt.attr == "mean" else "mat"):
                    fail(st, "shape of the assigned value")
                self.emit("let s := assign_%s s %s in" % (tgt.attr, t))
                return
            if isinstance(tgt, ast.Subscript) and isinstance(tgt.value, ast.Name) and self.locals.get(tgt.value.id) == "rbuf" and isinstance(tgt.slice, ast.Slice) \
                    and tgt.slice.step is None:
                lo, hi = tgt.slice.lower, tgt.slice.upper
                if isinstance(lo, ast.Constant) and lo.value == 0 and self.is_nlen(hi):
                    half = 0
                elif self.is_nlen(lo) and self.twice_nlen(hi):
                    half = 1
                else:
                    fail(st, "slice must be [0:nlen] or [nlen:2*nlen]")
                self.halves[tgt.value.id][half] = self.rvexpr(val)
                return
            fail(st, "assignment")
        if isinstance(st, ast.Return):
            v = st.value
            if isinstance(v, ast.Name) and self.locals.get(v.id) == "rbuf":
                h = self.halves[v.id]
                if h[0] is None or h[1] is None:
                    fail(st, "returned buffer not completely filled")
                self.result = ("rvec", "halves %s %s" % (h[0], h[1]))
                return
            # np.concatenate((np.concatenate((A, B), axis=1), np.concatenate((C, D), axis=1)), axis=0).real
            if isinstance(v, ast.Attribute) and v.attr == "real":
                def cat(node, axis):
                    ok = isinstance(node, ast.Call) and isinstance(node.func, ast.Attribute) and isinstance(node.func.value, ast.Name) and node.func.value.id == "np" \
                        and node.func.attr == "concatenate" and len(node.args) == 1 and isinstance(node.args[0], ast.Tuple) and len(node.args[0].elts) == 2 \
                        and len(node.keywords) == 1 and node.keywords[0].arg == "axis" and isinstance(node.keywords[0].value, ast.Constant) and node.keywords[0].value.value == axis
                    if not ok:
                        fail(node, "expected np.concatenate((X, Y), axis=%d)" % axis)
                    return node.args[0].elts
                top, bottom = cat(v.value, 0)
                blocks = []
                for row in (top, bottom):
                    for blk in cat(row, 1):
                        t, ty = self.mexpr(blk)
                        if ty != "mat":
                            fail(blk, "block must be a matrix")
                        blocks.append(t)
                self.result = ("cov", "blocks_real %s %s %s %s" % tuple(blocks))
                return
            fail(st, "return value")
        fail(st, "statement")

    def translate(self):
        for st in self.fdef.body:
            self.stmt(st)
        ps = " ".join("(%s : mat (K:=K))" % p for p in self.params)
        if self.result is None:
            head = "Definition %s %s (s : st K) : st K :=" % (self.name, ps)
            return "\n".join([head] + self.lines + ["  s."])
        ty = {"cov": "bool -> bool -> nat -> nat -> K", "rvec": "bool -> nat -> K"}[self.result[0]]
        head = "Definition %s %s (s : st K) : %s :=" % (self.name, ps, ty)
        return "\n".join([head] + self.lines + ["  %s." % self.result[1]])


def run(src=None):
    src = src or SRC
    tree = ast.parse(open(src).read())
    cls = [n for n in tree.body if isinstance(n, ast.ClassDef) and n.name == "GaussianModes"]
    if not cls:
        raise Untranslatable("UNTRANSLATABLE: class GaussianModes not found")
    defs = {n.name: n for n in cls[0].body if isinstance(n, ast.FunctionDef)}
    texts, sig = [], {}
    for m in METHODS:
        if m not in defs:
            raise Untranslatable("UNTRANSLATABLE: method %s not found" % m)
        fn = MFn(defs[m])
        texts.append(fn.translate())
        sig[m] = {"params": fn.params, "returns": fn.result[0] if fn.result else "state"}
    out = ("(* GENERATED by tools/translate_gaussmat.py from %s — do not edit *)\n"
           "From Coq Require Import List Arith Bool.\nImport ListNotations.\nFrom SFV Require Import Base.Num Base.MatOps.\n\n"
           "Section GenMat.\nContext {K : Type} (N : Num K).\n\n%s\n\nEnd GenMat.\n" % (src, "\n\n".join(texts)))
    return out, sig


def write(ctx=None):
    out, sig = run()
    gen = os.path.join(os.path.dirname(os.path.dirname(os.path.abspath(__file__))), "coq", "Gen")
    os.makedirs(gen, exist_ok=True)
    for path, text in ((os.path.join(gen, "GaussMat.v"), out), (os.path.join(gen, "gaussmat_sig.json"), json.dumps(sig, indent=1))):
        old = open(path).read() if os.path.exists(path) else None
        if old != text:
            open(path, "w").write(text)
    return sig


def translate_gaussmat(ctx):
    write(ctx)


if __name__ == "__main__":
    write()
    print(open(os.path.join(os.path.dirname(os.path.dirname(os.path.abspath(__file__))), "coq", "Gen", "GaussMat.v")).read())
