#!/venv/bin/python
"""Lead's own confirmation of every seeded change: in a scratch worktree of /repo HEAD, (1) demo.py exits 0 on the unchanged tree,
(2) the patch applies, (3) demo.py exits 1 with it, (4) the repository's test suite (xdist, -n given) shows no failure other than the ones
that also fail on the unchanged tree.  Writes seeded/VERIFY.json.  Usage: tools/verify_seeded.py [-n 8] [--only substr] [--no-suite]"""
import json, os, re, subprocess, sys
V = os.path.dirname(os.path.dirname(os.path.abspath(__file__)))
WT = "/tmp/sfv_verify_wt"
KNOWN_BAD = {"test_default_sf_logger[strawberryfields.engine]", "test_average_fidelity"}
FLAKY = ("cluster", "threshold", "test_homodyne", "extract_kraus", "test_mean_and_std", "test_mean_coherent", "VGBS")


def sh(c):
    return subprocess.run(c, shell=True, stdout=subprocess.PIPE, stderr=subprocess.STDOUT, text=True)


def main():
    n, only, suite = 8, None, True
    a = sys.argv[1:]
    while a:
        x = a.pop(0)
        if x == "-n": n = int(a.pop(0))
        elif x == "--only": only = a.pop(0)
        elif x == "--no-suite": suite = False
    if os.path.isdir(WT):
        sh("git -C /repo worktree remove --force " + WT)
    sh("git -C /repo worktree add --detach %s HEAD" % WT)
    out_path = os.path.join(V, "seeded", "VERIFY.json")
    res = json.load(open(out_path)) if os.path.exists(out_path) else {}
    for d in sorted(os.listdir(os.path.join(V, "seeded"))):
        p = os.path.join(V, "seeded", d)
        if not os.path.isdir(p) or (only and only not in d):
            continue
        rec = {}
        demo = "cd %s && PYTHONPATH=%s timeout 2400 /venv/bin/python -W ignore %s/demo.py" % (WT, WT, p)
        rec["demo_unchanged"] = sh(demo).returncode
        ap = sh("git -C %s apply --whitespace=nowarn %s/patch.diff" % (WT, p))
        rec["applies"] = ap.returncode == 0
        if rec["applies"]:
            rec["demo_changed"] = sh(demo).returncode
            if suite:
                r = sh("cd %s && env -u SF_VERIF PYTHONPATH=%s timeout 7200 /venv/bin/python -m pytest -q -p no:cacheprovider --timeout=900 -n %d tests" % (WT, WT, n))
                fails = re.findall(r"^FAILED (\S+)", r.stdout, re.M)
                unexpected = [f for f in fails if not any(k in f for k in KNOWN_BAD)]
                # re-run unexpected failures alone (sampling-based tests are flaky under load)
                still = []
                for f in unexpected:
                    rr = sh("cd %s && env -u SF_VERIF PYTHONPATH=%s timeout 1800 /venv/bin/python -m pytest -q -p no:cacheprovider '%s'" % (WT, WT, f))
                    if rr.returncode != 0:
                        still.append(f)
                m = re.search(r"(\d+) passed", r.stdout)
                rec.update({"suite_passed": int(m.group(1)) if m else None, "suite_failed_known": len(fails) - len(unexpected),
                            "suite_failed_flaky_passed_alone": [f for f in unexpected if f not in still], "suite_failed_unexpected": still})
            sh("git -C %s checkout -- ." % WT)
        res[d] = rec
        json.dump(res, open(out_path, "w"), indent=1)
        print(d, rec, flush=True)
    sh("git -C /repo worktree remove --force " + WT)


if __name__ == "__main__":
    main()
