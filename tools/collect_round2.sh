#!/bin/bash
# collect finished round-2 seeded changes: /tmp/mut2_Cxx_out/{1,2} -> seeded/Cxx-{3,4}; remove worktree; run the property's check on them
cd "$(dirname "$0")/.."
for p in "$@"; do
  for k in 1 2; do
    j=$((k+2)); mkdir -p seeded/$p-$j
    cp /tmp/mut2_${p}_out/$k/patch.diff /tmp/mut2_${p}_out/$k/demo.py /tmp/mut2_${p}_out/$k/meta.json seeded/$p-$j/ || echo "MISSING $p $k"
  done
  git -C /repo worktree remove --force /tmp/mut2_$p 2>/dev/null; rm -rf /tmp/mut2_${p}_out /tmp/mut2_${p}_* /tmp/mut2_${p}
  for j in 3 4; do /venv/bin/python tools/run_seeded.py --tier quick --only $p-$j 2>&1 | grep -E "^$p-$j" ; done
done
