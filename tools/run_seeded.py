#!/venv/bin/python
"""Run checks against every seeded change under /verif/seeded/<id>/ (patch.diff, demo.py, meta.json).

For each: make sure /repo is clean, `git apply` the patch, run the property's check (quick, optionally thorough),
record whether a VIOLATION line was printed, then `git checkout -- .` again.  Results go to seeded/RESULTS.json.
Usage: tools/run_seeded.py [--tier quick|thorough] [--only <id-substring>] [--also C01,C05]  (extra checks to run on every patch)
"""
import json
import os
import subprocess
import sys
import time

VERIF = os.path.dirname(os.path.dirname(os.path.abspath(__file__)))
SEEDED = os.path.join(VERIF, "seeded")


def sh(cmd, **kw):
    return subprocess.run(cmd, shell=True, stdout=subprocess.PIPE, stderr=subprocess.STDOUT, text=True, **kw)


WT = "/tmp/sfv_seed_wt"


def clean():
    return sh("git -C %s status --porcelain --untracked-files=no" % WT).stdout.strip() == ""


def ensure_wt():
    """A scratch worktree of /repo at its current HEAD; checks run against it through SFV_REPO, /repo is not touched."""
    if os.path.isdir(WT):
        sh("git -C /repo worktree remove --force %s" % WT)
    r = sh("git -C /repo worktree add --detach %s HEAD" % WT)
    if r.returncode != 0:
        raise SystemExit(r.stdout)


def main():
    args = sys.argv[1:]
    tier = "quick"
    only = None
    also = []
    while args:
        a = args.pop(0)
        if a == "--tier":
            tier = args.pop(0)
        elif a == "--only":
            only = args.pop(0)
        elif a == "--also":
            also = args.pop(0).split(",")
    ensure_wt()
    results_path = os.path.join(SEEDED, "RESULTS.json")
    results = json.load(open(results_path)) if os.path.exists(results_path) else {}
    for d in sorted(os.listdir(SEEDED)):
        p = os.path.join(SEEDED, d)
        if not os.path.isdir(p) or not os.path.exists(os.path.join(p, "patch.diff")):
            continue
        if only and only not in d:
            continue
        meta = json.load(open(os.path.join(p, "meta.json")))
        prop = meta["property"]
        ap = sh("git -C %s apply --whitespace=nowarn %s" % (WT, os.path.join(p, "patch.diff")))
        if ap.returncode != 0:
            print(d, "PATCH DOES NOT APPLY:", ap.stdout[-300:])
            results[d] = {"property": prop, "applies": False}
            continue
        try:
            rec = {"property": prop, "applies": True, "tier": tier, "checks": {}}
            demo = os.path.join(p, "demo.py")
            if os.path.exists(demo):
                r = sh("cd %s && PYTHONPATH=%s timeout 1800 /venv/bin/python -W ignore %s" % (WT, WT, demo))
                rec["demo_exit_with_patch"] = r.returncode
            for c in [prop] + [x for x in also if x != prop]:
                t0 = time.time()
                r = sh("cd %s && SFV_REPO=%s timeout 5400 ./check %s %s" % (VERIF, WT, c, tier))
                viol = [l for l in r.stdout.split("\n") if l.startswith("VIOLATION")]
                rec["checks"][c] = {"exit": r.returncode, "violations": viol[:5], "detail": [l for l in r.stdout.split("\n") if l.startswith("  - ")][:4],
                                    "wall_s": round(time.time() - t0, 1)}
                print(d, c, tier, "exit", r.returncode, "VIOLATION" if viol else "missed", "%.0fs" % (time.time() - t0))
            results[d] = rec
        finally:
            sh("git -C %s checkout -- ." % WT)
        json.dump(results, open(results_path, "w"), indent=1)
    sh("git -C /repo worktree remove --force %s" % WT)
    # Gen/ may have been regenerated from the scratch worktree: regenerate it from /repo
    sh("cd %s && ./check C05 quick" % VERIF)
    return 0


if __name__ == "__main__":
    sys.exit(main())
