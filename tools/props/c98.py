"""TEMPORARY development module for the Bosonic component (deleted before hand-over)."""
import os
from props import bosonic_model as bm

PROP = "C98"
LEVEL = "proof"
COQ_DIRS = ["Bosonic"]
COQ_TARGETS = [t for t in bm.COQ_TARGETS if os.path.exists("/verif/coq/" + t[:-1])]
PROPERTIES_FILE = bm.PROPERTIES_FILE if os.path.exists("/verif/coq/" + bm.PROPERTIES_FILE) else None
ALLOWED_AXIOMS = set()
RULE = bm.RULE_BOSONIC
TRUSTED_BASE = list(bm.TRUSTED_BOSONIC)
ASSUMPTIONS = []
MANIFEST_TEXT = "dev"


def correspondence(ctx):
    bm.correspondence_bosonic(ctx, predicates=bm.ALL_PREDICATES)


def replay(ctx, data):
    return bm.replay_bosonic(ctx, data)
