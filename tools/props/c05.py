"""C05 — operations act only on their target modes."""
import numpy as np

from props import backends_common as bc
from props import gauss_common as gc
from vlib import sfgen

PROP = "C05"
LEVEL = "proof"
COQ_DIRS = ["C05"]
COQ_TARGETS = ["Gen/GaussCirc.vo", "C05/GaussSpectators.vo"]
PROPERTIES_FILE = "Properties/C05.v"
ALLOWED_AXIOMS = set()
TRANSLATORS = [gc.translate_gausscirc]
RULE = ("(a) generated-function correspondence: random (method, register size 1-5, target position, parameters incl. 0 and "
        "multiples of pi/2, Hermitian or arbitrary complex N/M) — non-trivial when >= 2 modes and a target index > 0; "
        "(b) spectator search: weak correlated displaced mixed prior state on n=2..4 modes, one op on random ordered targets, "
        "spectators' reduced state compared before/after on gaussian, bosonic, fock-pure, fock-mixed — non-trivial when a target is not mode 0 "
        "or targets are in descending order")
TRUSTED_BASE = [
    "Coq 8.16.1 kernel; vm_compute for evaluating generated functions at PrimFloat",
    "translator tools/translate_gauss.py (fail-closed; output validated against GaussianModes on every run at binary64, tol 2^-30)",
    "hand model coq/C05/FockLocality.v of the axis bookkeeping of fockbackend/circuit.py, tied by exact integer-tensor correspondence",
    "spectator search on the implementation (a test, not a proof): Fock tolerance 1e-6 + 4*sqrt(1 - trace)",
]
ASSUMPTIONS = ["Fock matrix elements of gates are not modelled (The Walrus / ops.py closed forms)"]
MANIFEST_TEXT = ("Proved for all register sizes, target positions, states and parameter values: every GaussianModes update method (model regenerated "
                 "from the source each run) leaves every N, M, alpha entry not involving a target mode unchanged; Fock axis-locality of "
                 "gate application. Bosonic and Fock-channel spectator invariance: search only (partial).")

GAUSS_NAMES = list(sfgen.GAUSSIAN_GATES) + list(sfgen.CHANNELS) + list(sfgen.PREPS)
FOCK_NAMES = [x for x in GAUSS_NAMES if x not in ("ThermalLossChannel", "Thermal")] + ["Kgate", "Vgate", "CKgate", "Fock"]


def correspondence(ctx):
    failing = gc.correspondence_generated(ctx, ctx.budget(240, 3000), tag="c05")
    if failing is None:
        return
    for c in failing[:5]:
        small = {k: c[k] for k in ("method", "n", "args", "N", "M", "a", "structured")}
        small["N"] = [[[z.real, z.imag] for z in r] for r in c["N"]]
        small["M"] = [[[z.real, z.imag] for z in r] for r in c["M"]]
        small["a"] = [[z.real, z.imag] for z in c["a"]]
        # property predicate on the implementation at this input: spectators unchanged?
        sig = spect_violation_gm(c)
        if sig:
            ctx.counterexample("gaussianmodes:%s:%s" % (c["method"], sig), "GaussianModes.%s changes an entry not involving its target mode(s)" % c["method"],
                               {"check": "gm", "case": small})
        else:
            ctx.disagreement("corr:gausscirc:" + c["method"], "generated model of GaussianModes.%s disagrees with the implementation" % c["method"], {"check": "gm", "case": small})


def spect_violation_gm(c):
    tg = [v for v in c["args"].values() if isinstance(v, int)]
    N1, M1, a1 = (np.array(x) for x in c["out"])
    N0, M0, a0 = np.array(c["N"]), np.array(c["M"]), np.array(c["a"])
    n = c["n"]
    for i in range(n):
        if i in tg:
            continue
        if abs(a1[i] - a0[i]) > 1e-12:
            return "spectator-mean-changed"
        for j in range(n):
            if j in tg:
                continue
            if abs(N1[i, j] - N0[i, j]) > 1e-12:
                return "spectator-N-changed"
            if abs(M1[i, j] - M0[i, j]) > 1e-12:
                return "spectator-M-changed"
    return None


def spectator_case(ctx, rng, backend):
    n = rng.randint(2, 4) if backend in ("gaussian", "bosonic") else rng.randint(2, 3)
    names = GAUSS_NAMES if backend in ("gaussian", "bosonic") else FOCK_NAMES
    pre = bc.weak_prefix(rng, n)
    if backend.startswith("fock"):
        pre = [c for c in pre if c[0] != "ThermalLossChannel"]
        if backend == "fock-mixed" or rng.random() < 0.5:
            pre += [["LossChannel", [round(rng.uniform(0.7, 0.95), 3)], [rng.randrange(n)], False]] if backend == "fock-mixed" else []
    cmd = bc.weak_cmd(rng, n, names)
    if backend == "fock-pure" and cmd[0] in ("LossChannel",):
        pass  # a channel turns the pure representation into a mixed one: still fine to compare reduced states
    return n, pre, cmd


def spectators_changed(backend, n, pre, cmd, cutoff=8):
    """Return (changed?, detail) for the reduced state of the non-target modes."""
    spect = [m for m in range(n) if m not in cmd[2]]
    if not spect:
        return False, "no spectators"
    before = bc.run({"n": n, "cmds": pre}, backend, cutoff)
    after = bc.run({"n": n, "cmds": pre + [cmd]}, backend, cutoff)
    if backend in ("gaussian", "bosonic"):
        m0, c0 = bc.reduced_gauss(*bc.gauss_obs(before), spect)
        m1, c1 = bc.reduced_gauss(*bc.gauss_obs(after), spect)
        d = max(np.abs(m0 - m1).max(), np.abs(c0 - c1).max())
        return d > 1e-9, "max |delta| = %.3g on spectators %s" % (d, spect)
    tol, tr = bc.fock_tol(after)
    tol0, tr0 = bc.fock_tol(before)
    r0 = bc.fock_reduced(before, spect)
    r1 = bc.fock_reduced(after, spect)
    d = np.abs(r0 - r1).max()
    return d > max(tol, tol0), "max |delta| = %.3g (tol %.3g, traces %.8f -> %.8f) on spectators %s" % (d, max(tol, tol0), tr0, tr, spect)


def search(ctx):
    rng = ctx.rng
    per = ctx.budget({"gaussian": 80, "bosonic": 60, "fock-pure": 24, "fock-mixed": 16},
                     {"gaussian": 800, "bosonic": 500, "fock-pure": 200, "fock-mixed": 120})
    for backend, cnt in per.items():
        for _ in range(cnt):
            n, pre, cmd = spectator_case(ctx, rng, backend)
            try:
                changed, detail = spectators_changed(backend, n, pre, cmd)
            except Exception as e:
                ctx.counterexample("spectators:%s:%s:raises:%s" % (backend, cmd[0], type(e).__name__), "running %s on %s raised %r" % (cmd, backend, e),
                                   {"check": "spect", "backend": backend, "n": n, "pre": pre, "cmd": cmd})
                continue
            nontriv = min(cmd[2]) > 0 or cmd[2] != sorted(cmd[2])
            ctx.case({"backend": backend, "n": n, "cmd": cmd}, nontrivial=nontriv, bucket="spect-%s-%s" % (backend, cmd[0]))
            if changed:
                ctx.counterexample("spectators:%s:%s" % (backend.split("-")[0], cmd[0]),
                                   "%s on modes %s of a %d-mode register changes the reduced state of the other modes on the %s backend (%s)" % (cmd[0], cmd[2], n, backend, detail),
                                   {"check": "spect", "backend": backend, "n": n, "pre": pre, "cmd": cmd})


def replay(ctx, data):
    d = data["data"]
    if d.get("check") == "spect":
        changed, detail = spectators_changed(d["backend"], d["n"], d["pre"], d["cmd"])
        print(detail)
        return bool(changed)
    if d.get("check") == "gm":
        c = dict(d["case"])
        c["N"] = [[complex(*z) for z in r] for r in c["N"]]
        c["M"] = [[complex(*z) for z in r] for r in c["M"]]
        c["a"] = [complex(*z) for z in c["a"]]
        import json
        sig = json.load(open(gc.SIG_PATH))
        c["order"] = sig[c["method"]]["pyparams"]
        c["out"] = gc.run_impl(c)
        s = spect_violation_gm(c)
        print("spectator violation:", s)
        return bool(s)
    return False
