"""C05 — operations act only on their target modes."""
import numpy as np

from props import backends_common as bc
from props import gauss_common as gc
from props import bosonic_model as bm
from props import fock_axes as fa
from vlib import sfgen

PROP = "C05"
LEVEL = "proof"
COQ_DIRS = ["C05", "FockAxes", "Bosonic", "C07"]
COQ_TARGETS = ["Gen/GaussCirc.vo", "Base/MatOps.vo", "Gen/GaussMat.vo", "C07/GaussPhysical.vo", "C07/GaussPassive.vo", "C01/GaussReadout.vo", "C05/GaussSpectators.vo", "Base/GaussAlloc.vo", "C05/GaussAllocProofs.vo"] + list(fa.COQ_TARGETS) + list(bm.COQ_TARGETS)
PROPERTIES_FILE = "Properties/C05.v"
EXTRA_PROPERTIES_FILES = [fa.PROPERTIES_FILE, bm.PROPERTIES_FILE]
ALLOWED_AXIOMS = set()
TRANSLATORS = [gc.translate_gausscirc, gc.translate_gaussmat_fn]
RULE = ("(a) generated-function correspondence: random (method, register size 1-5, target position, parameters incl. 0 and "
        "multiples of pi/2, Hermitian or arbitrary complex N/M) — non-trivial when >= 2 modes and a target index > 0; "
        "(b) spectator search: weak correlated displaced mixed prior state on n=2..4 modes, one op on random ordered targets, "
        "spectators' reduced state compared before/after on gaussian, bosonic, fock-pure, fock-mixed — non-trivial when a target is not mode 0 "
        "or targets are in descending order; "
        "(c) post-state stream: preparations, deletions, homodyne / heterodyne / photon-counting measurements (post-selected or not, after deletions), "
        "twin-beam outcome assignment; "
        "(d) hardening families: deterministic spectator sweep (every operation x special parameter values 0, T in {0, 1}, multiples of pi/2 x every "
        "ordered target position of a 3-mode register, all backends; PassiveChannel; bosonic MSgate average map; 5-6 mode registers), New / Del "
        "histories (bosonic states with several weights: cat / Fock first preparations), BosonicModes.add_mode / del_mode driven directly on "
        "several-weight states, measurements whose WHOLE post-state is compared with the textbook conditional state for the reported outcome "
        "(sampled and post-selected homodyne / heterodyne, bosonic threshold detection, Fock-backend photon counting on shuffled mode lists with "
        "and without select, Fock-backend homodyne at any angle with outcomes of both signs), Gaussian(V, r, decomp=False) on shuffled subsets of "
        "the modes, Fock-backend preparations (incl. Thermal, DisplacedSqueezed, Ket / DensityMatrix on shuffled mode lists) against independently "
        "computed closed forms — all of these count as non-trivial")
TRUSTED_BASE = [
    "Coq 8.16.1 kernel; vm_compute for evaluating generated functions at PrimFloat",
    "translator tools/translate_gauss.py (fail-closed; output validated against GaussianModes on every run at binary64, tol 2^-30)",
    "hand model coq/FockAxes/Model.v of the axis bookkeeping of fockbackend/circuit.py (apply_gate_BLAS, apply_twomode_gate, _apply_channel, mix, prepare, alloc), tied by exact integer-tensor correspondence",
    "spectator search on the implementation (a test, not a proof): Fock tolerance 1e-6 + 4*sqrt(1 - trace) in the random stream, 1e-6 + 3*min(1 - trace, 5e-3) in the deterministic sweep",
    "post-state references computed in this module with numpy / scipy only: conditional Gaussian mixtures (Schur complement per component, likelihood re-weighting), "
    "Wigner-function comparison of mixtures at fixed points, quadrature eigenbras from Hermite functions, D(alpha) S(z)|0> through matrix exponentials at dimension 40; "
    "a sampled homodyne outcome is compared at 5e-3 (finite squeezing eps = 2e-4 of the simulated detector), Fock-backend homodyne at 3e-3 for |x| <= 1.5",
]
ASSUMPTIONS = ["Fock matrix elements of gates are not modelled (The Walrus / ops.py closed forms)"]
MANIFEST_TEXT = ("Proved for all register sizes, target positions, states and parameter values: every GaussianModes update method (model regenerated "
                 "from the source each run) leaves every N, M, alpha entry not involving a target mode unchanged; allocation appends a vacuum mode uncorrelated "
                 "with the rest and deletion touches nothing else; Fock gate / two-mode / channel application reads and writes only the target axes (FockAxes: "
                 "33 theorems, exact integer-tensor correspondence). Bosonic spectators and post-states of preparations / measurements: search (partial): the whole state after a "
                 "preparation, deletion or measurement is compared with (reduced state of the rest, conditioned on the reported outcome) x (documented target state) on every backend.")

GAUSS_NAMES = list(sfgen.GAUSSIAN_GATES) + list(sfgen.CHANNELS) + list(sfgen.PREPS)
FOCK_NAMES = [x for x in GAUSS_NAMES if x not in ("ThermalLossChannel", "Thermal")] + ["Kgate", "Vgate", "CKgate", "Fock"]


def correspondence(ctx):
    bm.correspondence_bosonic(ctx, predicates=('spectator',))
    fa.correspondence_fock_axes(ctx)
    bad = gc.correspondence_alloc(ctx, ctx.budget(60, 600), tag="c05alloc")
    if bad:
        ctx.disagreement("corr:gaussianmodes:" + bad[0][0], "hand model of GaussianModes.%s disagrees with the implementation (n = %d)" % (bad[0][0], bad[0][1]),
                         {"check": "alloc", "kind": bad[0][0], "n": bad[0][1]})
    bad = gc.correspondence_apply_u(ctx, ctx.budget(60, 600), tag="c05au")
    for c in (bad or [])[:3]:
        small = {"kind": c["kind"], "n": c["n"], "U": [[[z.real, z.imag] for z in r] for r in np.array(c["U"])]}
        sig = apply_u_spect_violation(c)
        if sig:
            ctx.counterexample("gaussianmodes:apply_u:" + sig, "GaussianModes.apply_u with U = identity outside the targets changes an entry among the other modes", {"check": "apply_u", "case": small})
        else:
            ctx.disagreement("corr:gaussmat:apply_u", "generated model of GaussianModes.apply_u disagrees with the implementation", {"check": "apply_u", "case": small})
    failing = gc.correspondence_generated(ctx, ctx.budget(240, 3000), tag="c05")
    if failing is None:
        return
    for c in failing[:5]:
        small = {k: c[k] for k in ("method", "n", "args", "N", "M", "a", "structured")}
        small["N"] = [[[z.real, z.imag] for z in r] for r in c["N"]]
        small["M"] = [[[z.real, z.imag] for z in r] for r in c["M"]]
        small["a"] = [[z.real, z.imag] for z in c["a"]]
        # property predicate on the implementation at this input: spectators unchanged?
        sig = spect_violation_gm(c)
        if sig:
            ctx.counterexample("gaussianmodes:%s:%s" % (c["method"], sig), "GaussianModes.%s changes an entry not involving its target mode(s)" % c["method"],
                               {"check": "gm", "case": small})
        else:
            ctx.disagreement("corr:gausscirc:" + c["method"], "generated model of GaussianModes.%s disagrees with the implementation" % c["method"], {"check": "gm", "case": small})


def apply_u_spect_violation(c):
    """U is the identity on the rows of the non-target modes: entries of N, M, mean among those modes must not change."""
    U = np.array(c["U"])
    n = c["n"]
    spect = [i for i in range(n) if np.allclose(U[i], np.eye(n)[i], atol=0) and np.allclose(U[:, i], np.eye(n)[i], atol=0)]
    if not spect or len(spect) == n:
        return None
    N1, M1, a1 = (np.array(x) for x in c["out"])
    N0, M0, a0 = np.array(c["N"]), np.array(c["M"]), np.array(c["a"])
    ix = np.ix_(spect, spect)
    if np.abs(a1[spect] - a0[spect]).max() > 1e-12:
        return "spectator-mean-changed"
    if np.abs(N1[ix] - N0[ix]).max() > 1e-12:
        return "spectator-N-changed"
    if np.abs(M1[ix] - M0[ix]).max() > 1e-12:
        return "spectator-M-changed"
    return None


def spect_violation_gm(c):
    tg = [v for v in c["args"].values() if isinstance(v, int)]
    N1, M1, a1 = (np.array(x) for x in c["out"])
    N0, M0, a0 = np.array(c["N"]), np.array(c["M"]), np.array(c["a"])
    n = c["n"]
    for i in range(n):
        if i in tg:
            continue
        if abs(a1[i] - a0[i]) > 1e-12:
            return "spectator-mean-changed"
        for j in range(n):
            if j in tg:
                continue
            if abs(N1[i, j] - N0[i, j]) > 1e-12:
                return "spectator-N-changed"
            if abs(M1[i, j] - M0[i, j]) > 1e-12:
                return "spectator-M-changed"
    return None


def spectator_case(ctx, rng, backend):
    n = rng.randint(2, 4) if backend in ("gaussian", "bosonic") else rng.randint(2, 3)
    names = GAUSS_NAMES if backend in ("gaussian", "bosonic") else FOCK_NAMES
    if backend == "gaussian":
        names = names + ["PassiveChannel"]  # multi-mode passive transformation (Gaussian backend only)
    pre = bc.weak_prefix(rng, n)
    if backend.startswith("fock"):
        pre = [c for c in pre if c[0] != "ThermalLossChannel"]
        if backend == "fock-mixed" or rng.random() < 0.5:
            pre += [["LossChannel", [round(rng.uniform(0.7, 0.95), 3)], [rng.randrange(n)], False]] if backend == "fock-mixed" else []
    cmd = bc.weak_cmd(rng, n, names)
    if backend == "fock-pure" and cmd[0] in ("LossChannel",):
        pass  # a channel turns the pure representation into a mixed one: still fine to compare reduced states
    return n, pre, cmd


def spectators_changed(backend, n, pre, cmd, cutoff=8):
    """Return (changed?, detail) for the reduced state of the non-target modes."""
    spect = [m for m in range(n) if m not in cmd[2]]
    if not spect:
        return False, "no spectators"
    before = bc.run({"n": n, "cmds": pre}, backend, cutoff)
    after = bc.run({"n": n, "cmds": pre + [cmd]}, backend, cutoff)
    if backend in ("gaussian", "bosonic"):
        m0, c0 = bc.reduced_gauss(*bc.gauss_obs(before), spect)
        m1, c1 = bc.reduced_gauss(*bc.gauss_obs(after), spect)
        d = max(np.abs(m0 - m1).max(), np.abs(c0 - c1).max())
        return d > 1e-9, "max |delta| = %.3g on spectators %s" % (d, spect)
    tol, tr = bc.fock_tol(after)
    tol0, tr0 = bc.fock_tol(before)
    r0 = bc.fock_reduced(before, spect)
    r1 = bc.fock_reduced(after, spect)
    d = np.abs(r0 - r1).max()
    return d > max(tol, tol0), "max |delta| = %.3g (tol %.3g, traces %.8f -> %.8f) on spectators %s" % (d, max(tol, tol0), tr0, tr, spect)


def search(ctx):
    rng = ctx.rng
    per = ctx.budget({"gaussian": 80, "bosonic": 60, "fock-pure": 12, "fock-mixed": 8},   # (Fock: the deterministic sweep below carries the quick tier)
                     {"gaussian": 800, "bosonic": 500, "fock-pure": 200, "fock-mixed": 120})
    for backend, cnt in per.items():
        for _ in range(cnt):
            n, pre, cmd = spectator_case(ctx, rng, backend)
            try:
                changed, detail = spectators_changed(backend, n, pre, cmd)
            except Exception as e:
                ctx.counterexample("spectators:%s:%s:raises:%s" % (backend, cmd[0], type(e).__name__), "running %s on %s raised %r" % (cmd, backend, e),
                                   {"check": "spect", "backend": backend, "n": n, "pre": pre, "cmd": cmd})
                continue
            nontriv = min(cmd[2]) > 0 or cmd[2] != sorted(cmd[2])
            ctx.case({"backend": backend, "n": n, "cmd": cmd}, nontrivial=nontriv, bucket="spect-%s-%s" % (backend, cmd[0]))
            if changed:
                ctx.counterexample("spectators:%s:%s" % (backend.split("-")[0], cmd[0]),
                                   "%s on modes %s of a %d-mode register changes the reduced state of the other modes on the %s backend (%s)" % (cmd[0], cmd[2], n, backend, detail),
                                   {"check": "spect", "backend": backend, "n": n, "pre": pre, "cmd": cmd})


def replay(ctx, data):
    d = data["data"]
    if str(d.get("check", "")).startswith("bosonic"):
        return bm.replay_bosonic(ctx, data)
    if d.get("check") == "fock-axes":
        return fa.replay_fock_axes(ctx, data)
    if d.get("check") == "spect":
        changed, detail = spectators_changed(d["backend"], d["n"], d["pre"], d["cmd"])
        print(detail)
        return bool(changed)
    if d.get("check") == "gm":
        c = dict(d["case"])
        c["N"] = [[complex(*z) for z in r] for r in c["N"]]
        c["M"] = [[complex(*z) for z in r] for r in c["M"]]
        c["a"] = [complex(*z) for z in c["a"]]
        import json
        sig = json.load(open(gc.SIG_PATH))
        c["order"] = sig[c["method"]]["pyparams"]
        c["out"] = gc.run_impl(c)
        s = spect_violation_gm(c)
        print("spectator violation:", s)
        return bool(s)
    if d.get("check") == "post":
        sg = eval_post_spec(d)
        print("post-state violation:", sg)
        return bool(sg)
    return False


# ------------------------------------------------------------------------------------------
# second clause of C05: preparations, deletions and measurements leave the targets in the documented post-state,
# uncorrelated with the rest, and change the rest only by the conditional update

import strawberryfields as _sf
from strawberryfields import ops as _ops

_search_gates = search


def _build(n, cmds, tail):
    """tail: callable(q) appending the final op(s) inside the context."""
    prog = _sf.Program(n)
    with prog.context as q:
        for name_, params, modes, dagger in cmds:
            sfgen.make_op(name_, params, dagger) | tuple(q[m] for m in modes)
        tail(q)
    return prog


def _engine(backend, cutoff=7):
    if backend == "gaussian":
        return _sf.Engine("gaussian")
    if backend == "bosonic":
        return _sf.Engine("bosonic")
    return _sf.Engine("fock", backend_options={"cutoff_dim": cutoff, "pure": backend == "fock-pure"})


def _vac_and_uncorrelated(state, backend, targets, n, tol):
    """Targets in vacuum and uncorrelated with the rest?"""
    if backend in ("gaussian", "bosonic"):
        means, cov = bc.gauss_obs(state)
        for t in targets:
            idx = [t, t + n]
            if np.abs(means[idx]).max() > tol or np.abs(cov[np.ix_(idx, idx)] - np.eye(2)).max() > tol:
                return "target-not-vacuum"
            rest = [i for i in range(2 * n) if i not in idx]
            if rest and np.abs(cov[np.ix_(idx, rest)]).max() > tol:
                return "target-correlated-with-rest"
        return None
    for t in targets:
        r = state.reduced_dm([t])
        vac = np.zeros_like(r)
        vac[0, 0] = 1.0
        tr = float(np.real(np.trace(r)))
        if tr > 1e-9 and np.abs(r / tr - vac).max() > tol:
            return "target-not-vacuum"
    return None


def gen_post_spec(rng, backend):
    fock = backend.startswith("fock")
    n = rng.randint(2, 3) if fock else rng.randint(2, 4)
    pre = bc.weak_prefix(rng, n)
    if fock:
        pre = [c for c in pre if c[0] != "ThermalLossChannel"]
    kind = rng.choice(["prep", "del", "homodyne", "heterodyne", "fock"] if not fock else ["prep", "del", "homodyne", "fock", "fock-twin"])
    d = {"check": "post", "backend": backend, "kind": kind, "n": n, "pre": pre}
    if kind == "prep":
        d["target"] = rng.randrange(n)
        d["prep"] = rng.choice(["Vacuum", "Coherent", "Squeezed", "Thermal"] if not fock else ["Vacuum", "Coherent", "Squeezed", "Fock"])
    elif kind == "del":
        d["target"] = rng.randrange(n)
    elif kind in ("homodyne", "heterodyne"):
        d["target"] = rng.randrange(n)
        d["select"] = rng.random() < 0.5
        d["angle"] = round(rng.uniform(-1, 1), 3)
        # a history with deleted modes: possibly only the measured mode survives
        others = [m for m in range(n) if m != d["target"]]
        d["deleted"] = sorted(rng.sample(others, rng.randint(0, len(others)))) if rng.random() < 0.5 else []
    elif kind == "fock":
        d["targets"] = rng.sample(range(n), rng.randint(1, n))
    else:
        d.update({"n": 4, "pre": [], "order": rng.sample([0, 1, 2], 3)})
    return d


def eval_post_spec(d):
    """Returns a signature string if the documented post-state does not hold, else None."""
    backend, kind, n, pre = d["backend"], d["kind"], d["n"], d["pre"]
    fock = backend.startswith("fock")
    tol = 1e-6 if not fock else 5e-3
    if kind == "prep":
        t, pname = d["target"], d["prep"]
        params = {"Vacuum": [], "Coherent": [0.3, 0.4], "Squeezed": [0.2, 0.5], "Thermal": [0.4], "Fock": [1]}[pname]
        st = _engine(backend).run(_build(n, pre, lambda q: sfgen.make_op(pname, params) | q[t])).state
        ref = _engine(backend).run(_build(1, [], lambda q: sfgen.make_op(pname, params) | q[0])).state
        before = _engine(backend).run(_build(n, pre, lambda q: None)).state
        spect = [m for m in range(n) if m != t]
        if not fock:
            m1, c1 = bc.gauss_obs(st)
            mr, cr = bc.gauss_obs(ref)
            m0, c0 = bc.gauss_obs(before)
            idx = [t, t + n]
            rest = [i for i in range(2 * n) if i not in idx]
            if np.abs(m1[idx] - mr).max() > tol or np.abs(c1[np.ix_(idx, idx)] - cr).max() > tol:
                return "prep:%s:target-not-prepared-state" % backend
            if np.abs(c1[np.ix_(idx, rest)]).max() > tol:
                return "prep:%s:target-correlated-with-rest" % backend
            a0, a1 = bc.reduced_gauss(m0, c0, spect), bc.reduced_gauss(m1, c1, spect)
            if max(np.abs(a0[0] - a1[0]).max(), np.abs(a0[1] - a1[1]).max()) > tol:
                return "prep:%s:rest-changed" % backend
        else:
            if np.abs(st.reduced_dm([t]) - ref.reduced_dm([0])).max() > tol:
                return "prep:fock:target-not-prepared-state"
            if np.abs(st.reduced_dm(spect) - before.reduced_dm(spect)).max() > max(tol, bc.fock_tol(before)[0]):
                return "prep:fock:rest-changed"
        return None
    if kind == "del":
        t = d["target"]
        st = _engine(backend).run(_build(n, pre, lambda q: _ops.Del | q[t])).state
        before = _engine(backend).run(_build(n, pre, lambda q: None)).state
        spect = [m for m in range(n) if m != t]
        if not fock:
            m1, c1 = bc.gauss_obs(st)
            m0, c0 = bc.gauss_obs(before)
            a0 = bc.reduced_gauss(m0, c0, spect)
            if len(m1) != 2 * len(spect) or max(np.abs(a0[0] - m1).max(), np.abs(a0[1] - c1).max()) > tol:
                return "del:%s:rest-changed" % backend
        else:
            r1 = st.reduced_dm(list(range(len(spect))))
            if np.abs(r1 - before.reduced_dm(spect)).max() > max(tol, bc.fock_tol(before)[0]):
                return "del:fock:rest-changed"
        return None
    if kind in ("homodyne", "heterodyne"):
        if kind == "heterodyne" and fock:
            return None
        t, sel = d["target"], d["select"]
        if kind == "homodyne":
            op = _ops.MeasureHomodyne(d["angle"], select=0.3 if sel else None)
        else:
            op = _ops.MeasureHeterodyne(select=(0.2 + 0.1j) if sel else None)
        deleted = d.get("deleted", [])

        def tail(q):
            for m in deleted:
                _ops.Del | q[m]
            op | q[t]
        st = _engine(backend).run(_build(n, pre, tail)).state
        live = [m for m in range(n) if m not in deleted]
        v = _vac_and_uncorrelated(st, backend, [live.index(t)], len(live), tol if not fock else 2e-2)
        if v is None and sel and not fock:
            # "changes the rest only by the conditional update a measurement outcome implies":
            # compare with the textbook conditional Gaussian state (independent numpy calculation)
            from props.c01 import reference as _ref
            mcmd = ["MeasureHomodyneSel", [d["angle"], 0.3], [t], False] if kind == "homodyne" else ["MeasureHeterodyneSel", [0.2, 0.1], [t], False]
            spec = {"n": n, "cmds": list(pre) + [["Del", [], [m], False] for m in deleted] + [mcmd]}
            mr, cr = _ref(spec)
            m1, c1 = bc.gauss_obs(st)
            if max(np.abs(m1 - mr).max(), np.abs(c1 - cr).max()) > 2e-5 * max(1.0, float(np.abs(cr).max())):
                v = "rest-not-conditional-state"
        return "measure:%s:%s:%s" % (backend.split("-")[0], kind, v) if v else None
    if kind == "fock":
        targets = d["targets"]
        if not fock:
            return None  # photon counting does not update the state on these backends (recorded under C06)
        res = _engine(backend).run(_build(n, pre, lambda q: _ops.MeasureFock() | tuple(q[m] for m in targets)))
        v = _vac_and_uncorrelated(res.state, backend, targets, n, 1e-6)
        return "measure:fock:counting:%s" % v if v else None
    # fock-twin: the outcome reported for a mode must be that mode's, and its twin must be left in that number state
    order = d["order"]

    def tail(q):
        _ops.S2gate(0.5, 0.0) | (q[0], q[3])
        _ops.Fock(1) | q[1]
        _ops.Fock(2) | q[2]
        _ops.MeasureFock() | tuple(q[m] for m in order)
    eng = _sf.Engine("fock", backend_options={"cutoff_dim": 5, "pure": backend == "fock-pure"})
    res = eng.run(_build(4, [], tail))
    sample = [int(x) for x in res.samples[0]]  # ascending mode order: modes 0, 1, 2
    if sample[1] != 1 or sample[2] != 2:
        return "measure:fock:counting:outcome-assigned-to-wrong-mode"
    twin = res.state.reduced_dm([3])
    if abs(twin[sample[0], sample[0]].real - 1.0) > 1e-6:
        return "measure:fock:counting:conditional-state-of-rest-wrong"
    return None


def post_state_case(ctx, rng, backend):
    d = gen_post_spec(rng, backend)
    return eval_post_spec(d), d


def search(ctx):
    _search_gates(ctx)
    rng = ctx.rng
    per = ctx.budget({"gaussian": 40, "bosonic": 40, "fock-pure": 10, "fock-mixed": 10},
                     {"gaussian": 400, "bosonic": 400, "fock-pure": 80, "fock-mixed": 80})
    for backend, cnt in per.items():
        for _ in range(cnt):
            try:
                sig, data = post_state_case(ctx, rng, backend)
            except Exception as e:
                ctx.counterexample("post:%s:raises:%s" % (backend, type(e).__name__), "post-state case raised %r" % e, {"check": "post-raise", "backend": backend})
                continue
            ctx.case({k: v for k, v in data.items() if k != "pre"}, nontrivial=True, bucket="post-%s-%s" % (backend, data.get("kind")))
            if sig:
                ctx.counterexample(sig, "after %s on the %s backend the documented post-state does not hold (%s)" % (data.get("kind"), backend, sig), data)


# ------------------------------------------------------------------------------------------
# hardening round (self-mutation).  Everything below evaluates the property's own predicate on the implementation:
#   sweep  — deterministic spectator sweep: every operation x special parameter values (0, T in {0, 1}, multiples of pi/2) x every
#            (ordered) target position of a 3-mode register, on every backend
#   hist   — registers that grow and shrink (New / Del) with operations in between; bosonic states with several weights
#   cond   — homodyne / heterodyne / threshold measurements, sampled or post-selected, both signs, after deletions, on Gaussian and
#            several-weight bosonic states: the WHOLE state afterwards = textbook conditional state for the reported outcome
#   prepg  — Gaussian(V, r, decomp=False) on a shuffled subset of the modes (fromscovmat / fromsmean, from_covmat / from_mean)
#   prepf  — Fock-backend preparations (incl. Thermal, DisplacedSqueezed, Ket / DensityMatrix on shuffled mode lists) against
#            closed forms computed independently: state afterwards = (reduced state of the rest before) (x) prepared state
#   mfock  — MeasureFock sampled / post-selected on shuffled mode lists: state afterwards = <x| rho |x> / p (x) vacuum
#   hfock  — Fock-backend MeasureHomodyne (any angle, outcomes of both signs): rest = <x_phi| rho |x_phi> / p with the exact
#            quadrature eigenbra in the Fock basis (Hermite functions)
import itertools as _it
import math as _math

_search_v2 = search
_HARD_TOL = 2e-5


def _mixture(state):
    """(weights, means, covs) of a Gaussian / bosonic state: xxpp order, hbar = 2, complex arrays of shape (W,), (W, 2n), (W, 2n, 2n)."""
    if hasattr(state, "weights"):
        w = np.array(state.weights(), dtype=complex)
        mus = np.array(state.means(), dtype=complex)
        Vs = np.array(state.covs(), dtype=complex)
        n = mus.shape[1] // 2
        perm = [2 * i for i in range(n)] + [2 * i + 1 for i in range(n)]
        return w, mus[:, perm], Vs[:, perm][:, :, perm]
    return np.array([1.0 + 0j]), np.array([state.means()], dtype=complex), np.array([state.cov()], dtype=complex)


def _mix_reduce(mix, modes):
    w, mus, Vs = mix
    n = mus.shape[1] // 2
    idx = list(modes) + [m + n for m in modes]
    return w, mus[:, idx], Vs[:, idx][:, :, idx]


def _mix_moments(mix):
    w, mus, Vs = mix
    mu = np.einsum("i,ij->j", w, mus)
    cov = np.einsum("i,ijk->jk", w, Vs) + np.einsum("i,ij,ik->jk", w, mus, mus) - np.outer(mu, mu)
    return mu, cov


def _wigner(mix, pts):
    w, mus, Vs = mix
    out = np.zeros(len(pts), dtype=complex)
    for wi, mu, V in zip(w, mus, Vs):
        d = pts - mu
        out = out + wi * np.exp(-0.5 * np.einsum("pi,ij,pj->p", d, np.linalg.inv(V), d)) / np.sqrt(np.linalg.det(2 * np.pi * V) + 0j)
    return out


def _mix_delta(a, b):
    """distance between two Gaussian mixtures on the same modes: first / second moments when both have one component, otherwise
    the Wigner function at fixed points around the mean (relative to its largest value there)."""
    if a[1].shape[1] != b[1].shape[1]:
        return float("inf")
    if len(a[0]) == 1 and len(b[0]) == 1:
        scale = max(1.0, float(np.abs(a[2][0]).max()))
        return float(max(np.abs(a[1][0] - b[1][0]).max(), np.abs(a[2][0] - b[2][0]).max(), abs(a[0][0] - b[0][0])) / scale)
    dim = a[1].shape[1]
    mu, cov = _mix_moments(a)
    rs = np.random.RandomState(4242 + dim)
    spread = np.sqrt(np.clip(np.real(np.diag(cov)), 0.25, 9.0))
    pts = np.real(mu) + rs.normal(size=(24, dim)) * spread * 0.8
    wa, wb = _wigner(a, pts), _wigner(b, pts)
    return float(np.abs(wa - wb).max() / max(np.abs(wa).max(), 1e-12))


def _condition(mix, k, kind, phi, outcome):
    """Textbook conditional state of the other modes for a measurement of mode k (position), k itself reset to vacuum.
    kind 'homodyne': ideal measurement of x_phi = cos(phi) x + sin(phi) p with result `outcome`;
    kind 'heterodyne': projection on the coherent state `outcome` (effect covariance 1, vector 2 (Re, Im)).
    Returns (mixture with normalised weights, unnormalised weights = prior weight x likelihood of the outcome)."""
    w, mus, Vs = mix
    n = mus.shape[1] // 2
    B = [k, k + n]
    A = [i for i in range(2 * n) if i not in B]
    w2, m2, V2 = [], [], []
    for wi, mu, V in zip(w, mus, Vs):
        VA, VAB, VB = V[np.ix_(A, A)], V[np.ix_(A, B)], V[np.ix_(B, B)]
        mA, mB = mu[A], mu[B]
        if kind == "homodyne":
            q = np.array([_math.cos(phi), _math.sin(phi)])
            var = q @ VB @ q
            gain = (VAB @ q) / var
            VA2 = VA - np.outer(gain, VAB @ q)
            mA2 = mA + gain * (outcome - q @ mB)
            lik = np.exp(-0.5 * (outcome - q @ mB) ** 2 / var) / np.sqrt(2 * np.pi * var + 0j)
        else:
            u = np.array([2 * complex(outcome).real, 2 * complex(outcome).imag])
            S = VB + np.eye(2)
            Kg = VAB @ np.linalg.inv(S)
            VA2 = VA - Kg @ VAB.T
            mA2 = mA + Kg @ (u - mB)
            lik = np.exp(-0.5 * (u - mB) @ np.linalg.inv(S) @ (u - mB)) / np.sqrt(np.linalg.det(2 * np.pi * S) + 0j)
        Vn = np.eye(2 * n, dtype=complex)
        mn = np.zeros(2 * n, dtype=complex)
        Vn[np.ix_(A, A)] = VA2
        mn[A] = mA2
        w2.append(wi * lik)
        m2.append(mn)
        V2.append(Vn)
    w2 = np.array(w2)
    return (w2 / np.sum(w2), np.array(m2), np.array(V2)), w2


def _traced_vac(mix, k):
    """mode k traced out and replaced by vacuum"""
    w, mus, Vs = mix
    n = mus.shape[1] // 2
    mus, Vs = mus.copy(), Vs.copy()
    for i in (k, k + n):
        mus[:, i] = 0
        Vs[:, i, :] = 0
        Vs[:, :, i] = 0
        Vs[:, i, i] = 1
    return w, mus, Vs


def _nongauss_prefix(rng, backend, n):
    """weak correlated prefix; on the bosonic backend sometimes with a non-Gaussian first preparation (several weights)"""
    pre = bc.weak_prefix(rng, n)
    if backend == "bosonic" and rng.random() < 0.4:
        j = rng.randrange(n)
        ng = rng.choice([["Catstate", [round(rng.uniform(0.5, 1.1), 3), round(rng.uniform(-1, 1), 3), rng.choice([0, 1, 0.5])]],
                         ["Catstate", [round(rng.uniform(0.5, 1.1), 3), 0.0, rng.choice([0, 1])]], ["Fock", [1]]])
        pre = [[ng[0], ng[1], [j], False]] + pre
    return pre


# ---- cond -----------------------------------------------------------------------------------------------------------------

def gen_cond(rng, backend, i=0):
    n = rng.randint(2, 3) if backend == "bosonic" else rng.randint(2, 4)
    if i % 7 == 6:
        n = 1   # the measured mode is the whole register
    d = {"check": "hard", "fam": "cond", "backend": backend, "n": n, "pre": _nongauss_prefix(rng, backend, n)}
    kinds = [("homodyne", False), ("heterodyne", False), ("homodyne", True), ("heterodyne", True)] + ([("threshold", False)] if backend == "bosonic" else [])
    d["kind"], want_sel = kinds[i % len(kinds)]
    d["target"] = rng.randrange(n)
    d["angle"] = rng.choice([0.0, _math.pi / 2, _math.pi, -_math.pi / 2]) if rng.random() < 0.25 else round(rng.uniform(-_math.pi, _math.pi), 3)
    d["select"] = None
    if want_sel:
        d["select"] = [round(rng.uniform(-0.8, 0.8), 3), round(rng.uniform(-0.6, 0.6), 3)]
    others = [m for m in range(n) if m != d["target"]]
    # a history with deleted modes: possibly only the measured mode survives
    d["deleted"] = sorted(rng.sample(others, rng.randint(1, len(others)))) if (others and rng.random() < 0.3) else []
    if d["kind"] == "threshold":
        # about one photon in the measured mode, so that both outcomes (click / no click) occur
        d["pre"] = d["pre"] + [["Dgate", [round(rng.uniform(0.7, 1.0), 3), round(rng.uniform(-2, 2), 3)], [d["target"]], False]]
    return d


def eval_cond(d):
    backend, n, t, kind = d["backend"], d["n"], d["target"], d["kind"]
    cm = list(d["pre"]) + [["Del", [], [m], False] for m in d.get("deleted", [])]
    sel = d.get("select")
    if kind == "homodyne":
        mcmd = ["MeasureHomodyne", [d["angle"]], [t], False] if sel is None else ["MeasureHomodyneSel", [d["angle"], sel[0]], [t], False]
    elif kind == "heterodyne":
        mcmd = ["MeasureHeterodyne", [], [t], False] if sel is None else ["MeasureHeterodyneSel", [sel[0], sel[1]], [t], False]
    else:
        mcmd = ["MeasureThreshold", [], [t], False]
    before = _mixture(_engine(backend).run(sfgen.build_program({"n": n, "cmds": cm})).state)
    res = _engine(backend).run(sfgen.build_program({"n": n, "cmds": cm + [mcmd]}))
    after = _mixture(res.state)
    outcome = complex(np.ravel(res.samples_dict[t])[0])
    live = [m for m in range(n) if m not in d.get("deleted", [])]
    k = live.index(t)
    how = "sampled" if sel is None else "selected"
    tag = "measure:%s:%s:%s:" % (backend, kind, how)
    if sel is not None and abs(outcome - (sel[0] if kind == "homodyne" else complex(sel[0], sel[1]))) > 1e-9:
        return tag + "reported-outcome-is-not-the-selected-value"
    if kind == "threshold":
        cond0, w0 = _condition(before, k, "heterodyne", 0.0, 0.0)
        p0 = 4 * np.pi * np.sum(w0)   # overlap with vacuum = (2 pi hbar) * integral W_rho W_vac
        if int(round(outcome.real)) == 0:
            expect = cond0
        else:
            tv = _traced_vac(before, k)
            expect = (np.concatenate([tv[0], -4 * np.pi * w0]) / (1 - p0), np.concatenate([tv[1], cond0[1]]), np.concatenate([tv[2], cond0[2]]))
    else:
        expect, _ = _condition(before, k, kind, d["angle"], outcome.real if kind == "homodyne" else outcome)
    # a sampled homodyne measurement is simulated as a general-dyne measurement with a finitely squeezed effect (eps = 2e-4) whose
    # unreported p outcome moves the conditional means by O(eps) * correlation: tolerance 5e-3 there, 2e-5 everywhere else
    tol = 5e-3 if (kind == "homodyne" and sel is None) else _HARD_TOL
    if _mix_delta(_mix_reduce(expect, [k]), _mix_reduce(after, [k])) > _HARD_TOL:
        return tag + "target-not-vacuum"
    if _mix_delta(expect, after) > tol:
        rest = [i for i in range(len(live)) if i != k]
        if rest and _mix_delta(_mix_reduce(expect, rest), _mix_reduce(after, rest)) > tol:
            return tag + "rest-not-conditional-state"
        return tag + "target-correlated-with-rest"
    return None


# ---- prepg ----------------------------------------------------------------------------------------------------------------

def _random_gaussian(rng, k):
    """a physical k-mode covariance (xxpp, hbar = 2) with x-p and inter-mode correlations, and a mean vector"""
    rs = np.random.RandomState(rng.randrange(2 ** 31))
    q, r = np.linalg.qr(rs.randn(k, k) + 1j * rs.randn(k, k))
    U = q * (np.diag(r) / np.abs(np.diag(r)))
    O = np.block([[U.real, -U.imag], [U.imag, U.real]])
    sq = rs.uniform(0.1, 0.5, size=k)
    nu = 1 + rs.uniform(0.0, 0.8, size=k)
    q2, r2 = np.linalg.qr(rs.randn(k, k) + 1j * rs.randn(k, k))
    U2 = q2 * (np.diag(r2) / np.abs(np.diag(r2)))
    O2 = np.block([[U2.real, -U2.imag], [U2.imag, U2.real]])
    S = O @ np.diag(np.concatenate([np.exp(-sq), np.exp(sq)])) @ O2
    V = S @ np.diag(np.concatenate([nu, nu])) @ S.T
    V = (V + V.T) / 2
    return np.round(V, 6).tolist(), np.round(rs.uniform(-0.8, 0.8, size=2 * k), 3).tolist()


def gen_prepg(rng, backend, i=0):
    n = rng.randint(2, 3) if backend == "bosonic" else rng.randint(2, 4)
    k = rng.randint(1, n)
    V, r = _random_gaussian(rng, k)
    return {"check": "hard", "fam": "prepg", "backend": backend, "n": n, "pre": _nongauss_prefix(rng, backend, n),
            "modes": rng.sample(range(n), k), "V": V, "r": r}


def eval_prepg(d):
    backend, n, modes = d["backend"], d["n"], d["modes"]
    before = _mixture(_engine(backend).run(sfgen.build_program({"n": n, "cmds": d["pre"]})).state)
    cmd = ["GaussianNoDecomp", [d["V"], d["r"]], modes, False]
    after = _mixture(_engine(backend).run(sfgen.build_program({"n": n, "cmds": list(d["pre"]) + [cmd]})).state)
    k = len(modes)
    idx = list(modes) + [m + n for m in modes]
    w, mus, Vs = (x.copy() for x in before)
    mus[:, idx] = np.array(d["r"])
    Vs[:, idx, :] = 0
    Vs[:, :, idx] = 0
    for c in range(len(w)):
        Vs[c][np.ix_(idx, idx)] = np.array(d["V"])
    expect = (w, mus, Vs)
    tag = "prep:%s:gaussian-state:" % backend
    rest = [m for m in range(n) if m not in modes]
    # targets listed in ascending order for the reduced comparison (the expected state already places each listed mode)
    if _mix_delta(_mix_reduce(expect, sorted(modes)), _mix_reduce(after, sorted(modes))) > 1e-7:
        return tag + "target-not-prepared-state"
    if rest and _mix_delta(_mix_reduce(expect, rest), _mix_reduce(after, rest)) > 1e-7:
        return tag + "rest-changed"
    if _mix_delta(expect, after) > 1e-7:
        return tag + "target-correlated-with-rest"
    return None


# ---- Fock-backend helpers -------------------------------------------------------------------------------------------------

def _fock_prefix(rng, n):
    """entangled, displaced state with very little energy (cutoff 6-7 loses ~1e-7 of the trace)"""
    cmds = []
    for i in range(n):
        cmds.append(["Sgate", [round(rng.uniform(0.08, 0.2), 3) * rng.choice([1, -1]), round(rng.uniform(-1, 1), 3)], [i], False])
        cmds.append(["Dgate", [round(rng.uniform(0.1, 0.25), 3), round(rng.uniform(-2, 2), 3)], [i], False])
    for i in range(n - 1):
        cmds.append(["BSgate", [round(rng.uniform(0.4, 1.1), 3), round(rng.uniform(-1, 1), 3)], [i, i + 1], False])
    if n > 2:
        cmds.append(["BSgate", [round(rng.uniform(0.4, 1.1), 3), round(rng.uniform(-1, 1), 3)], [n - 1, 0], False])
    return cmds


def _dm_reduce(dm, keep):
    """reduced density tensor on the modes `keep` (ascending), axes (i, j) per mode; numpy traces only"""
    n = dm.ndim // 2
    for m in sorted(set(range(n)) - set(keep), reverse=True):
        dm = np.trace(dm, axis1=2 * m, axis2=2 * m + 1)
    return dm


def _dm_place(rest_dm, rest, tg_dm, tg, n):
    """(state of `rest`) (x) (state of `tg`, its subsystems in the listed order) as a 2n-axis tensor"""
    outer = np.multiply.outer(rest_dm, tg_dm) if rest else tg_dm
    dest = [x for m in list(rest) + list(tg) for x in (2 * m, 2 * m + 1)]
    return np.moveaxis(outer, list(range(2 * n)), dest)


def _ref_prepared(name, p, cutoff, big=40):
    """density matrix of the documented prepared state, computed independently of fockbackend/ops.py"""
    from scipy.linalg import expm
    a = np.diag(np.sqrt(np.arange(1, big)), 1).astype(complex)
    ad = a.conj().T
    vac = np.zeros(big, dtype=complex)
    vac[0] = 1

    def D(al):
        return expm(al * ad - np.conj(al) * a)

    def S(z):
        return expm(0.5 * (np.conj(z) * a @ a - z * ad @ ad))
    if name == "Thermal":
        nb = p[0]
        return np.diag([nb ** j / (nb + 1) ** (j + 1) for j in range(cutoff)]).astype(complex)
    if name == "Vacuum":
        psi = vac
    elif name == "Coherent":
        psi = D(p[0] * np.exp(1j * p[1])) @ vac
    elif name == "Squeezed":
        psi = S(p[0] * np.exp(1j * p[1])) @ vac
    elif name == "DisplacedSqueezed":
        psi = D(p[0] * np.exp(1j * p[1])) @ S(p[2] * np.exp(1j * p[3])) @ vac
    elif name == "Fock":
        psi = np.zeros(big, dtype=complex)
        psi[p[0]] = 1
    else:
        raise KeyError(name)
    psi = psi[:cutoff]
    return np.outer(psi, psi.conj())


def _fock_states(backend, n, cutoff, cmds, tail):
    """(dm before, Result after) for `cmds` and `cmds + tail` (tail: callable(q))"""
    before = _engine(backend, cutoff).run(_build(n, cmds, lambda q: None)).state
    res = _engine(backend, cutoff).run(_build(n, cmds, tail))
    return before, res


# ---- prepf ----------------------------------------------------------------------------------------------------------------

def gen_prepf(rng, backend, i=0):
    n = rng.randint(2, 3)
    d = {"check": "hard", "fam": "prepf", "backend": backend, "n": n, "cutoff": 6, "pre": _fock_prefix(rng, n)}
    names = ["Coherent", "Thermal", "DisplacedSqueezed", "Ket", "Squeezed", "DensityMatrix", "Fock", "Vacuum"]
    name = names[i % len(names)]
    d["prep"] = name
    ang = lambda: round(rng.uniform(-_math.pi, _math.pi), 3)
    if name in ("Ket", "DensityMatrix"):
        k = rng.randint(1, n)
        d["modes"] = rng.sample(range(n), k)
        d["seed"] = rng.randrange(2 ** 31)
        return d
    d["modes"] = [rng.randrange(n)]
    d["params"] = {"Vacuum": [], "Coherent": [round(rng.uniform(0.1, 0.4), 3), ang()], "Squeezed": [round(rng.uniform(-0.3, 0.3), 3), ang()],
                   "DisplacedSqueezed": [round(rng.uniform(0.1, 0.3), 3), ang(), round(rng.uniform(-0.25, 0.25), 3), ang()],
                   "Thermal": [round(rng.uniform(0.05, 0.3), 3)], "Fock": [rng.randrange(0, 3)]}[name]
    return d


def _random_multimode(seed, k, cutoff, mixed):
    """an entangled k-mode ket (or a rank-2 density matrix) with complex amplitudes decaying with the photon number"""
    rs = np.random.RandomState(seed)

    def ket():
        psi = rs.randn(*([cutoff] * k)) + 1j * rs.randn(*([cutoff] * k))
        for ax in range(k):
            sh = [1] * k
            sh[ax] = cutoff
            psi = psi * (0.45 ** np.arange(cutoff)).reshape(sh)
        return psi / np.linalg.norm(psi)
    if not mixed:
        psi = ket()
        return psi, fa._ref_mix(psi, k)
    a, b = ket(), ket()
    rho = 0.7 * fa._ref_mix(a, k) + 0.3 * fa._ref_mix(b, k)
    return rho, rho


def eval_prepf(d):
    backend, n, cutoff, modes, name = d["backend"], d["n"], d["cutoff"], d["modes"], d["prep"]
    if name in ("Ket", "DensityMatrix"):
        arg, ref = _random_multimode(d["seed"], len(modes), cutoff, name == "DensityMatrix")
        op = getattr(_ops, name)(arg)
    else:
        ref = _ref_prepared(name, d["params"], cutoff)
        op = sfgen.make_op(name, d["params"])
    before, res = _fock_states(backend, n, cutoff, d["pre"], lambda q: op | tuple(q[m] for m in modes))
    rest = [m for m in range(n) if m not in modes]
    after = res.state.dm()
    expect = _dm_place(_dm_reduce(before.dm(), rest), rest, ref, modes, n)
    tol = 1e-6 + bc.fock_tol(before)[0]
    tag = "prep:fock:%s:" % name
    # (the prepared state inherits the trace of the truncated prior state)
    if np.abs(_dm_reduce(after, sorted(modes)) - _dm_reduce(expect, sorted(modes))).max() > 1e-7 + 2 * abs(1 - bc.fock_tol(before)[1]):
        return tag + "target-not-prepared-state"
    if rest and np.abs(_dm_reduce(after, rest) - _dm_reduce(expect, rest)).max() > tol:
        return tag + "rest-changed"
    if np.abs(after - expect).max() > tol:
        return tag + "target-correlated-with-rest"
    return None


# ---- mfock ----------------------------------------------------------------------------------------------------------------

def gen_mfock(rng, backend, i=0):
    n = 3
    if i % 4 < 2:
        # number states through an interferometer (exact below the cutoff; a preparation makes the representation mixed)
        nums = rng.sample([0, 1, 2], 3)
        pre = [["Fock", [nums[j]], [j], False] for j in range(n)]
    else:
        # gates only: a pure representation stays pure, about one photon per mode so that non-zero outcomes occur
        pre = [["Dgate", [round(rng.uniform(0.6, 1.0), 3), round(rng.uniform(-2, 2), 3)], [j], False] for j in range(n)]
    for _ in range(rng.randint(1, 3)):
        a, b = rng.sample(range(n), 2)
        pre.append(["BSgate", [round(rng.uniform(0.3, 1.2), 3), round(rng.uniform(-1, 1), 3)], [a, b], False])
        pre.append(["Rgate", [round(rng.uniform(-2, 2), 3)], [rng.randrange(n)], False])
    order = rng.sample(range(n), rng.randint(1, n))
    return {"check": "hard", "fam": "mfock", "backend": backend, "n": n, "cutoff": 5, "pre": pre, "modes": order,
            "select": i % 2 == 0, "pick": rng.random()}


def eval_mfock(d):
    backend, n, cutoff, modes = d["backend"], d["n"], d["cutoff"], d["modes"]
    before = _engine(backend, cutoff).run(_build(n, d["pre"], lambda q: None)).state
    rho = before.dm()
    sel = None
    if d["select"]:
        # a post-selected pattern with appreciable probability, preferably with different values on different modes
        probs = np.real(np.einsum("".join("%s%s" % (chr(97 + i), chr(97 + i)) for i in range(n)) + "->" + "".join(chr(97 + i) for i in range(n)),
                                  rho))
        cands = []
        asc = sorted(modes)
        pm = probs.sum(axis=tuple(m for m in range(n) if m not in modes)) if len(modes) < n else probs
        floor = max(0.3 * float(pm.max()), 1e-9)
        for idx in _it.product(range(cutoff), repeat=len(modes)):
            p = pm[idx]
            if p >= min(0.03, floor):
                cands.append((len(set(idx)), idx, p))
        cands.sort(key=lambda c: (-c[0], c[1]))
        best = [c for c in cands if c[0] == cands[0][0]]
        idx = best[int(d["pick"] * len(best)) % len(best)][1]
        byasc = dict(zip(asc, idx))
        sel = [int(byasc[m]) for m in modes]
    res = _engine(backend, cutoff).run(_build(n, d["pre"], lambda q: _ops.MeasureFock(select=sel) | tuple(q[m] for m in modes)))
    out = {m: int(np.ravel(res.samples_dict[m])[0]) for m in modes}
    tag = "measure:fock:counting:%s:" % ("selected" if sel is not None else "sampled")
    if sel is not None and [out[m] for m in modes] != sel:
        return tag + "reported-outcome-is-not-the-selected-value"
    # <x| rho |x> on the measured modes
    sl = tuple(out[m // 2] if (m // 2) in out else slice(None) for m in range(2 * n))
    cond = rho[sl]
    rest = [m for m in range(n) if m not in modes]
    p = np.real(np.einsum("".join(chr(97 + i) * 2 for i in range(len(rest))), cond)) if rest else float(np.real(cond))
    if p < 1e-9:
        return tag + "outcome-has-zero-probability"
    vac = np.zeros([cutoff, cutoff] * len(modes), dtype=complex)
    vac[(0,) * (2 * len(modes))] = 1
    expect = _dm_place(cond / p, rest, vac, sorted(modes), n)
    after = res.state.dm()
    if np.abs(_dm_reduce(after, sorted(modes)) - vac).max() > 1e-7:
        return tag + "target-not-vacuum"
    if np.abs(after - expect).max() > 1e-7:
        return tag + "rest-not-conditional-state"
    return None


# ---- hfock ----------------------------------------------------------------------------------------------------------------

def _x_bra(x, phi, cutoff, hbar=2.0):
    """<x_phi | n> for n < cutoff: e^{-i n phi} psi_n(x), psi_n the harmonic-oscillator eigenfunctions at this hbar"""
    from numpy.polynomial.hermite import hermval
    v = np.zeros(cutoff, dtype=complex)
    for k in range(cutoff):
        c = np.zeros(k + 1)
        c[k] = 1
        v[k] = ((1 / (np.pi * hbar)) ** 0.25 / _math.sqrt(2.0 ** k * _math.factorial(k)) * hermval(x / _math.sqrt(hbar), c)
                * _math.exp(-x * x / (2 * hbar)) * np.exp(-1j * k * phi))
    return v


def gen_hfock(rng, backend, i=0):
    n = rng.randint(2, 3) if i % 6 != 5 else 1
    d = {"check": "hard", "fam": "hfock", "backend": backend, "n": n, "cutoff": 8 if n == 2 else 7, "pre": _fock_prefix(rng, n), "target": rng.randrange(n)}
    d["angle"] = rng.choice([0.0, _math.pi / 2, -_math.pi / 2]) if rng.random() < 0.25 else round(rng.uniform(-_math.pi, _math.pi), 3)
    d["select"] = round((1 if i % 2 else -1) * rng.uniform(0.2, 0.9), 3) if i % 3 != 2 else None
    return d


def eval_hfock(d):
    backend, n, cutoff, t = d["backend"], d["n"], d["cutoff"], d["target"]
    before, res = _fock_states(backend, n, cutoff, d["pre"], lambda q: _ops.MeasureHomodyne(d["angle"], select=d["select"]) | q[t])
    x = float(np.real(np.ravel(res.samples_dict[t])[0]))
    tag = "measure:fock:homodyne:%s:" % ("selected" if d["select"] is not None else "sampled")
    if d["select"] is not None and abs(x - d["select"]) > 1e-9:
        return tag + "reported-outcome-is-not-the-selected-value"
    rho = before.dm()
    b = _x_bra(x, d["angle"], cutoff)
    rest = [m for m in range(n) if m != t]
    cond = np.tensordot(np.tensordot(b, rho, axes=([0], [2 * t])), b.conj(), axes=([2 * t], [0]))   # axes of the rest, in order
    p = np.real(np.einsum("".join(chr(97 + i) * 2 for i in range(len(rest))), cond))
    vac = np.zeros((cutoff, cutoff), dtype=complex)
    vac[0, 0] = 1
    expect = _dm_place(cond / p, rest, vac, [t], n)
    after = res.state.dm()
    if np.abs(_dm_reduce(after, [t]) - vac).max() > 1e-6:
        return tag + "target-not-vacuum"
    # the truncated quadrature eigenstate is accurate only for moderate outcomes (error 6e-4 at |x| = 1.5, 1e-2 at 2.5 for cutoff 7-8)
    if abs(x) <= 1.5 and np.abs(after - expect).max() > 3e-3:
        return tag + "rest-not-conditional-state"
    return None


# ---- sweep ----------------------------------------------------------------------------------------------------------------

SPECIAL = {"a": [0.0, _math.pi / 2, _math.pi, -_math.pi / 2, 0.7], "t": [0.0, 1.0, 0.5, 0.37], "n": [0.0, 0.25], "d": [0.0, 0.3, 0.2], "r": [0.0, 0.25, -0.25],
           "k": [0, 1, 2]}


def sweep_cases(rng, backend, n, full):
    fock = backend.startswith("fock")
    names = list(FOCK_NAMES) + ["Thermal"] if fock else list(GAUSS_NAMES)
    out = []
    for oi, name in enumerate(names):
        nm, kinds = sfgen.ALL[name]
        nt = max([len(SPECIAL[k]) for k in kinds] + [1])
        tuples = [[SPECIAL[k][j % len(SPECIAL[k])] for k in kinds] for j in range(nt)]
        positions = list(_it.permutations(range(n), nm))
        off = rng.randrange(nt)
        if fock and not full and nm == 2:
            # quick tier: four of the six ordered pairs (rotating with the seed), always with descending pairs and pairs ending in mode 0
            start = rng.randrange(len(positions))
            positions = [positions[(start + i) % len(positions)] for i in range(4)]
        for pi, pos in enumerate(positions):
            js = range(nt) if (full or "t" in kinds) else [(pi + oi + off) % nt]
            for j in js:
                dag = (name in sfgen.GAUSSIAN_GATES or name in sfgen.NONGAUSS) and (pi + j) % 4 == 3
                out.append([name, tuples[j], list(pos), bool(dag)])
    return out


def _spect_delta(backend, before, after, pos_before, pos_after):
    """(delta, tolerance) between the reduced state on `pos_before` of `before` and on `pos_after` of `after`"""
    if backend.startswith("fock"):
        # truncation: an operation that pushes population beyond the cutoff removes a positive part of trace `deficit` from the reduced
        # state, so entries move by at most the deficit (observed: <= 0.9 x deficit); a tolerance growing like sqrt(deficit) would hide
        # operations that destroy a large part of the trace, hence linear and capped
        deficit = max(0.0, 1 - bc.fock_tol(after)[1], 1 - bc.fock_tol(before)[1])
        tol = 1e-6 + 3 * min(deficit, 5e-3)
        r0, r1 = _dm_reduce(before.dm(), pos_before), _dm_reduce(after.dm(), pos_after)
        if r0.shape != r1.shape:
            return float("inf"), tol
        return float(np.abs(r0 - r1).max()), tol
    return _mix_delta(_mix_reduce(_mixture(before), pos_before), _mix_reduce(_mixture(after), pos_after)), 1e-8


def run_sweep(ctx, backend, full):
    rng = ctx.rng
    n, cutoff = 3, (5 if (backend == "fock-mixed" and not full) else 6)
    fock = backend.startswith("fock")
    pre = _fock_prefix(rng, n) if fock else _nongauss_prefix(rng, backend, n)
    if backend == "fock-mixed":
        pre = pre + [["LossChannel", [0.85], [rng.randrange(n)], False]]
    before = bc.run({"n": n, "cmds": pre}, backend, cutoff)
    cases = sweep_cases(rng, backend, n, full)
    if backend == "gaussian":   # multi-mode passive transformations on 1-3 modes in any order (apply_u)
        cases += [sfgen.random_cmd(rng, n, ["PassiveChannel"]) for _ in range(8 if not full else 40)]
    if backend == "bosonic":    # measurement-based squeezing, average map (expandXY + apply_channel between two phase shifts)
        cases += [["MSgate", [r, phi, 1.2, eta, True], [pos], False] for pos in range(n) for (r, phi, eta) in ((0.3, 0.4, 0.95), (-0.2, 0.0, 1.0))]
    for cmd in cases:
        data = {"check": "hard", "fam": "sweep", "backend": backend, "n": n, "cutoff": cutoff, "pre": pre, "cmd": cmd}
        nontriv = min(cmd[2]) > 0 or cmd[2] != sorted(cmd[2])
        ctx.case({"backend": backend, "cmd": cmd}, nontrivial=nontriv, bucket="sweep-%s-%s" % (backend, cmd[0]))
        try:
            sig = eval_sweep(data, before)
        except Exception as e:
            ctx.counterexample("spectators:%s:%s:raises:%s" % (backend, cmd[0], type(e).__name__), "running %s on %s raised %r" % (cmd, backend, e), data)
            continue
        if sig and sig.startswith("prep:"):
            ctx.counterexample(sig, "after %s on mode %s of a 3-mode register (%s backend) the state is not (reduced state of the rest) x (documented prepared state): %s" % (
                cmd[0], cmd[2], backend, sig.split(":")[-1]), data)
        elif sig:
            ctx.counterexample(sig, "%s%s on modes %s of a 3-mode register changes the reduced state of the other modes on the %s backend" % (
                cmd[0], ".H" if cmd[3] else "", cmd[2], backend), data)


def run_wide(ctx, backend, count):
    """registers of 5-6 modes: targets and spectators at high positions (Fock backends: cutoff 3 with photon-number
    conserving operations on a two-photon state, so that nothing is truncated)"""
    rng = ctx.rng
    fock = backend.startswith("fock")
    if fock:
        n, cutoff = 5, 3
        ones = rng.sample(range(n), 2)
        pre = [["Fock", [1], [m], False] for m in ones]
        for i in range(n):
            pre.append(["BSgate", [round(rng.uniform(0.4, 1.1), 3), round(rng.uniform(-1, 1), 3)], [i, (i + 1) % n], False])
        if backend == "fock-mixed":
            pre.append(["LossChannel", [0.8], [rng.randrange(n)], False])
        names = ["BSgate", "MZgate", "Rgate", "Kgate", "CKgate", "Fock", "Vacuum", "LossChannel", "Fouriergate"]
    else:
        n, cutoff = 6, 3
        pre = bc.weak_prefix(rng, n)
        names = list(GAUSS_NAMES) + (["PassiveChannel"] if backend == "gaussian" else [])
    before = bc.run({"n": n, "cmds": pre}, backend, cutoff)
    for _ in range(count):
        cmd = bc.weak_cmd(rng, n, names)
        if cmd[0] == "Fock":
            cmd[1] = [rng.randrange(0, 2)]
        data = {"check": "hard", "fam": "sweep", "backend": backend, "n": n, "cutoff": cutoff, "pre": pre, "cmd": cmd}
        ctx.case({"backend": backend, "n": n, "cmd": cmd}, nontrivial=True, bucket="wide-%s-%s" % (backend, cmd[0]))
        try:
            sig = eval_sweep(data, before)
        except Exception as e:
            ctx.counterexample("spectators:%s:%s:raises:%s" % (backend, cmd[0], type(e).__name__), "running %s on %s raised %r" % (cmd, backend, e), data)
            continue
        if sig:
            ctx.counterexample(sig, "%s on modes %s of a %d-mode register changes the reduced state of the other modes on the %s backend" % (
                cmd[0], cmd[2], n, backend), data)


def _ref_gaussian_prep(name, p):
    """(mean, cov) of the documented single-mode prepared state, (x, p) order, hbar = 2"""
    def sq(r, phi):
        ch, sh = _math.cosh(r), _math.sinh(r)
        S = np.array([[ch - sh * _math.cos(phi), -sh * _math.sin(phi)], [-sh * _math.sin(phi), ch + sh * _math.cos(phi)]])
        return S @ S.T
    if name == "Vacuum":
        return np.zeros(2), np.eye(2)
    if name == "Coherent":
        return 2 * p[0] * np.array([_math.cos(p[1]), _math.sin(p[1])]), np.eye(2)
    if name == "Squeezed":
        return np.zeros(2), sq(p[0], p[1])
    if name == "DisplacedSqueezed":
        return 2 * p[0] * np.array([_math.cos(p[1]), _math.sin(p[1])]), sq(p[2], p[3])
    if name == "Thermal":
        return np.zeros(2), (2 * p[0] + 1) * np.eye(2)
    raise KeyError(name)


def _prep_violation(backend, before, after, cmd, n, cutoff):
    """after a single-mode preparation: whole state = (reduced state of the rest before) x (documented prepared state)"""
    name, params, (t,) = cmd[0], cmd[1], cmd[2]
    rest = [m for m in range(n) if m != t]
    if backend.startswith("fock"):
        expect = _dm_place(_dm_reduce(before.dm(), rest), rest, _ref_prepared(name, params, cutoff), [t], n)
        got = after.dm()
        deficit = max(0.0, 1 - bc.fock_tol(before)[1])
        if np.abs(_dm_reduce(got, [t]) - _dm_reduce(expect, [t])).max() > 1e-7 + 2 * deficit:
            return "target-not-prepared-state"
        if np.abs(got - expect).max() > 1e-6 + 3 * min(deficit, 5e-3):
            return "target-correlated-with-rest"
        return None
    w, mus, Vs = (x.copy() for x in _mixture(before))
    mr, Vr = _ref_gaussian_prep(name, params)
    idx = [t, t + n]
    mus[:, idx] = mr
    Vs[:, idx, :] = 0
    Vs[:, :, idx] = 0
    for c in range(len(w)):
        Vs[c][np.ix_(idx, idx)] = Vr
    got = _mixture(after)
    if _mix_delta(_mix_reduce((w, mus, Vs), [t]), _mix_reduce(got, [t])) > 1e-8:
        return "target-not-prepared-state"
    if _mix_delta((w, mus, Vs), got) > 1e-8:
        return "target-correlated-with-rest"
    return None


def eval_sweep(d, before=None):
    backend, n, cutoff, pre, cmd = d["backend"], d["n"], d["cutoff"], d["pre"], d["cmd"]
    if before is None:
        before = bc.run({"n": n, "cmds": pre}, backend, cutoff)
    after = bc.run({"n": n, "cmds": list(pre) + [cmd]}, backend, cutoff)
    spect = [m for m in range(n) if m not in cmd[2]]
    if not spect:
        return None
    delta, tol = _spect_delta(backend, before, after, spect, spect)
    if delta > tol:
        return "spectators:%s:%s" % (backend.split("-")[0], cmd[0])
    if cmd[0] in sfgen.PREPS or cmd[0] == "Fock":
        v = _prep_violation(backend, before, after, cmd, n, cutoff)
        if v:
            return "prep:%s:%s:%s" % (backend.split("-")[0], cmd[0], v)
    return None


# ---- hist -----------------------------------------------------------------------------------------------------------------

def gen_hist(rng, backend, i=0):
    fock = backend.startswith("fock")
    names = [x for x in (FOCK_NAMES if fock else GAUSS_NAMES)]
    n0 = rng.randint(1, 2) if fock else rng.randint(1, 3)
    spec = sfgen.random_history_spec(rng, names, n0=n0, ncmds=rng.randint(3, 5) if fock else rng.randint(3, 7), max_total=3 if fock else 4,
                                     p_new=0.3, p_del=0.25, cmd_fn=lambda r, k, av: bc.weak_cmd(r, k, av))
    pre = _fock_prefix(rng, n0) if fock else _nongauss_prefix(rng, backend, n0)
    return {"check": "hard", "fam": "hist", "backend": backend, "n": n0, "cutoff": 6, "pre": pre, "steps": spec["cmds"]}


def eval_hist(d):
    backend, n0, cutoff, pre, steps = d["backend"], d["n"], d["cutoff"], d["pre"], d["steps"]
    fock = backend.startswith("fock")
    live = list(range(n0))
    state = bc.run({"n": n0, "cmds": pre}, backend, cutoff)
    for i, cmd in enumerate(steps):
        nxt = bc.run({"n": n0, "cmds": list(pre) + list(steps[:i + 1])}, backend, cutoff)
        name, targets = cmd[0], cmd[2]
        live2 = live + [targets[0]] if name == "New" else [m for m in live if not (name == "Del" and m == targets[0])]
        spect = [m for m in live if m not in targets]
        tag = "history:%s:step-%s:" % (backend.split("-")[0], name)
        nmodes = (nxt.dm().ndim // 2) if fock else (_mixture(nxt)[1].shape[1] // 2)
        if nmodes != len(live2):
            return tag + "wrong-number-of-modes"
        if spect:
            delta, tol = _spect_delta(backend, state, nxt, [live.index(m) for m in spect], [live2.index(m) for m in spect])
            if delta > tol:
                return tag + "rest-changed"
        if name == "New":
            k = live2.index(targets[0])
            if fock:
                vac = np.zeros([cutoff, cutoff], dtype=complex)
                vac[0, 0] = 1
                if np.abs(nxt.dm() - np.multiply.outer(state.dm(), vac)).max() > 1e-9:
                    return tag + "new-mode-not-vacuum-or-correlated"
            else:
                w, mus, Vs = _mixture(state)
                nl = len(live)
                e_m = np.zeros((len(w), 2 * nl + 2), dtype=complex)
                e_V = np.zeros((len(w), 2 * nl + 2, 2 * nl + 2), dtype=complex)
                ix = list(range(nl)) + [nl + 1 + j for j in range(nl)]
                e_m[:, ix] = mus
                for c in range(len(w)):
                    e_V[c] = np.eye(2 * nl + 2)
                    e_V[c][np.ix_(ix, ix)] = Vs[c]
                if _mix_delta((w, e_m, e_V), _mixture(nxt)) > 1e-8:
                    return tag + "new-mode-not-vacuum-or-correlated"
        live, state = live2, nxt
    return None


# ---- bmodes (BosonicModes driven directly: registers that grow / shrink while the state has several weights) ----------------

def _bm_mixture(seed, n, W):
    rs = np.random.RandomState(seed)
    import random as _random
    r2 = _random.Random(seed)
    means, covs = [], []
    for _ in range(W):
        V, r = _random_gaussian(r2, n)
        means.append(r)
        covs.append(V)
    w = rs.uniform(0.2, 1.0, size=W)
    if W >= 2 and seed % 3 == 0:
        w[-1] = -0.25 * w[0]          # linear combinations with a negative weight occur for cat / Fock states
    return (w / w.sum()).astype(complex), np.array(means, dtype=complex), np.array(covs, dtype=complex)


def gen_bmodes(rng, backend, i=0):
    n = rng.randint(1, 3)
    d = {"check": "hard", "fam": "bmodes", "backend": "bosonic", "n": n, "W": [1, 2, 3, 4][i % 4], "seed": rng.randrange(2 ** 31)}
    live, total, steps = list(range(n)), n, []
    for _ in range(rng.randint(3, 6)):
        r = rng.random()
        if r < 0.3 and total < 4:
            peaks = rng.choice([[1], [1], [2], [1, 1]]) if total < 3 else [1]
            steps.append(["add", peaks])
            live += list(range(total, total + len(peaks)))
            total += len(peaks)
        elif r < 0.5 and len(live) > 1:
            m = rng.choice(live)
            live.remove(m)
            steps.append(["del", m])
        else:
            meth = rng.choice([m for m in bm.METHODS if m != "beamsplitter" or len(live) >= 2])
            tg = rng.sample(live, 2 if meth == "beamsplitter" else 1)
            # the newest mode is a target more often than not: stale permutation lists show there
            if rng.random() < 0.5 and live[-1] not in tg:
                tg[0] = live[-1]
            steps.append(["op", meth, [bm.draw(rng, k) for _, k in bm.PARAMS[meth]], tg])
    d["steps"] = steps
    return d


def eval_bmodes(d):
    from strawberryfields.backends.bosonicbackend.bosoniccircuit import BosonicModes
    n = d["n"]
    w, mus, Vs = _bm_mixture(d["seed"], n, d["W"])
    c = BosonicModes(n, 1)
    inter = [x for m in range(n) for x in (m, m + n)]          # xxpp -> xpxp
    c.weights, c.means, c.covs = w.copy(), mus[:, inter].copy(), Vs[:, inter][:, :, inter].copy()

    def snap():
        k = c.means.shape[1] // 2
        perm = [2 * j for j in range(k)] + [2 * j + 1 for j in range(k)]
        return np.array(c.weights, dtype=complex), np.array(c.means, dtype=complex)[:, perm], np.array(c.covs, dtype=complex)[:, perm][:, :, perm]
    for st in d["steps"]:
        before = snap()
        nb = before[1].shape[1] // 2
        tag = "bosonicmodes:%s:" % (st[0] if st[0] != "op" else st[1])
        if st[0] == "add":
            c.add_mode(list(st[1]))
            after = snap()
            k = len(st[1])
            if after[1].shape[1] // 2 != nb + k or c.nlen != nb + k:
                return tag + "wrong-number-of-modes"
            if _mix_delta(before, _mix_reduce(after, list(range(nb)))) > 1e-8:
                return tag + "rest-changed"
            ww, mm, VV = before
            e_m = np.zeros((len(ww), 2 * (nb + k)), dtype=complex)
            e_V = np.zeros((len(ww), 2 * (nb + k), 2 * (nb + k)), dtype=complex)
            ix = list(range(nb)) + [nb + k + j for j in range(nb)]
            e_m[:, ix] = mm
            for j in range(len(ww)):
                e_V[j] = np.eye(2 * (nb + k))
                e_V[j][np.ix_(ix, ix)] = VV[j]
            if len(after[0]) == 1 and len(ww) == 1:
                bad = _mix_delta((ww, e_m, e_V), after) > 1e-8
            else:   # force the Wigner comparison (the number of components may have grown)
                bad = _mix_delta((np.concatenate([ww, [0]]), np.concatenate([e_m, e_m[:1]]), np.concatenate([e_V, e_V[:1]])), after) > 1e-8
            if bad:
                return tag + "new-mode-not-vacuum-or-correlated"
            continue
        if st[0] == "del":
            c.del_mode(int(st[1]))
            after = snap()
            others = [m for m in range(nb) if m != st[1]]
            if c.active[st[1]] is not None:
                return tag + "mode-still-active"
            if _mix_delta(_mix_reduce(before, others), _mix_reduce(after, others)) > 1e-8:
                return tag + "rest-changed"
            if _mix_delta(_traced_vac(before, st[1]), after) > 1e-8:
                return tag + "deleted-mode-not-reset"
            continue
        _, meth, args, tg = st
        getattr(c, meth)(*(list(args) + list(tg)))
        after = snap()
        others = [m for m in range(nb) if m not in tg]
        if after[1].shape != before[1].shape:
            return tag + "wrong-number-of-modes"
        if others and _mix_delta(_mix_reduce(before, others), _mix_reduce(after, others)) > 1e-8:
            return tag + "spectators-changed"
    return None


# ---- msgate (single-shot measurement-based squeezing: the ancilla is added to / deleted from a several-weight state mid-circuit) ----

def gen_msgate(rng, backend, i=0):
    n = rng.randint(1, 3)
    return {"check": "hard", "fam": "msgate", "backend": "bosonic", "n": n, "pre": _nongauss_prefix(rng, "bosonic", n), "target": rng.randrange(n),
            "r": round(rng.choice([-1, 1]) * rng.uniform(0.1, 0.5), 3), "phi": round(rng.uniform(-_math.pi, _math.pi), 3),
            "r_anc": round(rng.uniform(0.6, 1.4), 3), "eta": rng.choice([1.0, 0.95, round(rng.uniform(0.8, 1.0), 3)])}


def eval_msgate(d):
    """MSgate(avg=False) on mode k must equal the documented circuit written out with an explicit ancilla mode and the reported
    ancilla outcome: rotate, squeezed ancilla, beam splitter, loss, homodyne on the ancilla, feed-forward displacement, rotate."""
    n, k, pre = d["n"], d["target"], d["pre"]
    r, phi, r_anc, eta = d["r"], d["phi"], d["r_anc"], d["eta"]
    res = _engine("bosonic").run(_build(n, pre, lambda q: _ops.MSgate(r, phi, r_anc, eta, avg=False) | q[k]))
    val = float(np.real(np.ravel(res.ancillae_samples[k])[0]))
    got = _mixture(res.state)
    if got[1].shape[1] != 2 * n:
        return "msgate:bosonic:single-shot:wrong-number-of-modes"
    if r < 0:
        phi, r = phi + np.pi, abs(r)
    theta = _math.acos(_math.exp(-r))
    ff = -_math.tan(theta) / _math.sqrt(2 * 2 * eta) * val

    def tail(q):
        _ops.Rgate(-phi / 2) | q[k]
        _ops.Sgate(r_anc, 0) | q[n]
        _ops.BSgate(theta, 0) | (q[k], q[n])
        _ops.LossChannel(eta) | q[n]
        _ops.Rgate(np.pi / 2) | q[n]
        _ops.MeasureHomodyne(0, select=val) | q[n]
        _ops.Dgate(abs(ff), np.pi / 2 if ff >= 0 else -np.pi / 2) | q[k]
        _ops.Rgate(phi / 2) | q[k]
    ref = _mixture(_engine("bosonic").run(_build(n + 1, pre, tail)).state)
    ref = _mix_reduce(ref, list(range(n)))
    if _mix_delta(ref, got) > 5e-3:
        others = [m for m in range(n) if m != k]
        if others and _mix_delta(_mix_reduce(ref, others), _mix_reduce(got, others)) > 5e-3:
            return "msgate:bosonic:single-shot:rest-not-conditional-state"
        if others and _mix_delta(_mix_reduce(ref, [k]), _mix_reduce(got, [k])) <= 5e-3:
            return "msgate:bosonic:single-shot:correlations-with-rest"
        # only the target's own state differs: not this property's clause (C01 compares the action on the target)
    return None


# ---- driver ---------------------------------------------------------------------------------------------------------------

HARD = {"cond": (gen_cond, eval_cond), "prepg": (gen_prepg, eval_prepg), "prepf": (gen_prepf, eval_prepf), "mfock": (gen_mfock, eval_mfock),
        "hfock": (gen_hfock, eval_hfock), "hist": (gen_hist, eval_hist), "bmodes": (gen_bmodes, eval_bmodes), "msgate": (gen_msgate, eval_msgate)}


def search_hard(ctx):
    rng = ctx.rng
    for backend in ("gaussian", "bosonic", "fock-pure", "fock-mixed"):
        run_sweep(ctx, backend, full=not ctx.quick)
        # (5-mode Fock registers cost ~10 s of numba compilation for the new array ranks: thorough tier only)
        run_wide(ctx, backend, ctx.budget(12 if backend in ("gaussian", "bosonic") else 0, 120 if backend in ("gaussian", "bosonic") else 40))
    plan = ctx.budget(
        {"gaussian": {"cond": 40, "prepg": 16, "hist": 10}, "bosonic": {"cond": 50, "prepg": 16, "hist": 10, "bmodes": 24, "msgate": 10},
         "fock-pure": {"prepf": 10, "mfock": 24, "hfock": 6, "hist": 5}, "fock-mixed": {"prepf": 10, "mfock": 24, "hfock": 6, "hist": 5}},
        {"gaussian": {"cond": 400, "prepg": 150, "hist": 100}, "bosonic": {"cond": 500, "prepg": 150, "hist": 100, "bmodes": 240, "msgate": 100},
         "fock-pure": {"prepf": 80, "mfock": 60, "hfock": 40, "hist": 25}, "fock-mixed": {"prepf": 80, "mfock": 60, "hfock": 40, "hist": 25}})
    for backend, fams in plan.items():
        for fam, cnt in fams.items():
            gen, ev = HARD[fam]
            for i in range(cnt):
                d = gen(rng, backend, i)
                small = {k: v for k, v in d.items() if k not in ("pre", "V", "r", "steps")}
                ctx.case(small, nontrivial=True, bucket="%s-%s-%s" % (fam, backend, d.get("kind") or d.get("prep") or ""))
                try:
                    sig = ev(d)
                except Exception as e:
                    ctx.counterexample("%s:%s:raises:%s" % (fam, backend, type(e).__name__), "%s case on the %s backend raised %r" % (fam, backend, e), d)
                    continue
                if sig:
                    ctx.counterexample(sig, "%s on the %s backend: the documented post-state / locality does not hold (%s)" % (fam, backend, sig), d)


def search(ctx):
    _search_v2(ctx)
    search_hard(ctx)


_replay_v1 = replay


def replay(ctx, data):
    d = data["data"]
    if d.get("check") == "hard":
        try:
            sig = eval_sweep(d) if d["fam"] == "sweep" else HARD[d["fam"]][1](d)
        except Exception as e:   # cases recorded because the operation raised
            print("raises:", repr(e))
            return True
        print("violation:", sig)
        return bool(sig)
    return _replay_v1(ctx, data)
