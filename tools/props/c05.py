"""C05 — operations act only on their target modes."""
import numpy as np

from props import backends_common as bc
from props import gauss_common as gc
from props import bosonic_model as bm
from props import fock_axes as fa
from vlib import sfgen

PROP = "C05"
LEVEL = "proof"
COQ_DIRS = ["C05", "FockAxes", "Bosonic", "C07"]
COQ_TARGETS = ["Gen/GaussCirc.vo", "Base/MatOps.vo", "Gen/GaussMat.vo", "C07/GaussPhysical.vo", "C07/GaussPassive.vo", "C01/GaussReadout.vo", "C05/GaussSpectators.vo", "Base/GaussAlloc.vo", "C05/GaussAllocProofs.vo"] + list(fa.COQ_TARGETS) + list(bm.COQ_TARGETS)
PROPERTIES_FILE = "Properties/C05.v"
EXTRA_PROPERTIES_FILES = [fa.PROPERTIES_FILE, bm.PROPERTIES_FILE]
ALLOWED_AXIOMS = set()
TRANSLATORS = [gc.translate_gausscirc, gc.translate_gaussmat_fn]
RULE = ("(a) generated-function correspondence: random (method, register size 1-5, target position, parameters incl. 0 and "
        "multiples of pi/2, Hermitian or arbitrary complex N/M) — non-trivial when >= 2 modes and a target index > 0; "
        "(b) spectator search: weak correlated displaced mixed prior state on n=2..4 modes, one op on random ordered targets, "
        "spectators' reduced state compared before/after on gaussian, bosonic, fock-pure, fock-mixed — non-trivial when a target is not mode 0 "
        "or targets are in descending order")
TRUSTED_BASE = [
    "Coq 8.16.1 kernel; vm_compute for evaluating generated functions at PrimFloat",
    "translator tools/translate_gauss.py (fail-closed; output validated against GaussianModes on every run at binary64, tol 2^-30)",
    "hand model coq/FockAxes/Model.v of the axis bookkeeping of fockbackend/circuit.py (apply_gate_BLAS, apply_twomode_gate, _apply_channel, mix, prepare, alloc), tied by exact integer-tensor correspondence",
    "spectator search on the implementation (a test, not a proof): Fock tolerance 1e-6 + 4*sqrt(1 - trace)",
]
ASSUMPTIONS = ["Fock matrix elements of gates are not modelled (The Walrus / ops.py closed forms)"]
MANIFEST_TEXT = ("Proved for all register sizes, target positions, states and parameter values: every GaussianModes update method (model regenerated "
                 "from the source each run) leaves every N, M, alpha entry not involving a target mode unchanged; allocation appends a vacuum mode uncorrelated "
                 "with the rest and deletion touches nothing else; Fock gate / two-mode / channel application reads and writes only the target axes (FockAxes: "
                 "33 theorems, exact integer-tensor correspondence). Bosonic spectators and post-states of preparations / measurements: search (partial).")

GAUSS_NAMES = list(sfgen.GAUSSIAN_GATES) + list(sfgen.CHANNELS) + list(sfgen.PREPS)
FOCK_NAMES = [x for x in GAUSS_NAMES if x not in ("ThermalLossChannel", "Thermal")] + ["Kgate", "Vgate", "CKgate", "Fock"]


def correspondence(ctx):
    bm.correspondence_bosonic(ctx, predicates=('spectator',))
    fa.correspondence_fock_axes(ctx)
    bad = gc.correspondence_alloc(ctx, ctx.budget(60, 600), tag="c05alloc")
    if bad:
        ctx.disagreement("corr:gaussianmodes:" + bad[0][0], "hand model of GaussianModes.%s disagrees with the implementation (n = %d)" % (bad[0][0], bad[0][1]),
                         {"check": "alloc", "kind": bad[0][0], "n": bad[0][1]})
    bad = gc.correspondence_apply_u(ctx, ctx.budget(60, 600), tag="c05au")
    for c in (bad or [])[:3]:
        small = {"kind": c["kind"], "n": c["n"], "U": [[[z.real, z.imag] for z in r] for r in np.array(c["U"])]}
        sig = apply_u_spect_violation(c)
        if sig:
            ctx.counterexample("gaussianmodes:apply_u:" + sig, "GaussianModes.apply_u with U = identity outside the targets changes an entry among the other modes", {"check": "apply_u", "case": small})
        else:
            ctx.disagreement("corr:gaussmat:apply_u", "generated model of GaussianModes.apply_u disagrees with the implementation", {"check": "apply_u", "case": small})
    failing = gc.correspondence_generated(ctx, ctx.budget(240, 3000), tag="c05")
    if failing is None:
        return
    for c in failing[:5]:
        small = {k: c[k] for k in ("method", "n", "args", "N", "M", "a", "structured")}
        small["N"] = [[[z.real, z.imag] for z in r] for r in c["N"]]
        small["M"] = [[[z.real, z.imag] for z in r] for r in c["M"]]
        small["a"] = [[z.real, z.imag] for z in c["a"]]
        # property predicate on the implementation at this input: spectators unchanged?
        sig = spect_violation_gm(c)
        if sig:
            ctx.counterexample("gaussianmodes:%s:%s" % (c["method"], sig), "GaussianModes.%s changes an entry not involving its target mode(s)" % c["method"],
                               {"check": "gm", "case": small})
        else:
            ctx.disagreement("corr:gausscirc:" + c["method"], "generated model of GaussianModes.%s disagrees with the implementation" % c["method"], {"check": "gm", "case": small})


def apply_u_spect_violation(c):
    """U is the identity on the rows of the non-target modes: entries of N, M, mean among those modes must not change."""
    U = np.array(c["U"])
    n = c["n"]
    spect = [i for i in range(n) if np.allclose(U[i], np.eye(n)[i], atol=0) and np.allclose(U[:, i], np.eye(n)[i], atol=0)]
    if not spect or len(spect) == n:
        return None
    N1, M1, a1 = (np.array(x) for x in c["out"])
    N0, M0, a0 = np.array(c["N"]), np.array(c["M"]), np.array(c["a"])
    ix = np.ix_(spect, spect)
    if np.abs(a1[spect] - a0[spect]).max() > 1e-12:
        return "spectator-mean-changed"
    if np.abs(N1[ix] - N0[ix]).max() > 1e-12:
        return "spectator-N-changed"
    if np.abs(M1[ix] - M0[ix]).max() > 1e-12:
        return "spectator-M-changed"
    return None


def spect_violation_gm(c):
    tg = [v for v in c["args"].values() if isinstance(v, int)]
    N1, M1, a1 = (np.array(x) for x in c["out"])
    N0, M0, a0 = np.array(c["N"]), np.array(c["M"]), np.array(c["a"])
    n = c["n"]
    for i in range(n):
        if i in tg:
            continue
        if abs(a1[i] - a0[i]) > 1e-12:
            return "spectator-mean-changed"
        for j in range(n):
            if j in tg:
                continue
            if abs(N1[i, j] - N0[i, j]) > 1e-12:
                return "spectator-N-changed"
            if abs(M1[i, j] - M0[i, j]) > 1e-12:
                return "spectator-M-changed"
    return None


def spectator_case(ctx, rng, backend):
    n = rng.randint(2, 4) if backend in ("gaussian", "bosonic") else rng.randint(2, 3)
    names = GAUSS_NAMES if backend in ("gaussian", "bosonic") else FOCK_NAMES
    if backend == "gaussian":
        names = names + ["PassiveChannel"]  # multi-mode passive transformation (Gaussian backend only)
    pre = bc.weak_prefix(rng, n)
    if backend.startswith("fock"):
        pre = [c for c in pre if c[0] != "ThermalLossChannel"]
        if backend == "fock-mixed" or rng.random() < 0.5:
            pre += [["LossChannel", [round(rng.uniform(0.7, 0.95), 3)], [rng.randrange(n)], False]] if backend == "fock-mixed" else []
    cmd = bc.weak_cmd(rng, n, names)
    if backend == "fock-pure" and cmd[0] in ("LossChannel",):
        pass  # a channel turns the pure representation into a mixed one: still fine to compare reduced states
    return n, pre, cmd


def spectators_changed(backend, n, pre, cmd, cutoff=8):
    """Return (changed?, detail) for the reduced state of the non-target modes."""
    spect = [m for m in range(n) if m not in cmd[2]]
    if not spect:
        return False, "no spectators"
    before = bc.run({"n": n, "cmds": pre}, backend, cutoff)
    after = bc.run({"n": n, "cmds": pre + [cmd]}, backend, cutoff)
    if backend in ("gaussian", "bosonic"):
        m0, c0 = bc.reduced_gauss(*bc.gauss_obs(before), spect)
        m1, c1 = bc.reduced_gauss(*bc.gauss_obs(after), spect)
        d = max(np.abs(m0 - m1).max(), np.abs(c0 - c1).max())
        return d > 1e-9, "max |delta| = %.3g on spectators %s" % (d, spect)
    tol, tr = bc.fock_tol(after)
    tol0, tr0 = bc.fock_tol(before)
    r0 = bc.fock_reduced(before, spect)
    r1 = bc.fock_reduced(after, spect)
    d = np.abs(r0 - r1).max()
    return d > max(tol, tol0), "max |delta| = %.3g (tol %.3g, traces %.8f -> %.8f) on spectators %s" % (d, max(tol, tol0), tr0, tr, spect)


def search(ctx):
    rng = ctx.rng
    per = ctx.budget({"gaussian": 80, "bosonic": 60, "fock-pure": 24, "fock-mixed": 16},
                     {"gaussian": 800, "bosonic": 500, "fock-pure": 200, "fock-mixed": 120})
    for backend, cnt in per.items():
        for _ in range(cnt):
            n, pre, cmd = spectator_case(ctx, rng, backend)
            try:
                changed, detail = spectators_changed(backend, n, pre, cmd)
            except Exception as e:
                ctx.counterexample("spectators:%s:%s:raises:%s" % (backend, cmd[0], type(e).__name__), "running %s on %s raised %r" % (cmd, backend, e),
                                   {"check": "spect", "backend": backend, "n": n, "pre": pre, "cmd": cmd})
                continue
            nontriv = min(cmd[2]) > 0 or cmd[2] != sorted(cmd[2])
            ctx.case({"backend": backend, "n": n, "cmd": cmd}, nontrivial=nontriv, bucket="spect-%s-%s" % (backend, cmd[0]))
            if changed:
                ctx.counterexample("spectators:%s:%s" % (backend.split("-")[0], cmd[0]),
                                   "%s on modes %s of a %d-mode register changes the reduced state of the other modes on the %s backend (%s)" % (cmd[0], cmd[2], n, backend, detail),
                                   {"check": "spect", "backend": backend, "n": n, "pre": pre, "cmd": cmd})


def replay(ctx, data):
    d = data["data"]
    if str(d.get("check", "")).startswith("bosonic"):
        return bm.replay_bosonic(ctx, data)
    if d.get("check") == "fock-axes":
        return fa.replay_fock_axes(ctx, data)
    if d.get("check") == "spect":
        changed, detail = spectators_changed(d["backend"], d["n"], d["pre"], d["cmd"])
        print(detail)
        return bool(changed)
    if d.get("check") == "gm":
        c = dict(d["case"])
        c["N"] = [[complex(*z) for z in r] for r in c["N"]]
        c["M"] = [[complex(*z) for z in r] for r in c["M"]]
        c["a"] = [complex(*z) for z in c["a"]]
        import json
        sig = json.load(open(gc.SIG_PATH))
        c["order"] = sig[c["method"]]["pyparams"]
        c["out"] = gc.run_impl(c)
        s = spect_violation_gm(c)
        print("spectator violation:", s)
        return bool(s)
    if d.get("check") == "post":
        sg = eval_post_spec(d)
        print("post-state violation:", sg)
        return bool(sg)
    return False


# ------------------------------------------------------------------------------------------
# second clause of C05: preparations, deletions and measurements leave the targets in the documented post-state,
# uncorrelated with the rest, and change the rest only by the conditional update

import strawberryfields as _sf
from strawberryfields import ops as _ops

_search_gates = search


def _build(n, cmds, tail):
    """tail: callable(q) appending the final op(s) inside the context."""
    prog = _sf.Program(n)
    with prog.context as q:
        for name_, params, modes, dagger in cmds:
            sfgen.make_op(name_, params, dagger) | tuple(q[m] for m in modes)
        tail(q)
    return prog


def _engine(backend, cutoff=7):
    if backend == "gaussian":
        return _sf.Engine("gaussian")
    if backend == "bosonic":
        return _sf.Engine("bosonic")
    return _sf.Engine("fock", backend_options={"cutoff_dim": cutoff, "pure": backend == "fock-pure"})


def _vac_and_uncorrelated(state, backend, targets, n, tol):
    """Targets in vacuum and uncorrelated with the rest?"""
    if backend in ("gaussian", "bosonic"):
        means, cov = bc.gauss_obs(state)
        for t in targets:
            idx = [t, t + n]
            if np.abs(means[idx]).max() > tol or np.abs(cov[np.ix_(idx, idx)] - np.eye(2)).max() > tol:
                return "target-not-vacuum"
            rest = [i for i in range(2 * n) if i not in idx]
            if rest and np.abs(cov[np.ix_(idx, rest)]).max() > tol:
                return "target-correlated-with-rest"
        return None
    for t in targets:
        r = state.reduced_dm([t])
        vac = np.zeros_like(r)
        vac[0, 0] = 1.0
        tr = float(np.real(np.trace(r)))
        if tr > 1e-9 and np.abs(r / tr - vac).max() > tol:
            return "target-not-vacuum"
    return None


def gen_post_spec(rng, backend):
    fock = backend.startswith("fock")
    n = rng.randint(2, 3) if fock else rng.randint(2, 4)
    pre = bc.weak_prefix(rng, n)
    if fock:
        pre = [c for c in pre if c[0] != "ThermalLossChannel"]
    kind = rng.choice(["prep", "del", "homodyne", "heterodyne", "fock"] if not fock else ["prep", "del", "homodyne", "fock", "fock-twin"])
    d = {"check": "post", "backend": backend, "kind": kind, "n": n, "pre": pre}
    if kind == "prep":
        d["target"] = rng.randrange(n)
        d["prep"] = rng.choice(["Vacuum", "Coherent", "Squeezed", "Thermal"] if not fock else ["Vacuum", "Coherent", "Squeezed", "Fock"])
    elif kind == "del":
        d["target"] = rng.randrange(n)
    elif kind in ("homodyne", "heterodyne"):
        d["target"] = rng.randrange(n)
        d["select"] = rng.random() < 0.5
        d["angle"] = round(rng.uniform(-1, 1), 3)
        # a history with deleted modes: possibly only the measured mode survives
        others = [m for m in range(n) if m != d["target"]]
        d["deleted"] = sorted(rng.sample(others, rng.randint(0, len(others)))) if rng.random() < 0.5 else []
    elif kind == "fock":
        d["targets"] = rng.sample(range(n), rng.randint(1, n))
    else:
        d.update({"n": 4, "pre": [], "order": rng.sample([0, 1, 2], 3)})
    return d


def eval_post_spec(d):
    """Returns a signature string if the documented post-state does not hold, else None."""
    backend, kind, n, pre = d["backend"], d["kind"], d["n"], d["pre"]
    fock = backend.startswith("fock")
    tol = 1e-6 if not fock else 5e-3
    if kind == "prep":
        t, pname = d["target"], d["prep"]
        params = {"Vacuum": [], "Coherent": [0.3, 0.4], "Squeezed": [0.2, 0.5], "Thermal": [0.4], "Fock": [1]}[pname]
        st = _engine(backend).run(_build(n, pre, lambda q: sfgen.make_op(pname, params) | q[t])).state
        ref = _engine(backend).run(_build(1, [], lambda q: sfgen.make_op(pname, params) | q[0])).state
        before = _engine(backend).run(_build(n, pre, lambda q: None)).state
        spect = [m for m in range(n) if m != t]
        if not fock:
            m1, c1 = bc.gauss_obs(st)
            mr, cr = bc.gauss_obs(ref)
            m0, c0 = bc.gauss_obs(before)
            idx = [t, t + n]
            rest = [i for i in range(2 * n) if i not in idx]
            if np.abs(m1[idx] - mr).max() > tol or np.abs(c1[np.ix_(idx, idx)] - cr).max() > tol:
                return "prep:%s:target-not-prepared-state" % backend
            if np.abs(c1[np.ix_(idx, rest)]).max() > tol:
                return "prep:%s:target-correlated-with-rest" % backend
            a0, a1 = bc.reduced_gauss(m0, c0, spect), bc.reduced_gauss(m1, c1, spect)
            if max(np.abs(a0[0] - a1[0]).max(), np.abs(a0[1] - a1[1]).max()) > tol:
                return "prep:%s:rest-changed" % backend
        else:
            if np.abs(st.reduced_dm([t]) - ref.reduced_dm([0])).max() > tol:
                return "prep:fock:target-not-prepared-state"
            if np.abs(st.reduced_dm(spect) - before.reduced_dm(spect)).max() > max(tol, bc.fock_tol(before)[0]):
                return "prep:fock:rest-changed"
        return None
    if kind == "del":
        t = d["target"]
        st = _engine(backend).run(_build(n, pre, lambda q: _ops.Del | q[t])).state
        before = _engine(backend).run(_build(n, pre, lambda q: None)).state
        spect = [m for m in range(n) if m != t]
        if not fock:
            m1, c1 = bc.gauss_obs(st)
            m0, c0 = bc.gauss_obs(before)
            a0 = bc.reduced_gauss(m0, c0, spect)
            if len(m1) != 2 * len(spect) or max(np.abs(a0[0] - m1).max(), np.abs(a0[1] - c1).max()) > tol:
                return "del:%s:rest-changed" % backend
        else:
            r1 = st.reduced_dm(list(range(len(spect))))
            if np.abs(r1 - before.reduced_dm(spect)).max() > max(tol, bc.fock_tol(before)[0]):
                return "del:fock:rest-changed"
        return None
    if kind in ("homodyne", "heterodyne"):
        if kind == "heterodyne" and fock:
            return None
        t, sel = d["target"], d["select"]
        if kind == "homodyne":
            op = _ops.MeasureHomodyne(d["angle"], select=0.3 if sel else None)
        else:
            op = _ops.MeasureHeterodyne(select=(0.2 + 0.1j) if sel else None)
        deleted = d.get("deleted", [])

        def tail(q):
            for m in deleted:
                _ops.Del | q[m]
            op | q[t]
        st = _engine(backend).run(_build(n, pre, tail)).state
        live = [m for m in range(n) if m not in deleted]
        v = _vac_and_uncorrelated(st, backend, [live.index(t)], len(live), tol if not fock else 2e-2)
        if v is None and sel and not fock:
            # "changes the rest only by the conditional update a measurement outcome implies":
            # compare with the textbook conditional Gaussian state (independent numpy calculation)
            from props.c01 import reference as _ref
            mcmd = ["MeasureHomodyneSel", [d["angle"], 0.3], [t], False] if kind == "homodyne" else ["MeasureHeterodyneSel", [0.2, 0.1], [t], False]
            spec = {"n": n, "cmds": list(pre) + [["Del", [], [m], False] for m in deleted] + [mcmd]}
            mr, cr = _ref(spec)
            m1, c1 = bc.gauss_obs(st)
            if max(np.abs(m1 - mr).max(), np.abs(c1 - cr).max()) > 2e-5 * max(1.0, float(np.abs(cr).max())):
                v = "rest-not-conditional-state"
        return "measure:%s:%s:%s" % (backend.split("-")[0], kind, v) if v else None
    if kind == "fock":
        targets = d["targets"]
        if not fock:
            return None  # photon counting does not update the state on these backends (recorded under C06)
        res = _engine(backend).run(_build(n, pre, lambda q: _ops.MeasureFock() | tuple(q[m] for m in targets)))
        v = _vac_and_uncorrelated(res.state, backend, targets, n, 1e-6)
        return "measure:fock:counting:%s" % v if v else None
    # fock-twin: the outcome reported for a mode must be that mode's, and its twin must be left in that number state
    order = d["order"]

    def tail(q):
        _ops.S2gate(0.5, 0.0) | (q[0], q[3])
        _ops.Fock(1) | q[1]
        _ops.Fock(2) | q[2]
        _ops.MeasureFock() | tuple(q[m] for m in order)
    eng = _sf.Engine("fock", backend_options={"cutoff_dim": 5, "pure": backend == "fock-pure"})
    res = eng.run(_build(4, [], tail))
    sample = [int(x) for x in res.samples[0]]  # ascending mode order: modes 0, 1, 2
    if sample[1] != 1 or sample[2] != 2:
        return "measure:fock:counting:outcome-assigned-to-wrong-mode"
    twin = res.state.reduced_dm([3])
    if abs(twin[sample[0], sample[0]].real - 1.0) > 1e-6:
        return "measure:fock:counting:conditional-state-of-rest-wrong"
    return None


def post_state_case(ctx, rng, backend):
    d = gen_post_spec(rng, backend)
    return eval_post_spec(d), d


def search(ctx):
    _search_gates(ctx)
    rng = ctx.rng
    per = ctx.budget({"gaussian": 40, "bosonic": 40, "fock-pure": 10, "fock-mixed": 10},
                     {"gaussian": 400, "bosonic": 400, "fock-pure": 80, "fock-mixed": 80})
    for backend, cnt in per.items():
        for _ in range(cnt):
            try:
                sig, data = post_state_case(ctx, rng, backend)
            except Exception as e:
                ctx.counterexample("post:%s:raises:%s" % (backend, type(e).__name__), "post-state case raised %r" % e, {"check": "post-raise", "backend": backend})
                continue
            ctx.case({k: v for k, v in data.items() if k != "pre"}, nontrivial=True, bucket="post-%s-%s" % (backend, data.get("kind")))
            if sig:
                ctx.counterexample(sig, "after %s on the %s backend the documented post-state does not hold (%s)" % (data.get("kind"), backend, sig), data)
