"""temporary development wrapper for FockAxes"""
from props import fock_axes as fa
PROP = "C99"
LEVEL = "proof"
COQ_DIRS = ["FockAxes"]
COQ_TARGETS = fa.COQ_TARGETS
PROPERTIES_FILE = fa.PROPERTIES_FILE
ALLOWED_AXIOMS = set()
RULE = fa.RULE_FOCK_AXES
TRUSTED_BASE = fa.TRUSTED_FOCK_AXES
ASSUMPTIONS = []


def correspondence(ctx):
    fa.correspondence_fock_axes(ctx)


def replay(ctx, data):
    return fa.replay_fock_axes(ctx, data)
