"""C04 — every internal circuit re-ordering respects mode and measurement dependencies."""
import itertools

import networkx as nx

import strawberryfields as sf
from strawberryfields import ops
from strawberryfields import program_utils as pu
from strawberryfields.program_utils import CircuitError
from vlib import coq

PROP = "C04"
LEVEL = "proof"
COQ_DIRS = ["C04"]
COQ_TARGETS = ["Base/Reorder.vo", "C04/Model.vo", "C04/Proofs.vo"]
PROPERTIES_FILE = "Properties/C04.v"
ALLOWED_AXIOMS = set()
RULE = ("command sequences over 1-4 modes built from single/two-mode gates, measurements, gates whose parameter is a measured value "
        "(dependency on another wire), marked = MeasureFock or by random predicate; exhaustive over a 2-3 mode alphabet up to a length bound "
        "plus random longer ones; for each: grid and DAG edge set compared exactly with the model, DAG_to_list / optimize-free round trip / "
        "group_operations / GBS.compile outputs validated by the proved Coq validators, plus random legal and illegal linearisations fed to the validator; "
        "non-trivial = DAG admits >= 2 linearisations and has a measured-parameter dependency or a marked command")
TRUSTED_BASE = [
    "Coq 8.16.1 kernel; vm_compute for validators and model evaluation",
    "hand model coq/C04/Model.v (grid, DAG edges, validators, GBS collection) tied by exact correspondence; theorems in coq/Base/Reorder.v quantify over ANY topological order, so networkx's choice is irrelevant",
    "harness tools/props/c04.py computes each command's dependency set from the generated spec, not from the implementation",
    "assumption checked by the harness: a circuit never contains the same Command object twice",
]
ASSUMPTIONS = ["networkx topological sorts are library code: their outputs are validated per run, not predicted"]
MANIFEST_TEXT = ("Proved for all circuits and every legal linearisation: same commands, every wire's command sequence preserved (hence relative order of any two "
                 "commands sharing a mode or linked by a measured parameter), DAG round trip, group_operations partition (A, C unmarked; B empty => C empty), "
                 "GBS measurement collection; validators proved sound and run on the implementation's outputs.")

SINGLE = ["Rgate", "Sgate", "Dgate"]


def build(n, cmds):
    """cmds: list of (kind, modes, dep) ; kind in g1,g2,mx,mf,gp(gate with measured parameter from wire dep).
    Returns (prog, specs) or None if the front end rejects the sequence."""
    prog = sf.Program(n)
    try:
        with prog.context as q:
            for kind, modes, dep in cmds:
                if kind == "g1":
                    ops.Rgate(0.3) | q[modes[0]]
                elif kind == "g2":
                    ops.BSgate(0.4, 0.1) | (q[modes[0]], q[modes[1]])
                elif kind == "mx":
                    ops.MeasureX | q[modes[0]]
                elif kind == "mf":
                    ops.MeasureFock() | tuple(q[m] for m in modes)
                elif kind == "gp":
                    ops.Rgate(q[dep].par * 0.5) | q[modes[0]]
                elif kind == "del":
                    ops.Del | q[modes[0]]
                else:
                    raise ValueError(kind)
    except Exception:
        return None
    return prog


def spec_deps(c):
    kind, modes, dep = c
    d = list(modes)
    if kind == "gp" and dep not in d:
        d.append(dep)
    return d


def enc_cmd(i, c, mark):
    return "(mkCmd %d %s %s %s)" % (i, coq.coq_list(spec_deps(c), str), coq.coq_list(list(c[1]), str), coq.coq_bool(mark))


def enc_list(idxs, cmds, marks):
    return coq.coq_list([enc_cmd(i, cmds[i], marks[i]) for i in idxs])


def random_cmds(rng, n, length):
    out = []
    measured = set()
    deleted = set()
    for _ in range(length):
        r = rng.random()
        if n - len(deleted) >= 2 and r > 0.96:
            dm = rng.choice([m for m in range(n) if m not in deleted])
            deleted.add(dm)
            out.append(("del", [dm], None))
            continue
        if deleted:
            # the front end rejects any later use of a deleted mode: draw again on the live modes only
            live = [m for m in range(n) if m not in deleted]
            c = random_cmds(rng, len(live), 1)
            if c:
                kind, modes, dep = c[0]
                if kind == "gp" and (dep is None or dep >= len(live)):
                    continue
                modes = [live[m] for m in modes]
                dep = live[dep] if (dep is not None) else None
                if kind == "gp" and dep not in measured:
                    continue
                if kind in ("mx", "mf"):
                    measured.update(modes)
                out.append((kind, modes, dep))
            continue
        if r < 0.3:
            out.append(("g1", [rng.randrange(n)], None))
        elif r < 0.55 and n >= 2:
            out.append(("g2", rng.sample(range(n), 2), None))
        elif r < 0.7:
            m = rng.randrange(n)
            out.append(("mx", [m], None))
            measured.add(m)
        elif r < 0.8:
            k = rng.randint(1, min(2, n))
            ms = rng.sample(range(n), k)
            out.append(("mf", ms, None))
            measured.update(ms)
        elif measured:
            out.append(("gp", [rng.randrange(n)], rng.choice(sorted(measured))))
        else:
            out.append(("g1", [rng.randrange(n)], None))
    return out


def alphabet(n):
    al = [("g1", [m], None) for m in range(n)]
    al += [("g2", [a, b], None) for a in range(n) for b in range(n) if a != b]
    al += [("mx", [m], None) for m in range(n)]
    al += [("mf", [m], None) for m in range(n)]
    al += [("gp", [m], d) for m in range(n) for d in range(n) if m != d]
    return al


def count_linearisations(n_cmds, edges, cap=3):
    G = nx.DiGraph()
    G.add_nodes_from(range(n_cmds))
    G.add_edges_from(edges)
    cnt = 0
    for _ in nx.all_topological_sorts(G):
        cnt += 1
        if cnt >= cap:
            break
    return cnt


def random_topo(rng, n_cmds, edges):
    preds = {i: set() for i in range(n_cmds)}
    for a, b in edges:
        preds[b].add(a)
    done, out = set(), []
    while len(out) < n_cmds:
        avail = [i for i in range(n_cmds) if i not in done and preds[i] <= done]
        x = rng.choice(avail)
        out.append(x)
        done.add(x)
    return out


def impl_views(prog):
    """Run the implementation's conversions; everything is reported as command indices."""
    circ = prog.circuit
    idx = {id(c): i for i, c in enumerate(circ)}
    if len(idx) != len(circ):
        raise AssertionError("same Command object twice")
    grid = pu.list_to_grid(circ)
    grid_ids = {w: [idx[id(c)] for c in q] for w, q in grid.items()}
    dag = pu.grid_to_DAG(grid)
    edges = sorted((idx[id(a)], idx[id(b)]) for a, b in dag.edges())
    nodes = sorted(idx[id(a)] for a in dag.nodes())
    out = [idx[id(c)] for c in pu.DAG_to_list(dag)]
    # second round trip
    out2 = [idx[id(c)] for c in pu.DAG_to_list(pu.list_to_DAG(pu.DAG_to_list(dag)))]
    return grid_ids, edges, nodes, out, out2, idx


def correspondence(ctx):
    rng = ctx.rng
    cases = []
    # exhaustive small scope
    bounds = ctx.budget([(2, 3)], [(2, 4), (3, 3)])
    for n, L in bounds:
        al = alphabet(n)
        for length in range(0, L + 1):
            for seq in itertools.product(al, repeat=length):
                cases.append((n, list(seq)))
    n_exh = len(cases)
    for _ in range(ctx.budget(250, 2500)):
        n = rng.randint(1, 5)
        cases.append((n, random_cmds(rng, n, rng.randint(1, 14))))
    ctx.extra["exhaustive_cases_enumerated"] = n_exh
    items = []  # per valid case: dict
    for n, cmds in cases:
        prog = build(n, cmds)
        if prog is None:
            ctx.hist["rejected-by-frontend"] = ctx.hist.get("rejected-by-frontend", 0) + 1
            continue
        try:
            grid_ids, edges, nodes, out, out2, idx = impl_views(prog)
        except Exception as e:
            ctx.counterexample("reorder:raises:%s" % type(e).__name__, "conversion raised %r" % e, {"check": "lin", "n": n, "cmds": cmds})
            continue
        marks_mf = [c[0] == "mf" for c in cmds]
        mode = rng.choice(["mf", "rand", "g2"])
        marks = marks_mf if mode == "mf" else [rng.random() < 0.3 for _ in cmds] if mode == "rand" else [c[0] == "g2" for c in cmds]
        circ = prog.circuit
        pred_ids = {id(circ[i].op) for i in range(len(cmds)) if marks[i]}
        try:
            A, B, C = pu.group_operations(circ, lambda op: id(op) in pred_ids)
            grp = ([idx[id(c)] for c in A], [idx[id(c)] for c in B], [idx[id(c)] for c in C])
        except Exception as e:
            ctx.counterexample("group:raises:%s" % type(e).__name__, "group_operations raised %r" % e, {"check": "lin", "n": n, "cmds": cmds})
            continue
        items.append({"n": n, "cmds": cmds, "grid": grid_ids, "edges": edges, "nodes": nodes, "out": out, "out2": out2, "marks": marks, "grp": grp})
    # model side
    bad_total = 0
    for si in range(0, len(items), 400):
        sh = items[si:si + 400]
        lines = ["From Coq Require Import List Arith Bool.", "Import ListNotations.", "From SFV Require Import Base.Reorder C04.Model.",
                 "Definition sort_pairs (l : list (nat * nat)) := l.",
                 "Definition report (ls out out2 A_ B_ C_ : list cmd) :=",
                 "  (map (fun w => (w, wire_ids ls w)) (all_wires ls), edges_ids ls, ids (nodes cmd cdeps ls), check_linearisation ls out, check_linearisation ls out2, check_group ls A_ B_ C_).",
                 "Definition cases := ["]
        rows = []
        for it in sh:
            cm, mk = it["cmds"], it["marks"]
            allidx = list(range(len(cm)))
            rows.append("report %s %s %s %s %s %s" % (enc_list(allidx, cm, mk), enc_list(it["out"], cm, mk), enc_list(it["out2"], cm, mk),
                                                      enc_list(it["grp"][0], cm, mk), enc_list(it["grp"][1], cm, mk), enc_list(it["grp"][2], cm, mk)))
        lines.append(";\n".join(rows) + "].")
        lines.append("Eval vm_compute in cases.")
        ok, vals, raw = ctx.coq_eval("cases_lin_%d" % (si // 400), "\n".join(lines))
        if not ok:
            ctx.obligation("correspondence:reorder:shard%d" % (si // 400), False, raw)
            return
        for it, val in zip(sh, vals[0]):
            grid_m, edges_m, nodes_m, ok_out, ok_out2, ok_grp = val
            grid_m = {w: ids for w, ids in grid_m}
            edges_m = sorted(set(tuple(e) for e in edges_m))
            nlin = count_linearisations(len(it["cmds"]), it["edges"])
            nontriv = nlin >= 2 and (any(c[0] == "gp" for c in it["cmds"]) or any(it["marks"]))
            ctx.case({"n": it["n"], "cmds": it["cmds"], "marks": it["marks"]}, nontrivial=nontriv, bucket="len%d" % min(len(it["cmds"]), 8))
            data = {"check": "lin", "n": it["n"], "cmds": it["cmds"], "marks": it["marks"]}
            if {w: q for w, q in it["grid"].items() if q} != {w: q for w, q in grid_m.items() if q}:
                ctx.counterexample("grid:differs", "list_to_grid does not put each command on exactly its dependency wires in order: impl %s vs model %s" % (it["grid"], grid_m), data)
                bad_total += 1
                continue
            if sorted(set(it["edges"])) != edges_m:
                ctx.counterexample("dag:edges-differ", "grid_to_DAG edges %s differ from consecutive-on-a-wire pairs %s" % (it["edges"], edges_m), data)
                bad_total += 1
                continue
            if sorted(nodes_m) != it["nodes"]:
                ctx.counterexample("dag:nodes-differ", "DAG nodes %s differ from commands with dependencies %s" % (it["nodes"], nodes_m), data)
                continue
            if sorted(it["nodes"]) != list(range(len(it["cmds"]))):
                ctx.counterexample("dag:commands-lost", "commands without any dependency wire are dropped by the list->DAG->list round trip", data)
            if not ok_out or not ok_out2:
                ctx.counterexample("toposort:order-violated", "DAG_to_list output %s (or its re-sorted form %s) is not a dependency-respecting permutation of the input" % (it["out"], it["out2"]), data)
            if not ok_grp:
                ctx.counterexample("group:invalid", "group_operations returned A=%s B=%s C=%s violating the promised partition / order" % it["grp"], data)
    ctx.traces += len(items)
    # validator completeness / discrimination on random legal and illegal linearisations
    lines = ["From Coq Require Import List Arith Bool.", "Import ListNotations.", "From SFV Require Import Base.Reorder C04.Model.", "Definition cases := ["]
    rows, expect = [], []
    pool = [it for it in items if len(it["cmds"]) >= 3]
    for _ in range(min(ctx.budget(150, 1000), len(pool))):
        it = rng.choice(pool)
        cm, mk = it["cmds"], it["marks"]
        lin = random_topo(rng, len(cm), it["edges"])
        rows.append("check_linearisation %s %s" % (enc_list(list(range(len(cm))), cm, mk), enc_list(lin, cm, mk)))
        expect.append(True)
        if it["edges"]:
            a, b = rng.choice(it["edges"])
            bad = list(lin)
            ia, ib = bad.index(a), bad.index(b)
            bad[ia], bad[ib] = bad[ib], bad[ia]
            rows.append("check_linearisation %s %s" % (enc_list(list(range(len(cm))), cm, mk), enc_list(bad, cm, mk)))
            expect.append(False)
    if rows:
        lines.append(";\n".join(rows) + "].")
        lines.append("Eval vm_compute in cases.")
        ok, vals, raw = ctx.coq_eval("cases_validator", "\n".join(lines))
        if not ok:
            ctx.obligation("correspondence:validator", False, raw)
            return
        wrong = [i for i, (v, e) in enumerate(zip(vals[0], expect)) if v != e]
        ctx.obligation("validator-discriminates", not wrong, "validator verdict differs from construction on %d of %d linearisations" % (len(wrong), len(expect)))
        ctx.extra["validator_linearisations"] = len(expect)


def gbs_case(rng):
    n = rng.randint(1, 4)
    if n >= 2 and rng.random() < 0.25:
        # two (or three) Fock measurements on disjoint mode sets with commands in between: plain gates on measured / unmeasured modes,
        # gates fed by an earlier photon count acting on a measured or a not-yet-measured mode.  Nothing but another MeasureFock may sit
        # between the measurements in the source for the collection to be legal.
        cmds = [("g1", [rng.randrange(n)], None) for _ in range(rng.randint(0, 2))]
        modes = list(range(n))
        rng.shuffle(modes)
        cut = rng.randint(1, n - 1)
        groups = [modes[:cut], modes[cut:]]
        measured = []
        for gi, grp in enumerate(groups):
            cmds.append(("mf", grp, None))
            measured += grp
            if gi + 1 < len(groups):
                for _ in range(rng.randint(0, 2)):
                    kind = rng.choice(["gp", "gp", "g1"])
                    tgt = rng.choice(modes if rng.random() < 0.3 else groups[gi + 1])
                    cmds.append((kind, [tgt], rng.choice(measured) if kind == "gp" else None))
        return n, cmds
    cmds = []
    for _ in range(rng.randint(0, 5)):
        if rng.random() < 0.6 or n < 2:
            cmds.append(("g1", [rng.randrange(n)], None))
        else:
            cmds.append(("g2", rng.sample(range(n), 2), None))
    k = rng.randint(0, 3)
    for _ in range(k):
        ms = rng.sample(range(n), rng.randint(1, n))
        pos = rng.randint(0, len(cmds))
        cmds.insert(pos, ("mf", ms, None))
        if rng.random() < 0.4:
            # feed-forward: a gate whose parameter is one of these photon counts, on any mode (measured or not), somewhere later —
            # it can never be moved in front of the measurement it depends on, whichever mode it acts on
            cmds.insert(rng.randint(pos + 1, len(cmds)), ("gp", [rng.randrange(n)], rng.choice(ms)))
    if n >= 2 and rng.random() < 0.35:
        # a deleted mode: every later command must avoid it (the front end rejects uses of a deleted mode)
        dm = rng.randrange(n)
        pos = rng.randint(0, len(cmds))
        kept = cmds[:pos] + [("del", [dm], None)] + [c for c in cmds[pos:] if dm not in c[1]]
        cmds = kept
    return n, cmds


def run_gbs(n, cmds):
    prog = build(n, cmds)
    if prog is None:
        return None
    try:
        out = prog.compile(compiler="gbs")
    except CircuitError as e:
        return ("error", str(e))
    res = []
    for c in out.circuit:
        res.append((c.op.__class__.__name__, [r.ind for r in c.reg]))
    return ("ok", res)


def search(ctx):
    """GBS.compile on the implementation vs the model's collection; plus end-to-end checks."""
    rng = ctx.rng
    cases = []
    for _ in range(ctx.budget(150, 1500)):
        n, cmds = gbs_case(rng)
        r = run_gbs(n, cmds)
        if r is None:
            continue
        cases.append((n, cmds, r))
    if not cases:
        return
    # model: group via impl's own group_operations is validated in correspondence; here the collection on B
    lines = ["From Coq Require Import List Arith Bool.", "Import ListNotations.", "From SFV Require Import Base.Reorder C04.Model.",
             "Definition res (r : gbs_result) : nat * list nat := match r with GbsError e => (e, []) | GbsOk _ m => (0, m) end.", "Definition cases := ["]
    rows = []
    meta = []
    for n, cmds, r in cases:
        prog = build(n, cmds)
        circ = prog.circuit
        idx = {id(c): i for i, c in enumerate(circ)}
        A, B, C = pu.group_operations(circ, lambda op: isinstance(op, ops.MeasureFock))
        marks = [c[0] == "mf" for c in cmds]
        ia, ib, ic = ([idx[id(c)] for c in X] for X in (A, B, C))
        rows.append("res (gbs_collect %s %s %s)" % (enc_list(ia, cmds, marks), enc_list(ib, cmds, marks), enc_list(ic, cmds, marks)))
        meta.append((ia, ib, ic))
    lines.append(";\n".join(rows) + "].")
    lines.append("Eval vm_compute in cases.")
    ok, vals, raw = ctx.coq_eval("cases_gbs", "\n".join(lines))
    if not ok:
        ctx.obligation("correspondence:gbs", False, raw)
        return
    for (n, cmds, r), (err, ms), (ia, ib, ic) in zip(cases, vals[0], meta):
        nmf = sum(1 for c in cmds if c[0] == "mf")
        ctx.case({"n": n, "cmds": cmds, "impl": r[0]}, nontrivial=nmf >= 2 or (nmf == 1 and r[0] == "ok" and len(cmds) > 2), bucket="gbs-%s" % r[0])
        data = {"check": "gbs", "n": n, "cmds": cmds}
        if r[0] == "error":
            if err == 0:
                ctx.counterexample("gbs:rejects-valid", "GBS compile raised %r on a circuit the model accepts" % r[1], data)
            continue
        if err != 0:
            ctx.counterexample("gbs:accepts-invalid:%d" % err, "GBS compile accepted a circuit that must be rejected (model error %d)" % err, data)
            continue
        outc = r[1]
        meas = [c for c in outc if c[0] == "MeasureFock"]
        others = [c for c in outc if c[0] != "MeasureFock"]
        if len(meas) != 1 or outc[-1][0] != "MeasureFock" or meas[0][1] != ms:
            ctx.counterexample("gbs:measurement-collection", "compiled circuit measures %s, expected one final MeasureFock on %s" % (meas, ms), data)
            continue
        # the non-measurement part must be the commands of A with the same per-wire order
        NAME = {"g1": "Rgate", "g2": "BSgate", "del": "_Delete", "gp": "Rgate"}
        exp = [(NAME[cmds[i][0]], cmds[i][1]) for i in ia]
        if sorted(map(repr, others)) != sorted(map(repr, exp)):
            ctx.counterexample("gbs:commands-changed", "compiled Gaussian part %s differs from the source's %s" % (others, exp), data)
            continue
        for w in range(n):
            if [c for c in others if w in c[1]] != [c for c in [(NAME[k], m) for k, m, _ in cmds if k != "mf"] if w in c[1]]:
                ctx.counterexample("gbs:wire-order", "order of the commands on wire %d changed" % w, data)
                break
    ctx.traces += len(cases)


def replay(ctx, data):
    d = data["data"]
    n, cmds = d["n"], [tuple(c) for c in d["cmds"]]
    if d.get("check") == "gbs":
        r = run_gbs(n, cmds)
        print("gbs compile:", r)
        return True  # the comparison needs the model; a replayed gbs case is re-judged by running the check
    prog = build(n, cmds)
    if prog is None:
        print("front end rejects the sequence")
        return False
    grid_ids, edges, nodes, out, out2, idx = impl_views(prog)
    print("grid", grid_ids, "edges", edges, "out", out)
    # independent re-check in python: every wire keeps its order
    deps = [spec_deps(c) for c in cmds]
    bad = False
    for o in (out, out2):
        for w in range(n):
            if [i for i in o if w in deps[i]] != [i for i in range(len(cmds)) if w in deps[i]]:
                bad = True
    for w in range(n):
        if grid_ids.get(w, []) != [i for i in range(len(cmds)) if w in deps[i]]:
            bad = True
    return bad
