"""C04 — every internal circuit re-ordering respects mode and measurement dependencies."""
import itertools

import networkx as nx
import numpy as np

import strawberryfields as sf
from strawberryfields import ops
from strawberryfields import program_utils as pu
from strawberryfields.parameters import par_funcs as pf
from strawberryfields.program_utils import CircuitError
from vlib import coq

PROP = "C04"
LEVEL = "proof"
COQ_DIRS = ["C04"]
COQ_TARGETS = ["Base/Reorder.vo", "C04/Model.vo", "C04/Proofs.vo"]
PROPERTIES_FILE = "Properties/C04.v"
ALLOWED_AXIOMS = set()
RULE = ("command sequences over 1-13 modes (register indices >= 10 included) built from single/two/k-mode gates, homodyne / heterodyne / post-selected / "
        "multi-mode Fock measurements, gates whose parameters are measured values of one or several other modes (in one expression or in two parameters), "
        "New-created and deleted modes (also the mode a parameter was measured on), hand-inserted commands without any dependency; marked = MeasureFock or "
        "one of several predicates; exhaustive over a 2-3 mode alphabet up to a length bound plus random longer ones; for each: grid and DAG edge set "
        "(grid_to_DAG and list_to_DAG) compared exactly with the model, DAG_to_list / repeated round trips / group_operations (two predicates, leading part "
        "maximal) / Program.optimize / Program.compile (gaussian, fock, gbs; optimize on and off) / gaussian_merge survivors validated by the proved Coq "
        "validators, Program.equivalence under legal and illegal re-linearisations, GBS.compile against the model's collection and against an "
        "independent accept/reject decision; plus random legal and illegal linearisations fed to the validator; "
        "non-trivial = DAG admits >= 2 linearisations and has a measured-parameter dependency or a marked command")
TRUSTED_BASE = [
    "Coq 8.16.1 kernel; vm_compute for validators and model evaluation",
    "hand model coq/C04/Model.v (grid, DAG edges, validators, GBS collection) tied by exact correspondence; theorems in coq/Base/Reorder.v quantify over ANY topological order, so networkx's choice is irrelevant",
    "harness tools/props/c04.py computes each command's dependency set from the generated spec, not from the implementation",
    "assumption checked by the harness: a circuit never contains the same Command object twice",
    "harness oracles computed from the generated spec in Python: leading part of group_operations (unmarked commands without a marked ancestor), GBS accept/reject "
    "decision (no command depends on a Fock measurement, no mode measured twice), merge-freeness of a circuit for the optimiser, reference DAG isomorphism for "
    "Program.equivalence; linearisations returned by Program.optimize / Program.compile are judged by the proved Coq validator as well",
    "a command without any dependency (only constructible by hand) is dropped by the list -> DAG conversion: modelled (nodes = commands with dependencies), excluded by hypothesis in the theorems",
]
ASSUMPTIONS = ["networkx topological sorts are library code: their outputs are validated per run, not predicted"]
MANIFEST_TEXT = ("Proved for all circuits and every legal linearisation: same commands, every wire's command sequence preserved (hence relative order of any two "
                 "commands sharing a mode or linked by a measured parameter), DAG round trip, group_operations partition (A, C unmarked; B empty => C empty), "
                 "GBS measurement collection; validators proved sound and run on the implementation's outputs.")

SINGLE = ["Rgate", "Sgate", "Dgate"]

# kind -> (class name in the compiled circuit, merge family of a plain single-mode gate or None)
KINDS = {
    "g1": ("Rgate", "R"), "g1i": ("Rgate", "R"), "s1": ("Sgate", "S"), "d1": ("Dgate", "D"), "k1": ("Kgate", "K"), "v1": ("Vgate", "V"),
    "f1": ("Fouriergate", "R"),  # decomposed into an Rgate by every compiler used here (compile stream only)
    "pv": ("Vacuum", "P"), "ps": ("Squeezed", "P"), "lc": ("LossChannel", "L"),
    "g2": ("BSgate", None), "g3": ("Interferometer", None), "ga": ("Rgate", None),
    "mx": ("MeasureHomodyne", None), "mxs": ("MeasureHomodyne", None), "mhd": ("MeasureHeterodyne", None), "mf": ("MeasureFock", None),
    "mfs": ("MeasureFock", None), "mfd": ("MeasureFock", None),  # post-selected on 1 photon per mode / 2 dark counts per mode
    "gp": ("Rgate", None), "gd": ("Dgate", None), "g2p": ("BSgate", None),
    "new": ("_New_modes", None), "del": ("_Delete", None), "nd": ("Rgate", None),
}
MF = ("mf", "mfs", "mfd")
MEASURE = ("mx", "mxs", "mhd") + MF


def dep_list(dep):
    if dep is None:
        return []
    if isinstance(dep, (list, tuple)):
        return list(dep)
    return [dep]


def par_expr(regs, deps, product=False):
    """One expression in the measured values of all modes in deps: a weighted sum, or a product with a function applied."""
    if product:
        e = pf.sin(regs[deps[0]].par)
        for d in deps[1:]:
            e = e * regs[d].par
        return e
    e = 0
    for j, d in enumerate(deps):
        e = e + (j + 1) * regs[d].par
    return e * 0.5


def build(n, cmds):
    """cmds: list of (kind, modes, dep); dep = None, a mode, or a list of modes whose measured values feed the parameter(s).
    Kinds: see KINDS ("nd" = command without any dependency, inserted by circuit_of, not by the front end).
    Returns the Program, or None if the front end rejects the sequence."""
    prog = sf.Program(n)
    try:
        with prog.context as q:
            regs = list(q)
            for kind, modes, dep in cmds:
                deps = dep_list(dep)
                if kind == "g1":
                    ops.Rgate(0.3) | regs[modes[0]]
                elif kind == "g1i":
                    ops.Rgate(-0.3) | regs[modes[0]]
                elif kind == "s1":
                    ops.Sgate(0.2) | regs[modes[0]]
                elif kind == "d1":
                    ops.Dgate(0.2, 0.1) | regs[modes[0]]
                elif kind == "k1":
                    ops.Kgate(0.1) | regs[modes[0]]
                elif kind == "v1":
                    ops.Vgate(0.1) | regs[modes[0]]
                elif kind == "f1":
                    ops.Fouriergate() | regs[modes[0]]
                elif kind == "pv":
                    ops.Vacuum() | regs[modes[0]]
                elif kind == "ps":
                    ops.Squeezed(0.3) | regs[modes[0]]
                elif kind == "lc":
                    ops.LossChannel(0.9) | regs[modes[0]]
                elif kind == "ga":
                    ops.Rgate(np.array([regs[d].par for d in deps], dtype=object)) | regs[modes[0]]
                elif kind == "g2":
                    ops.BSgate(0.4, 0.1) | (regs[modes[0]], regs[modes[1]])
                elif kind == "g3":
                    ops.Interferometer(np.eye(len(modes))) | tuple(regs[m] for m in modes)
                elif kind == "mx":
                    ops.MeasureX | regs[modes[0]]
                elif kind == "mxs":
                    ops.MeasureHomodyne(0.0, select=0.1) | regs[modes[0]]
                elif kind == "mhd":
                    ops.MeasureHD | regs[modes[0]]
                elif kind == "mf":
                    ops.MeasureFock() | tuple(regs[m] for m in modes)
                elif kind == "mfs":
                    ops.MeasureFock(select=[1] * len(modes)) | tuple(regs[m] for m in modes)
                elif kind == "mfd":
                    ops.MeasureFock(dark_counts=[2] * len(modes)) | tuple(regs[m] for m in modes)
                elif kind == "gp":
                    ops.Rgate(par_expr(regs, deps)) | regs[modes[0]]
                elif kind == "gd":
                    ops.Dgate(regs[deps[0]].par, regs[deps[1]].par if len(deps) > 1 else 0.3) | regs[modes[0]]
                elif kind == "g2p":
                    ops.BSgate(par_expr(regs, deps, product=True), 0.1) | (regs[modes[0]], regs[modes[1]])
                elif kind == "new":
                    refs = ops.New(len(modes))
                    if [r.ind for r in refs] != list(modes):
                        raise ValueError("inconsistent New")
                    regs += list(refs)
                elif kind == "del":
                    ops.Del | tuple(regs[m] for m in modes)
                else:
                    raise ValueError(kind)
    except Exception:
        return None
    return prog


def circuit_of(n, cmds):
    """(prog, circuit as a list of Commands aligned with cmds) — commands without dependencies are inserted by hand."""
    prog = build(n, [c for c in cmds if c[0] != "nd"])
    if prog is None:
        return None, None
    circ = list(prog.circuit)
    for i, c in enumerate(cmds):
        if c[0] == "nd":
            circ.insert(i, pu.Command(ops.Rgate(0.1), []))
    if len(circ) != len(cmds):
        return None, None
    return prog, circ


def spec_deps(c):
    kind, modes, dep = c
    if kind == "nd":
        return []
    d = list(modes)
    for x in dep_list(dep):
        if x not in d:
            d.append(x)
    return d


def enc_cmd(i, c, mark):
    return "(mkCmd %d %s %s %s)" % (i, coq.coq_list(spec_deps(c), str), coq.coq_list(list(c[1]), str), coq.coq_bool(mark))


def enc_list(idxs, cmds, marks):
    return coq.coq_list([enc_cmd(i, cmds[i], marks[i]) for i in idxs])


# ------------------------------------------------------------------------------------------------------
# the harness's own reading of a spec (used for oracles, signatures and replays; the model comparison is done in Coq)

def py_wires(cmds):
    w = {}
    for i, c in enumerate(cmds):
        for m in spec_deps(c):
            w.setdefault(m, []).append(i)
    return w


def py_edges(cmds):
    e = set()
    for q in py_wires(cmds).values():
        e.update(zip(q, q[1:]))
    return sorted(e)


def py_check_lin(cmds, out):
    """None if `out` (indices) is a dependency-respecting permutation of the commands with dependencies, else the reason."""
    deps = [spec_deps(c) for c in cmds]
    nodes = [i for i in range(len(cmds)) if deps[i]]
    if len(set(out)) != len(out):
        return "command-duplicated"
    if set(nodes) - set(out):
        return "command-lost"
    if set(out) - set(nodes):
        return "command-extra"
    for w, seq in py_wires(cmds).items():
        if [i for i in out if w in deps[i]] != seq:
            return "wire-order"
    return None


def descendants(cmds):
    """idx -> set of strict descendants in the spec DAG."""
    G = nx.DiGraph()
    G.add_nodes_from(range(len(cmds)))
    G.add_edges_from(py_edges(cmds))
    return {i: nx.descendants(G, i) for i in G.nodes}


def leading_part(cmds, marks):
    """The leading part group_operations must return (as a set): the unmarked commands no marked command precedes.
    (A lexicographic topological sort with the unmarked commands first takes every available unmarked command before
    any marked one, so this set does not depend on how ties are broken.)"""
    desc = descendants(cmds)
    tainted = set()
    for i, m in enumerate(marks):
        if m:
            tainted.add(i)
            tainted |= desc[i]
    return {i for i in range(len(cmds)) if spec_deps(cmds[i]) and i not in tainted}


def gbs_oracle(cmds):
    """None if the circuit is a GBS circuit (every Fock measurement can be moved to the end, no mode is measured twice), else why not."""
    mf = [i for i, c in enumerate(cmds) if c[0] in MF]
    if not mf:
        return "no-fock-measurement"
    desc = descendants(cmds)
    for i in mf:
        if any(cmds[j][0] not in MF for j in desc[i]):
            return "operation-after-measurement"
    seen = set()
    for i in mf:
        if seen & set(cmds[i][1]):
            return "measured-twice"
        seen |= set(cmds[i][1])
    return None


def family(c):
    """Merge family of a command the optimiser may merge with a neighbour: plain single-mode gates, and single-mode gates whose
    parameter is a measured value of the very mode they act on (they sit on one wire only).  None: never merged."""
    if c[0] in ("gp", "gd", "ga"):
        return ("D" if c[0] == "gd" else "R") if set(dep_list(c[2])) <= set(c[1]) else None
    return KINDS[c[0]][1]


def merge_free(cmds):
    """No two single-mode gates of one family are neighbours on a wire: the optimiser must return a permutation."""
    for q in py_wires(cmds).values():
        for a, b in zip(q, q[1:]):
            fa, fb = family(cmds[a]), family(cmds[b])
            if fa is not None and fa == fb:
                return False
    return True


# ------------------------------------------------------------------------------------------------------
# generators

def random_cmds(rng, n, length):
    out = []
    measured = set()
    deleted = set()
    for _ in range(length):
        r = rng.random()
        if n - len(deleted) >= 2 and r > 0.96:
            dm = rng.choice([m for m in range(n) if m not in deleted])
            deleted.add(dm)
            out.append(("del", [dm], None))
            continue
        if deleted:
            # the front end rejects any later use of a deleted mode: draw again on the live modes only
            live = [m for m in range(n) if m not in deleted]
            c = random_cmds(rng, len(live), 1)
            if c:
                kind, modes, dep = c[0]
                if kind == "gp" and (dep is None or dep >= len(live)):
                    continue
                modes = [live[m] for m in modes]
                dep = live[dep] if (dep is not None) else None
                if kind == "gp" and dep not in measured:
                    continue
                if kind in ("mx", "mf"):
                    measured.update(modes)
                out.append((kind, modes, dep))
            continue
        if r < 0.3:
            out.append(("g1", [rng.randrange(n)], None))
        elif r < 0.55 and n >= 2:
            out.append(("g2", rng.sample(range(n), 2), None))
        elif r < 0.7:
            m = rng.randrange(n)
            out.append(("mx", [m], None))
            measured.add(m)
        elif r < 0.8:
            k = rng.randint(1, min(2, n))
            ms = rng.sample(range(n), k)
            out.append(("mf", ms, None))
            measured.update(ms)
        elif measured:
            out.append(("gp", [rng.randrange(n)], rng.choice(sorted(measured))))
        else:
            out.append(("g1", [rng.randrange(n)], None))
    return out


def pick_register(rng):
    """(n, focus): register size and the modes the circuit lives on; about one third use indices >= 10 next to one-digit ones."""
    if rng.random() < 0.35:
        n = rng.randint(11, 13)
        k = rng.randint(2, 5)
        focus = set(rng.sample(range(n), k))
        focus.add(rng.randint(10, n - 1))
        focus.add(rng.randint(2, 9))
        return n, sorted(focus)
    n = rng.randint(1, 5)
    return n, list(range(n))


RICH_WEIGHTS = {"utils": [("single", 18), ("g2", 14), ("g3", 5), ("mx", 8), ("mhd", 3), ("mxs", 2), ("mf", 10), ("gp", 13), ("gd", 5), ("g2p", 5), ("ga", 2),
                          ("new", 5), ("del", 6), ("nd", 2)],
                "prog": [("single", 26), ("g2", 14), ("g3", 4), ("mx", 8), ("mhd", 3), ("mxs", 2), ("mf", 8), ("gp", 12), ("gd", 5), ("g2p", 5), ("ga", 2),
                         ("new", 4), ("del", 5)],
                "compile": [("single", 26), ("g2", 14), ("mx", 8), ("mxs", 2), ("mf", 8), ("gp", 12), ("gd", 5), ("g2p", 5), ("new", 4), ("del", 5)]}


def rich_cmds(rng, n, focus, length, palette="utils", singles=("g1", "g1i", "s1", "d1", "k1", "v1", "pv", "ps", "lc")):
    """Random command sequence accepted by the front end: every kind of KINDS, measured parameters of one to three modes,
    New-created modes, deletions (also of a mode whose measured value has been used)."""
    names, weights = zip(*RICH_WEIGHTS[palette])
    live = list(focus)
    total = n
    measured = []  # live modes that have been measured (a parameter can only be taken from an active reference)
    out = []
    for _ in range(length):
        kind = rng.choices(names, weights)[0]
        if kind in ("gp", "gd", "g2p", "ga") and not measured:
            kind = "single"
        if kind in ("g2", "g2p") and len(live) < 2:
            kind = "single"
        if kind == "g3" and len(live) < 3:
            kind = "single"
        if kind == "del" and len(live) < 2:
            kind = "single"
        if kind == "single":
            out.append((rng.choice(singles), [rng.choice(live)], None))
        elif kind == "g2":
            out.append(("g2", rng.sample(live, 2), None))
        elif kind == "g3":
            out.append(("g3", rng.sample(live, rng.randint(3, min(4, len(live)))), None))
        elif kind in ("mx", "mhd", "mxs"):
            m = rng.choice(live)
            out.append((kind, [m], None))
            if m not in measured:
                measured.append(m)
        elif kind == "mf":
            ms = rng.sample(live, rng.randint(1, min(4, len(live))))
            out.append((rng.choice(("mf", "mf", "mf", "mfs", "mfd")), ms, None))
            measured += [m for m in ms if m not in measured]
        elif kind == "gp":
            ds = rng.sample(measured, rng.randint(1, min(3, len(measured))))
            out.append(("gp", [rng.choice(live)], ds[0] if len(ds) == 1 and rng.random() < 0.5 else ds))
        elif kind in ("gd", "ga"):
            ds = rng.sample(measured, rng.randint(1, min(2, len(measured))))
            out.append((kind, [rng.choice(live)], ds))
        elif kind == "g2p":
            ds = rng.sample(measured, rng.randint(1, min(2, len(measured))))
            out.append(("g2p", rng.sample(live, 2), ds))
        elif kind == "new":
            k = rng.randint(1, 2)
            ms = list(range(total, total + k))
            total += k
            live += ms
            out.append(("new", ms, None))
        elif kind == "del":
            ms = rng.sample(live, 1 if len(live) < 3 or rng.random() < 0.7 else 2)
            # prefer deleting a mode whose measured value has been used by an earlier gate
            used = [d for c in out for d in dep_list(c[2]) if d in live]
            if used and rng.random() < 0.5:
                ms = [rng.choice(used)]
            for m in ms:
                live.remove(m)
                if m in measured:
                    measured.remove(m)
            out.append(("del", ms, None))
        elif kind == "nd":
            out.append(("nd", [], None))
    return out


MODE_SETS = [(3, (0, 1, 2)), (12, (2, 10, 11)), (13, (1, 12, 9))]


def lin_templates():
    """Deterministic sweep: small circuits around measured parameters, deletions and New-created modes, on every assignment of three
    roles to the modes of MODE_SETS (one-digit and two-digit register indices)."""
    out = []
    for n, S in MODE_SETS:
        for a, b, c in itertools.permutations(S):
            N = n  # index of the first New-created mode
            out += [
                (n, [("mx", [a], None), ("gp", [b], a), ("del", [a], None), ("g1", [b], None)]),
                (n, [("mx", [a], None), ("mx", [b], None), ("gp", [c], [a, b]), ("g1", [a], None), ("g1", [b], None), ("del", [a], None)]),
                (n, [("mx", [a], None), ("mx", [b], None), ("gd", [c], [a, b]), ("mx", [a], None), ("s1", [c], None)]),
                (n, [("mf", [a, b], None), ("g2p", [b, c], [a]), ("g1", [a], None)]),
                (n, [("g1", [a], None), ("new", [N], None), ("g1", [N], None), ("g2", [N, a], None), ("mx", [N], None), ("gp", [b], N), ("del", [N], None), ("g1", [b], None)]),
                (n, [("mx", [a], None), ("gp", [a], a), ("del", [a], None), ("g1", [b], None)]),
                (n, [("mx", [a], None), ("gp", [b], a), ("gp", [c], a), ("mx", [a], None), ("g1", [b], None)]),
                (n, [("mf", [a, b, c], None), ("g1", [c], None), ("g1", [b], None), ("g1", [a], None)]),
                (n, [("g3", [a, b, c], None), ("mhd", [b], None), ("ga", [c], [b]), ("del", [b], None), ("g1", [c], None)]),
                (n, [("new", [N, N + 1], None), ("g2", [N + 1, a], None), ("del", [N, b], None), ("mx", [N + 1], None), ("g2p", [a, c], [N + 1]), ("nd", [], None)]),
                (n, [("mx", [a], None), ("gp", [b], a), ("g1", [c], None), ("gp", [c], a), ("del", [a], None), ("del", [b], None)]),
            ]
    return out


def gbs_templates():
    """Deterministic sweep of small GBS circuits (legal and illegal ones) on the same mode assignments."""
    out = []
    for n, S in MODE_SETS:
        for a, b, c in itertools.permutations(S):
            N = n
            out += [
                (n, [("ps", [a], None), ("g2", [a, b], None), ("mf", [a], None), ("mf", [b], None)]),
                (n, [("mf", [a], None), ("g1", [b], None), ("mf", [b], None)]),
                (n, [("mf", [a], None), ("gp", [b], a), ("mf", [b], None)]),
                (n, [("mf", [a], None), ("gp", [c], a), ("mf", [b], None)]),
                (n, [("mf", [a, b], None), ("mf", [b, c], None)]),
                (n, [("mf", [a], None), ("mf", [c], None), ("mf", [b], None)]),
                (n, [("g2", [a, b], None), ("mf", [c, a], None)]),
                (n, [("mx", [a], None), ("gp", [b], a), ("mf", [b, c], None)]),
                (n, [("mf", [a], None), ("del", [a], None), ("mf", [b], None)]),
                (n, [("del", [a], None), ("g2", [b, c], None), ("mf", [c, b], None)]),
                (n, [("del", [a], None), ("mf", [c], None), ("mf", [b], None)]),
                (n, [("new", [N], None), ("g2", [N, a], None), ("mf", [N, a], None), ("mf", [b], None)]),
                (n, [("mf", [a], None), ("g1", [a], None)]),
                (n, [("mf", [a], None), ("mx", [b], None), ("mf", [c], None)]),
                (n, [("mf", [a], None), ("mx", [b], None), ("gp", [c], b), ("mf", [c], None)]),
                (n, [("mf", [a, b], None), ("mf", [a], None)]),
            ]
    return out


def alphabet(n):
    al = [("g1", [m], None) for m in range(n)]
    al += [("g2", [a, b], None) for a in range(n) for b in range(n) if a != b]
    al += [("mx", [m], None) for m in range(n)]
    al += [("mf", [m], None) for m in range(n)]
    al += [("gp", [m], d) for m in range(n) for d in range(n) if m != d]
    return al


def count_linearisations(n_cmds, edges, cap=3):
    G = nx.DiGraph()
    G.add_nodes_from(range(n_cmds))
    G.add_edges_from(edges)
    cnt = 0
    for _ in nx.all_topological_sorts(G):
        cnt += 1
        if cnt >= cap:
            break
    return cnt


def random_topo(rng, n_cmds, edges):
    preds = {i: set() for i in range(n_cmds)}
    for a, b in edges:
        preds[b].add(a)
    done, out = set(), []
    while len(out) < n_cmds:
        avail = [i for i in range(n_cmds) if i not in done and preds[i] <= done]
        x = rng.choice(avail)
        out.append(x)
        done.add(x)
    return out


PREDICATES = ["mf", "rand", "g2", "measure", "param", "all", "none", "one"]


def make_marks(rng, cmds, mode):
    if mode == "mf":
        return [c[0] in MF for c in cmds]
    if mode == "rand":
        return [rng.random() < 0.3 for _ in cmds]
    if mode == "g2":
        return [c[0] == "g2" for c in cmds]
    if mode == "measure":
        return [c[0] in MEASURE for c in cmds]
    if mode == "param":
        return [c[0] in ("gp", "gd", "g2p", "ga") for c in cmds]
    if mode == "all":
        return [True for _ in cmds]
    if mode == "none":
        return [False for _ in cmds]
    k = rng.randrange(len(cmds)) if cmds else 0
    return [i == k for i in range(len(cmds))]


class InputModified(Exception):
    pass


def impl_views(circ, rounds=0):
    """Run the implementation's conversions on a list of Commands; everything is reported as command indices."""
    circ = list(circ)
    ids0 = [id(c) for c in circ]
    idx = {id(c): i for i, c in enumerate(circ)}
    if len(idx) != len(circ):
        raise AssertionError("same Command object twice")
    grid = pu.list_to_grid(circ)
    grid_ids = {w: [idx[id(c)] for c in q] for w, q in grid.items()}
    dag = pu.grid_to_DAG(grid)
    edges = sorted((idx[id(a)], idx[id(b)]) for a, b in dag.edges())
    nodes = sorted(idx[id(a)] for a in dag.nodes())
    dag_l = pu.list_to_DAG(iter(circ) if rounds % 2 else tuple(circ))  # the argument is documented as any iterable
    edges_l = sorted((idx[id(a)], idx[id(b)]) for a, b in dag_l.edges())
    nodes_l = sorted(idx[id(a)] for a in dag_l.nodes())
    out = [idx[id(c)] for c in pu.DAG_to_list(dag)]
    # second round trip
    cur = pu.DAG_to_list(pu.list_to_DAG(pu.DAG_to_list(dag)))
    out2 = [idx[id(c)] for c in cur]
    # further round trips, alternating the two routes list -> DAG
    for k in range(rounds):
        cur = pu.DAG_to_list(pu.grid_to_DAG(pu.list_to_grid(cur)) if k % 2 else pu.list_to_DAG(cur))
    out3 = [idx[id(c)] for c in cur]
    if [id(c) for c in circ] != ids0:
        raise InputModified("the conversions changed the list they were given")
    return {"grid": grid_ids, "edges": edges, "nodes": nodes, "edges_l": edges_l, "nodes_l": nodes_l, "outs": [out, out2, out3], "idx": idx}


def impl_group(circ, idx, marks):
    """group_operations under the predicate "the operation belongs to a marked command".  Operations such as MeasureX are shared
    objects, so marking one command marks every command with the same operation: the effective marks are returned."""
    pred_ids = {id(circ[i].op) for i in range(len(circ)) if marks[i]}
    ids0 = [id(c) for c in circ]
    arg = tuple(circ) if len(pred_ids) % 2 else circ  # any Sequence
    A, B, C = pu.group_operations(arg, lambda op: id(op) in pred_ids)
    if [id(c) for c in circ] != ids0:
        raise InputModified("group_operations changed the sequence it was given")
    eff = [id(c.op) in pred_ids for c in circ]
    return eff, ([idx[id(c)] for c in A], [idx[id(c)] for c in B], [idx[id(c)] for c in C])


COQ_HEAD = ["From Coq Require Import List Arith Bool.", "Import ListNotations.", "From SFV Require Import Base.Reorder C04.Model."]


def coq_check_lins(ctx, name, jobs):
    """jobs: list of (cmds, out idx list). Returns the verdicts of the proved validator check_linearisation (None if Coq failed)."""
    if not jobs:
        return []
    verdicts = []
    for si in range(0, len(jobs), 500):
        rows = []
        for cmds, out in jobs[si:si + 500]:
            mk = [False] * len(cmds)
            rows.append("check_linearisation %s %s" % (enc_list(list(range(len(cmds))), cmds, mk), enc_list(out, cmds, mk)))
        text = "\n".join(COQ_HEAD + ["Definition cases := [", ";\n".join(rows) + "].", "Eval vm_compute in cases."])
        ok, vals, raw = ctx.coq_eval("%s_%d" % (name, si // 500), text)
        if not ok:
            ctx.obligation("correspondence:%s:shard%d" % (name, si // 500), False, raw)
            return None
        verdicts += list(vals[0])
    return verdicts


def lin_cases(ctx):
    rng = ctx.rng
    cases = []
    # exhaustive small scope
    bounds = ctx.budget([(2, 3)], [(2, 4), (3, 3)])
    for n, L in bounds:
        al = alphabet(n)
        for length in range(0, L + 1):
            for seq in itertools.product(al, repeat=length):
                cases.append((n, list(seq), "exh"))
    n_exh = len(cases)
    for _ in range(ctx.budget(250, 2500)):
        n = rng.randint(1, 5)
        cases.append((n, random_cmds(rng, n, rng.randint(1, 14)), "rand"))
    for _ in range(ctx.budget(450, 3500)):
        n, focus = pick_register(rng)
        cases.append((n, rich_cmds(rng, n, focus, rng.randint(1, 14)), "rich"))
    cases += [(n, cmds, "tmpl") for n, cmds in lin_templates()]
    ctx.extra["exhaustive_cases_enumerated"] = n_exh
    return cases


def correspondence(ctx):
    rng = ctx.rng
    items = []  # per valid case: dict
    for n, cmds, fam in lin_cases(ctx):
        cmds = [tuple(c) for c in cmds]
        prog, circ = circuit_of(n, cmds)
        if prog is None:
            ctx.hist["rejected-by-frontend"] = ctx.hist.get("rejected-by-frontend", 0) + 1
            continue
        data = {"check": "lin", "n": n, "cmds": cmds}
        try:
            v = impl_views(circ, rounds=0 if fam == "exh" else rng.randint(1, 4))
        except Exception as e:
            ctx.counterexample("reorder:raises:%s" % type(e).__name__, "conversion raised %r" % e, data)
            continue
        modes = [rng.choice(["mf", "rand", "g2"])] if fam == "exh" else ["mf" if rng.random() < 0.5 else "measure", rng.choice(PREDICATES)]
        grps = []
        failed = False
        for mode in modes:
            marks = make_marks(rng, cmds, mode)
            try:
                grps.append(impl_group(circ, v["idx"], marks))
            except Exception as e:
                ctx.counterexample("group:raises:%s" % type(e).__name__, "group_operations raised %r" % e, dict(data, marks=marks))
                failed = True
                break
        if failed:
            continue
        v.update({"n": n, "cmds": cmds, "grps": grps, "fam": fam})
        items.append(v)
    # model side
    for si in range(0, len(items), 400):
        sh = items[si:si + 400]
        lines = COQ_HEAD + [
            "Definition report (ls : list cmd) (outs : list (list cmd)) (grps : list (list cmd * list cmd * list cmd * list cmd)) :=",
            "  (map (fun w => (w, wire_ids ls w)) (all_wires ls), edges_ids ls, ids (nodes cmd cdeps ls), map (check_linearisation ls) outs,",
            "   map (fun g => match g with (s, a, b, c) => check_group s a b c end) grps).",
            "Definition cases := ["]
        rows = []
        for it in sh:
            cm = it["cmds"]
            allidx = list(range(len(cm)))
            mk0 = it["grps"][0][0]
            outs = coq.coq_list([enc_list(o, cm, mk0) for o in it["outs"]])
            grps = coq.coq_list(["(%s, %s, %s, %s)" % (enc_list(allidx, cm, mk), enc_list(g[0], cm, mk), enc_list(g[1], cm, mk), enc_list(g[2], cm, mk))
                                 for mk, g in it["grps"]])
            rows.append("report %s %s %s" % (enc_list(allidx, cm, mk0), outs, grps))
        lines.append(";\n".join(rows) + "].")
        lines.append("Eval vm_compute in cases.")
        ok, vals, raw = ctx.coq_eval("cases_lin_%d" % (si // 400), "\n".join(lines))
        if not ok:
            ctx.obligation("correspondence:reorder:shard%d" % (si // 400), False, raw)
            return
        for it, val in zip(sh, vals[0]):
            grid_m, edges_m, nodes_m, ok_outs, ok_grps = val
            grid_m = {w: ids for w, ids in grid_m}
            edges_m = sorted(set(tuple(e) for e in edges_m))
            cmds = it["cmds"]
            nlin = count_linearisations(len(cmds), it["edges"])
            anymark = any(any(mk) for mk, _ in it["grps"])
            nontriv = nlin >= 2 and (any(c[0] in ("gp", "gd", "g2p", "ga") for c in cmds) or anymark)
            big = any(m >= 10 for c in cmds for m in spec_deps(c))
            ctx.case({"n": it["n"], "cmds": cmds, "marks": it["grps"][0][0]}, nontrivial=nontriv,
                     bucket="%s-len%d%s" % (it["fam"], min(len(cmds), 8), "-ge10" if big else ""))
            data = {"check": "lin", "n": it["n"], "cmds": cmds, "marks": it["grps"][0][0]}
            if {w: q for w, q in it["grid"].items() if q} != {w: q for w, q in grid_m.items() if q}:
                ctx.counterexample("grid:differs", "list_to_grid does not put each command on exactly its dependency wires in order: impl %s vs model %s" % (it["grid"], grid_m), data)
                continue
            if sorted(set(it["edges"])) != edges_m:
                ctx.counterexample("dag:edges-differ", "grid_to_DAG edges %s differ from consecutive-on-a-wire pairs %s" % (it["edges"], edges_m), data)
                continue
            if sorted(nodes_m) != it["nodes"]:
                ctx.counterexample("dag:nodes-differ", "DAG nodes %s differ from commands with dependencies %s" % (it["nodes"], nodes_m), data)
                continue
            if sorted(set(it["edges_l"])) != edges_m or it["nodes_l"] != sorted(nodes_m):
                ctx.counterexample("list_to_DAG:differs", "list_to_DAG gives edges %s / nodes %s, the model %s / %s" % (it["edges_l"], it["nodes_l"], edges_m, sorted(nodes_m)), data)
                continue
            with_deps = [i for i in range(len(cmds)) if spec_deps(cmds[i])]
            if sorted(it["nodes"]) != with_deps:
                ctx.counterexample("dag:commands-lost", "commands with a dependency wire are dropped by the list->DAG->list round trip", data)
            if not all(ok_outs):
                why = next((py_check_lin(cmds, o) for o, okk in zip(it["outs"], ok_outs) if not okk), None)
                ctx.counterexample("toposort:order-violated", "DAG_to_list output %s (or a re-sorted form %s / %s) is not a dependency-respecting permutation of the input (%s)"
                                   % (it["outs"][0], it["outs"][1], it["outs"][2], why), data)
            for (mk, g), okg in zip(it["grps"], ok_grps):
                gdata = dict(data, marks=mk)
                if not okg:
                    ctx.counterexample("group:invalid", "group_operations returned A=%s B=%s C=%s violating the promised partition / order (marks %s)" % (g + (mk,)), gdata)
                    break
                lead = leading_part(cmds, mk)
                if set(g[0]) != lead:
                    ctx.disagreement("group:leading-part-not-maximal", "group_operations returned A=%s although exactly the unmarked commands %s have no marked "
                                     "command before them (marks %s): commands that can be moved in front of the marked ones were left behind, or the reverse"
                                     % (g[0], sorted(lead), mk), gdata)
                    break
    ctx.traces += len(items)
    # validator completeness / discrimination on random legal and illegal linearisations
    lines = COQ_HEAD + ["Definition cases := ["]
    rows, expect = [], []
    pool = [it for it in items if len(it["cmds"]) >= 3]
    for _ in range(min(ctx.budget(150, 1000), len(pool))):
        it = rng.choice(pool)
        cm, mk = it["cmds"], it["grps"][0][0]
        with_deps = [i for i in range(len(cm)) if spec_deps(cm[i])]
        lin = [i for i in random_topo(rng, len(cm), it["edges"]) if i in with_deps]
        rows.append("check_linearisation %s %s" % (enc_list(list(range(len(cm))), cm, mk), enc_list(lin, cm, mk)))
        expect.append(True)
        if it["edges"]:
            a, b = rng.choice(it["edges"])
            bad = list(lin)
            ia, ib = bad.index(a), bad.index(b)
            bad[ia], bad[ib] = bad[ib], bad[ia]
            rows.append("check_linearisation %s %s" % (enc_list(list(range(len(cm))), cm, mk), enc_list(bad, cm, mk)))
            expect.append(False)
    if rows:
        lines.append(";\n".join(rows) + "].")
        lines.append("Eval vm_compute in cases.")
        ok, vals, raw = ctx.coq_eval("cases_validator", "\n".join(lines))
        if not ok:
            ctx.obligation("correspondence:validator", False, raw)
            return
        wrong = [i for i, (v, e) in enumerate(zip(vals[0], expect)) if v != e]
        ctx.obligation("validator-discriminates", not wrong, "validator verdict differs from construction on %d of %d linearisations" % (len(wrong), len(expect)))
        ctx.extra["validator_linearisations"] = len(expect)


# ------------------------------------------------------------------------------------------------------
# GBS.compile

def remap_case(rng, n, cmds):
    """The same circuit on a register of 11-13 modes, the original modes sent to arbitrary distinct indices (one of them >= 10)."""
    n2 = rng.randint(11, 13)
    tgt = rng.sample(range(n2), n)
    if n >= 2 and not any(t >= 10 for t in tgt):
        tgt[rng.randrange(n)] = rng.choice([t for t in range(10, n2) if t not in tgt])
    if n >= 2 and not any(2 <= t <= 9 for t in tgt):
        k = rng.choice([i for i in range(n) if tgt[i] < 10] or [0])
        tgt[k] = rng.choice([t for t in range(2, 10) if t not in tgt])
    f = lambda m: tgt[m] if m < n else m - n + n2
    out = []
    for kind, modes, dep in cmds:
        d = None if dep is None else [f(x) for x in dep] if isinstance(dep, (list, tuple)) else f(dep)
        out.append((kind, [f(m) for m in modes], d))
    return n2, out


def gbs_case(rng):
    n = rng.randint(1, 4)
    if n >= 2 and rng.random() < 0.25:
        # two (or three) Fock measurements on disjoint mode sets with commands in between: plain gates on measured / unmeasured modes,
        # gates fed by an earlier photon count acting on a measured or a not-yet-measured mode.  Nothing but another MeasureFock may sit
        # between the measurements in the source for the collection to be legal.
        cmds = [("g1", [rng.randrange(n)], None) for _ in range(rng.randint(0, 2))]
        modes = list(range(n))
        rng.shuffle(modes)
        cut = rng.randint(1, n - 1)
        groups = [modes[:cut], modes[cut:]]
        measured = []
        for gi, grp in enumerate(groups):
            cmds.append(("mf", grp, None))
            measured += grp
            if gi + 1 < len(groups):
                for _ in range(rng.randint(0, 2)):
                    kind = rng.choice(["gp", "gp", "g1"])
                    tgt = rng.choice(modes if rng.random() < 0.3 else groups[gi + 1])
                    cmds.append((kind, [tgt], rng.choice(measured) if kind == "gp" else None))
        return n, cmds
    cmds = []
    for _ in range(rng.randint(0, 5)):
        if rng.random() < 0.6 or n < 2:
            cmds.append(("g1", [rng.randrange(n)], None))
        else:
            cmds.append(("g2", rng.sample(range(n), 2), None))
    k = rng.randint(0, 3)
    for _ in range(k):
        ms = rng.sample(range(n), rng.randint(1, n))
        pos = rng.randint(0, len(cmds))
        cmds.insert(pos, ("mf", ms, None))
        if rng.random() < 0.4:
            # feed-forward: a gate whose parameter is one of these photon counts, on any mode (measured or not), somewhere later —
            # it can never be moved in front of the measurement it depends on, whichever mode it acts on
            cmds.insert(rng.randint(pos + 1, len(cmds)), ("gp", [rng.randrange(n)], rng.choice(ms)))
    if n >= 2 and rng.random() < 0.35:
        # a deleted mode: every later command must avoid it (the front end rejects uses of a deleted mode)
        dm = rng.randrange(n)
        pos = rng.randint(0, len(cmds))
        kept = cmds[:pos] + [("del", [dm], None)] + [c for c in cmds[pos:] if dm not in c[1]]
        cmds = kept
    return n, cmds


def gbs_rich(rng):
    """A Gaussian part (gates of several families, homodyne / heterodyne measurements and gates fed by them, New-created and deleted modes)
    and Fock measurements on subsets — mostly a legal GBS circuit, sometimes spoiled by one late command."""
    n = rng.randint(1, 4)
    live = list(range(n))
    total = n
    cmds = []
    hom = []
    for _ in range(rng.randint(0, 7)):
        r = rng.random()
        if r < 0.35:
            cmds.append((rng.choice(["g1", "s1", "d1", "ps", "pv", "lc"]), [rng.choice(live)], None))
        elif r < 0.55 and len(live) >= 2:
            cmds.append(("g2", rng.sample(live, 2), None))
        elif r < 0.67:
            m = rng.choice(live)
            cmds.append((rng.choice(["mx", "mhd"]), [m], None))
            if m not in hom:
                hom.append(m)
        elif r < 0.82 and hom:
            ds = rng.sample(hom, rng.randint(1, min(2, len(hom))))
            cmds.append((rng.choice(["gp", "gd"]), [rng.choice(live)], ds))
        elif r < 0.90:
            k = rng.randint(1, 2)
            ms = list(range(total, total + k))
            total += k
            live += ms
            cmds.append(("new", ms, None))
        elif len(live) >= 2:
            m = rng.choice(live)
            live.remove(m)
            if m in hom:
                hom.remove(m)
            cmds.append(("del", [m], None))
    # Fock measurements on disjoint subsets of the live modes (not necessarily all of them), inserted at random places after
    # the last command touching their modes would be legal; inserting them anywhere tests both outcomes
    pool = list(live)
    rng.shuffle(pool)
    groups = []
    while pool and len(groups) < 3 and (not groups or rng.random() < 0.6):
        k = rng.randint(1, len(pool))
        groups.append(sorted(pool[:k]) if rng.random() < 0.5 else pool[:k])
        pool = pool[k:]
    legal = rng.random() < 0.6
    for g in groups:
        last = max([i for i, c in enumerate(cmds) if set(spec_deps(c)) & set(g)] + [-1])
        pos = rng.randint(last + 1, len(cmds)) if legal else rng.randint(0, len(cmds))
        # keep New before any use of its modes
        first_ok = max([i for i, c in enumerate(cmds) if c[0] == "new" and set(c[1]) & set(g)] + [-1]) + 1
        cmds.insert(max(pos, first_ok), ("mf", g, None))
    r = rng.random()
    measured = [m for g in groups for m in g]
    if measured and r < 0.12:
        cmds.append(("gp", [rng.choice(live)], rng.sample(measured, rng.randint(1, min(2, len(measured))))))
    elif measured and r < 0.2:
        cmds.append(("mf", [rng.choice(measured)], None))
    elif measured and r < 0.27:
        cmds.append((rng.choice(["del", "g1", "mx"]), [rng.choice(measured)], None))
    return n, cmds


def fock_options(c):
    """mode -> (post-selected value or None, dark counts) of a Fock measurement command (None for any other command)."""
    if not isinstance(c.op, ops.MeasureFock):
        return None
    sel = list(c.op.select) if c.op.select is not None else [None] * len(c.reg)
    dark = list(c.op.dark_counts) if c.op.dark_counts is not None else [0] * len(c.reg)
    return {r.ind: (s, d or 0) for r, s, d in zip(c.reg, sel, dark)}


def spec_fock_options(cmds):
    o = {}
    for c in cmds:
        if c[0] in MF:
            for m in c[1]:
                o[m] = (1 if c[0] == "mfs" else None, 2 if c[0] == "mfd" else 0)
    return o


def run_gbs(n, cmds, optimize=False):
    prog = build(n, cmds)
    if prog is None:
        return None
    idx = {id(c): i for i, c in enumerate(prog.circuit)}
    ids0 = [id(c) for c in prog.circuit]
    try:
        out = prog.compile(compiler="gbs", optimize=optimize)
    except CircuitError as e:
        if [id(c) for c in prog.circuit] != ids0:
            raise InputModified("Program.compile changed the circuit of the source program")
        return ("error", str(e))
    if [id(c) for c in prog.circuit] != ids0:
        raise InputModified("Program.compile changed the circuit of the source program")
    res = []
    for c in out.circuit:
        res.append((c.op.__class__.__name__, [r.ind for r in c.reg], idx.get(id(c)), fock_options(c)))
    # compiling the compiled program once more must give the same circuit again (one final measurement, same Gaussian part)
    again = out.compile(compiler="gbs")
    res2 = [(c.op.__class__.__name__, [r.ind for r in c.reg]) for c in again.circuit]
    if sorted(map(repr, res2)) != sorted(map(repr, [x[:2] for x in res])) or (res2 and res2[-1] != res[-1][:2]):
        raise InputModified("compiling the compiled GBS program again changed its commands: %s -> %s" % ([x[:2] for x in res], res2))
    return ("ok", res)


def judge_gbs_output(n, cmds, outc, ms):
    """The compiled circuit against the source: (signature, text) of the first thing wrong, or None.
    ms = sorted union of the Fock-measured modes."""
    meas = [c for c in outc if c[0] == "MeasureFock"]
    others = [c for c in outc if c[0] != "MeasureFock"]
    if len(meas) != 1 or outc[-1][0] != "MeasureFock" or meas[0][1] != ms:
        return "gbs:measurement-collection", "compiled circuit measures %s, expected one final MeasureFock on %s" % ([m[:2] for m in meas], ms)
    src = [i for i, c in enumerate(cmds) if c[0] not in MF]
    exp = [(KINDS[cmds[i][0]][0], list(cmds[i][1])) for i in src]
    if sorted(map(repr, [c[:2] for c in others])) != sorted(map(repr, exp)):
        return "gbs:commands-changed", "compiled Gaussian part %s differs from the source's %s" % ([c[:2] for c in others], exp)
    got = [c[2] for c in others]
    if None in got or sorted(got) != src:
        return "gbs:commands-changed", "the compiled Gaussian part does not consist of the source's Command objects, each once: %s" % got
    deps = [spec_deps(c) for c in cmds]
    for w in sorted(py_wires(cmds)):
        if [i for i in got if w in deps[i]] != [i for i in src if w in deps[i]]:
            return "gbs:wire-order", "order of the commands depending on mode %d changed: %s" % (w, got)
    # last, so that this recorded defect never hides another failure on the same input
    if meas[0][3] != spec_fock_options(cmds):
        return ("gbs:measurement-options-dropped", "the collected Fock measurement has the options (post-selected value, dark counts) %s per mode, the measurements "
                "of the source %s: the compiled program does not perform the same measurement" % (meas[0][3], spec_fock_options(cmds)))
    return None


def search_gbs(ctx):
    """GBS.compile on the implementation vs the model's collection; plus end-to-end checks."""
    rng = ctx.rng
    cases = []
    tmpl = gbs_templates()
    for k in range(len(tmpl) + ctx.budget(320, 3200)):
        if k < len(tmpl):
            n, cmds = tmpl[k]
            fam = "gbstmpl"
        else:
            n, cmds = gbs_case(rng) if k % 2 == 0 else gbs_rich(rng)
            fam = "gbs" if k % 2 == 0 else "gbsrich"
        if k >= len(tmpl) and rng.random() < 0.3:
            n, cmds = remap_case(rng, n, cmds)
            fam += "-ge10"
        if k >= len(tmpl) and rng.random() < 0.15:
            # post-selected Fock measurements / dark counts (never both in one program: they cannot be combined at all)
            k2 = rng.choice(("mfs", "mfd"))
            cmds = [(k2 if c[0] == "mf" and rng.random() < 0.6 else c[0], c[1], c[2]) for c in cmds]
            fam += "-opts"
        cmds = [tuple(c) for c in cmds]
        opt = merge_free(cmds) and rng.random() < 0.3
        try:
            r = run_gbs(n, cmds, optimize=opt)
        except Exception as e:
            ctx.counterexample("gbs:raises:%s" % type(e).__name__, "GBS compile raised %r" % e, {"check": "gbs", "n": n, "cmds": cmds, "optimize": opt})
            continue
        if r is None:
            ctx.hist["gbs-rejected-by-frontend"] = ctx.hist.get("gbs-rejected-by-frontend", 0) + 1
            continue
        cases.append((n, cmds, r, opt, fam))
    if not cases:
        return
    # model: group via impl's own group_operations is validated in correspondence; here the collection on B
    lines = COQ_HEAD + ["Definition res (r : gbs_result) : nat * list nat := match r with GbsError e => (e, []) | GbsOk _ m => (0, m) end.", "Definition cases := ["]
    rows = []
    meta = []
    for n, cmds, r, opt, fam in cases:
        prog = build(n, cmds)
        circ = prog.circuit
        idx = {id(c): i for i, c in enumerate(circ)}
        A, B, C = pu.group_operations(circ, lambda op: isinstance(op, ops.MeasureFock))
        marks = [c[0] in MF for c in cmds]
        ia, ib, ic = ([idx[id(c)] for c in X] for X in (A, B, C))
        rows.append("res (gbs_collect %s %s %s)" % (enc_list(ia, cmds, marks), enc_list(ib, cmds, marks), enc_list(ic, cmds, marks)))
        meta.append((ia, ib, ic))
    lines.append(";\n".join(rows) + "].")
    lines.append("Eval vm_compute in cases.")
    ok, vals, raw = ctx.coq_eval("cases_gbs", "\n".join(lines))
    if not ok:
        ctx.obligation("correspondence:gbs", False, raw)
        return
    for (n, cmds, r, opt, fam), (err, ms), (ia, ib, ic) in zip(cases, vals[0], meta):
        nmf = sum(1 for c in cmds if c[0] in MF)
        ctx.case({"n": n, "cmds": cmds, "impl": r[0]}, nontrivial=nmf >= 2 or (nmf == 1 and r[0] == "ok" and len(cmds) > 2), bucket="%s-%s" % (fam, r[0]))
        data = {"check": "gbs", "n": n, "cmds": cmds, "optimize": opt}
        why = gbs_oracle(cmds)
        if r[0] == "error":
            if any(c[0] in ("mfs", "mfd") for c in cmds):
                pass  # refusing to combine measurements with options is legitimate
            elif err == 0:
                ctx.counterexample("gbs:rejects-valid", "GBS compile raised %r on a circuit the model accepts" % r[1], data)
            elif why is None and not any(c[0] in ("mfs", "mfd") for c in cmds):
                ctx.counterexample("gbs:rejects-valid:grouping", "GBS compile raised %r although every Fock measurement can be moved to the end of the circuit and no mode "
                                   "is measured twice (group_operations returned A=%s B=%s C=%s)" % (r[1], ia, ib, ic), data)
            continue
        if err != 0:
            ctx.counterexample("gbs:accepts-invalid:%d" % err, "GBS compile accepted a circuit that must be rejected (model error %d)" % err, data)
            continue
        if why is not None:
            ctx.counterexample("gbs:accepts-invalid:%s" % why, "GBS compile accepted a circuit that is not a GBS circuit (%s)" % why, data)
            continue
        bad = judge_gbs_output(n, cmds, r[1], ms)
        if bad:
            ctx.counterexample(bad[0], bad[1], data)
    ctx.traces += len(cases)


# ------------------------------------------------------------------------------------------------------
# Program.optimize / Program.compile / Program.equivalence / gaussian_merge

def judge_relinearised(cmds, circ_in, circ_out, exact):
    """circ_out (Commands) as a re-linearisation of circ_in (aligned with cmds).  exact: no merge is possible, the output must be a
    permutation.  Otherwise plain single-mode gates may have been merged or cancelled; everything else must survive as the same object,
    in the same order on every wire, and a new command can only be a plain single-mode gate.  Returns (reason, text) or None; second
    value: the index list (None for new commands)."""
    idx = {id(c): i for i, c in enumerate(circ_in)}
    got = [idx.get(id(c)) for c in circ_out]
    known = [i for i in got if i is not None]
    if exact:
        if None in got:
            return ("command-changed", "the output contains a command that is not in the input: %s" % got), got
        why = py_check_lin(cmds, got)
        return ((why, "output order %s" % got) if why else None), got
    if len(set(known)) != len(known):
        return ("command-duplicated", "a command appears twice: %s" % got), got
    deps = [spec_deps(c) for c in cmds]
    keep = [i for i, c in enumerate(cmds) if family(c) is None]
    if set(keep) - set(known):
        return ("command-lost", "commands %s (not mergeable) are missing from the output" % sorted(set(keep) - set(known))), got
    for w in sorted(py_wires(cmds)):
        if [i for i in known if w in deps[i]] != [i for i in range(len(cmds)) if i in set(known) and w in deps[i]]:
            return ("wire-order", "the surviving commands depending on mode %d changed their order: %s" % (w, got)), got
    for c, i in zip(circ_out, got):
        if i is None:
            dn = sorted({r.ind for r in c.reg} | {r.ind for r in c.op.measurement_deps})
            if len(c.reg) != 1 or len(dn) != 1 or c.op.__class__.__name__ not in ("Rgate", "Sgate", "Dgate", "Kgate", "Vgate", "Vacuum", "Squeezed", "LossChannel"):
                return ("foreign-command", "the output contains the new command %s, which cannot come from merging two plain single-mode gates" % c), got
    # per wire the number of commands can only shrink
    cnt_in = {w: len(q) for w, q in py_wires(cmds).items()}
    cnt_out = {}
    for c in circ_out:
        for m in {r.ind for r in c.reg} | {r.ind for r in c.op.measurement_deps}:
            cnt_out[m] = cnt_out.get(m, 0) + 1
    for w, k in cnt_out.items():
        if k > cnt_in.get(w, 0):
            return ("command-duplicated", "mode %d carries %d commands after the pass, %d before" % (w, k, cnt_in.get(w, 0))), got
    return None, got


def ref_graph(cmds):
    G = nx.DiGraph()
    for i, c in enumerate(cmds):
        name = KINDS[c[0]][0]
        w = tuple(c[1]) if len(c[1]) > 1 and c[0] not in MEASURE else 0
        G.add_node(i, l=(name, w))
    G.add_edges_from(py_edges(cmds))
    return G


def ref_equivalent(c1, c2):
    return nx.is_isomorphic(ref_graph(c1), ref_graph(c2), node_match=lambda a, b: a["l"] == b["l"])


def new_chain(cmds):
    ns = [i for i, c in enumerate(cmds) if c[0] == "new"]
    return list(zip(ns, ns[1:]))


def prog_case(rng, palette):
    n, focus = pick_register(rng)
    style = rng.random()
    if style < 0.45:
        singles = ("g1", "s1", "d1", "ps", "lc", "f1") if palette == "compile" else ("g1", "s1", "d1", "k1", "v1", "ps", "lc")  # few merges
    elif style < 0.75:
        singles = ("g1", "g1i")  # many merges and cancellations (wires may become empty)
    else:
        singles = ("g1", "g1i", "s1", "pv", "ps", "lc")
    return n, [tuple(c) for c in rich_cmds(rng, n, focus, rng.randint(1, 12), palette=palette, singles=singles)]


def run_relinearise(site, n, cmds, compiler=None, optimize=False):
    """(status, info): run one re-linearising entry point of Program and judge the result."""
    prog = build(n, cmds)
    if prog is None:
        return "rejected", None
    circ_in = list(prog.circuit)
    try:
        if site == "optimize":
            out = prog.optimize().circuit
        else:
            out = prog.compile(compiler=compiler, optimize=optimize, warn_connected=bool(len(cmds) % 2)).circuit
    except CircuitError as e:
        return "circuit-error", str(e)
    if [id(c) for c in prog.circuit] != [id(c) for c in circ_in]:
        raise InputModified("%s changed the circuit of the source program" % site)
    fourier = [i for i, c in enumerate(cmds) if c[0] == "f1"]
    exact = ((site == "compile" and not optimize) or merge_free(cmds)) and not fourier
    bad, got = judge_relinearised(cmds, circ_in, list(out), exact)
    if bad is None and site == "compile" and set(fourier) & set(got):
        bad = ("not-decomposed", "the compiled circuit still contains the Fourier gate(s) %s, which this compiler decomposes" % sorted(set(fourier) & set(got)))
    if site == "compile" and not optimize and bad is None and got != list(range(len(cmds))):
        # without the optimiser these compilers hand the decomposed sequence through: any other order is still legal, just noted
        pass
    return ("bad" if bad else "ok"), (bad, got, exact)


def search_prog(ctx):
    rng = ctx.rng
    jobs = []  # (signature prefix, data, cmds, got) validated in Coq as well
    for k in range(ctx.budget(340, 2600)):
        site = "optimize" if k % 2 == 0 else "compile"
        n, cmds = prog_case(rng, "prog" if site == "optimize" else "compile")
        compiler, opt = None, False
        if site == "compile":
            compiler = rng.choice(["gaussian", "fock", "bosonic"])
            opt = rng.random() < 0.6
        data = {"check": site, "n": n, "cmds": cmds, "compiler": compiler, "optimize": opt}
        name = site if site == "optimize" else "compile:%s%s" % (compiler, "+optimize" if opt else "")
        try:
            st, info = run_relinearise(site, n, cmds, compiler, opt)
        except Exception as e:
            ctx.counterexample("%s:raises:%s" % (site, type(e).__name__), "%s raised %r" % (name, e), data)
            continue
        if st in ("rejected", "circuit-error"):
            ctx.hist["%s-%s" % (site, st)] = ctx.hist.get("%s-%s" % (site, st), 0) + 1
            continue
        bad, got, exact = info
        mf_ = merge_free(cmds)
        ctx.case({"site": name, "n": n, "cmds": cmds}, nontrivial=len(py_edges(cmds)) >= 2 and any(c[0] in ("gp", "gd", "g2p", "ga", "del", "new") for c in cmds),
                 bucket="%s-%s" % (site, "exact" if exact else "merging"))
        if bad:
            ctx.counterexample("%s:%s" % (site, bad[0]), "%s: %s" % (name, bad[1]), data)
            continue
        if exact:
            jobs.append(("%s:validator" % site, data, cmds, got))
    verdicts = coq_check_lins(ctx, "cases_prog", [(j[2], j[3]) for j in jobs])
    if verdicts is not None:
        for (sig, data, cmds, got), v in zip(jobs, verdicts):
            if not v:
                ctx.counterexample(sig, "the proved validator rejects the output order %s" % got, data)
    ctx.traces += len(jobs)


def equiv_pair(rng, n, cmds, legal):
    """A second spec: a random legal re-linearisation, or one with two dependent commands exchanged."""
    edges = py_edges(cmds)
    order = random_topo(rng, len(cmds), edges + new_chain(cmds))
    if not legal:
        if not edges:
            return None
        a, b = rng.choice(edges)
        ia, ib = order.index(a), order.index(b)
        order[ia], order[ib] = order[ib], order[ia]
    return [cmds[i] for i in order]


def run_equiv(n, c1, c2):
    p1, p2 = build(n, c1), build(n, c2)
    if p1 is None or p2 is None:
        return None
    return bool(p1.equivalence(p2, compare_params=False)), bool(p2.equivalence(p1, compare_params=False))


def search_equiv(ctx):
    rng = ctx.rng
    for k in range(ctx.budget(160, 1600)):
        n, focus = pick_register(rng)
        cmds = [tuple(c) for c in rich_cmds(rng, n, focus, rng.randint(2, 9), palette="prog", singles=("g1", "s1", "d1", "k1"))]
        # what equivalence makes of unbound beam-splitter parameters and of per-mode measurement options is C18's subject: left out here,
        # so that only the dependency structure decides
        plain = {"mfs": "mf", "mfd": "mf", "mxs": "mx"}
        cmds = [(plain.get(c[0], c[0]), c[1], c[2]) for c in cmds if c[0] != "g2p"]
        if build(n, cmds) is None:
            continue
        legal = k % 2 == 0
        c2 = equiv_pair(rng, n, cmds, legal)
        if c2 is None:
            continue
        data = {"check": "equiv", "n": n, "cmds": cmds, "cmds2": c2}
        try:
            r = run_equiv(n, cmds, c2)
        except Exception as e:
            ctx.counterexample("equivalence:raises:%s" % type(e).__name__, "Program.equivalence raised %r" % e, data)
            continue
        if r is None:
            continue
        exp = ref_equivalent(cmds, c2)
        ctx.case({"site": "equivalence", "n": n, "cmds": cmds, "cmds2": c2}, nontrivial=len(py_edges(cmds)) >= 2, bucket="equiv-%s-%s" % ("legal" if legal else "swapped", exp))
        if legal and not exp:
            raise AssertionError("harness: a legal re-linearisation changed the reference DAG")
        if r[0] != r[1]:
            ctx.counterexample("equivalence:asymmetric", "a.equivalence(b) = %s but b.equivalence(a) = %s" % r, data)
        elif exp and not r[0]:
            ctx.counterexample("equivalence:rejects-relinearisation", "two linearisations of one dependency DAG are reported as not equivalent", data)
        elif not exp and r[0]:
            ctx.counterexample("equivalence:ignores-order", "exchanging two commands that share a mode or a measured parameter gives a program reported as equivalent", data)


GM_GAUSS = ("g1", "s1", "g2")
GM_NONG = ("k1", "v1")


def gmerge_case(rng):
    """Hybrid circuits of the two families in which gaussian_merge has no recorded defect (those are C11's): everything on one mode, or a
    displacement-free Gaussian block followed only by non-Gaussian gates.  Only the re-ordering is judged here."""
    if rng.random() < 0.5:
        n = rng.choice([1, 3, 12])
        m = n - 1
        cmds = [(rng.choice(("g1", "s1") if rng.random() < 0.6 else GM_NONG), [m], None) for _ in range(rng.randint(2, 8))]
        return n, cmds, "1mode"
    n = rng.randint(2, 4)
    cmds = []
    for _ in range(rng.randint(1, 6)):
        k = rng.choice(GM_GAUSS)
        cmds.append((k, rng.sample(range(n), 2) if k == "g2" else [rng.randrange(n)], None))
    for _ in range(rng.randint(1, 4)):
        cmds.append((rng.choice(GM_NONG), [rng.randrange(n)], None))
    return n, cmds, "block"


def run_gmerge(n, cmds):
    prog = build(n, cmds)
    if prog is None:
        return None
    circ_in = list(prog.circuit)
    out = list(prog.compile(compiler="gaussian_merge").circuit)
    idx = {id(c): i for i, c in enumerate(circ_in)}
    got = [idx.get(id(c)) for c in out]
    modes_out = [sorted(r.ind for r in c.reg) for c in out]
    return got, modes_out, [c.op.__class__.__name__ for c in out]


def judge_gmerge(cmds, got, modes_out, names):
    """Non-Gaussian commands are never merged: each survives once, in the same order on its mode; between two of them on a mode the
    output has a Gaussian command iff the input has one (a merged block may not jump over a non-Gaussian gate)."""
    keep = [i for i, c in enumerate(cmds) if c[0] in GM_NONG]
    known = [i for i in got if i is not None]
    if len(set(known)) != len(known):
        return "command-duplicated", "a command appears twice: %s" % got
    if set(keep) - set(known):
        return "command-lost", "non-Gaussian commands %s are missing" % sorted(set(keep) - set(known))
    for w in sorted(py_wires(cmds)):
        src = [("N", i) if cmds[i][0] in GM_NONG else ("G", None) for i in range(len(cmds)) if w in cmds[i][1]]
        dst = [("N", i) if (i is not None and cmds[i][0] in GM_NONG) else ("G", None) for i, ms in zip(got, modes_out) if w in ms]
        squeeze = lambda s: [x for j, x in enumerate(s) if x[0] == "N" or j == 0 or s[j - 1][0] == "N"]
        if squeeze(src) != squeeze(dst):
            return "wire-order", "on mode %d the pattern of non-Gaussian commands and Gaussian blocks changed from %s to %s" % (w, squeeze(src), squeeze(dst))
    return None


def search_gmerge(ctx):
    rng = ctx.rng
    for _ in range(ctx.budget(50, 500)):
        n, cmds, fam = gmerge_case(rng)
        cmds = [tuple(c) for c in cmds]
        data = {"check": "gmerge", "n": n, "cmds": cmds}
        try:
            r = run_gmerge(n, cmds)
        except CircuitError:
            continue
        except Exception as e:
            ctx.counterexample("gaussian_merge:raises:%s" % type(e).__name__, "gaussian_merge raised %r" % e, data)
            continue
        if r is None:
            continue
        ctx.case({"site": "gaussian_merge", "n": n, "cmds": cmds}, nontrivial=any(c[0] in GM_NONG for c in cmds) and any(c[0] in GM_GAUSS for c in cmds), bucket="gmerge-" + fam)
        bad = judge_gmerge(cmds, *r)
        if bad:
            ctx.counterexample("gaussian_merge:%s" % bad[0], "gaussian_merge (%s family): %s" % (fam, bad[1]), data)


def search(ctx):
    search_gbs(ctx)
    search_prog(ctx)
    search_equiv(ctx)
    search_gmerge(ctx)


# ------------------------------------------------------------------------------------------------------

def replay(ctx, data):
    d = data["data"]
    n, cmds = d["n"], [tuple(c) for c in d["cmds"]]
    kind = d.get("check")
    if kind == "gbs":
        r = run_gbs(n, cmds, optimize=bool(d.get("optimize")))
        print("gbs compile:", r)
        if r is None:
            return False
        why = gbs_oracle(cmds)
        if r[0] == "error":
            return why is None and not any(c[0] in ("mfs", "mfd") for c in cmds)
        if why is not None:
            return True
        ms = sorted(m for c in cmds if c[0] in MF for m in c[1])
        return judge_gbs_output(n, cmds, r[1], ms) is not None
    if kind in ("optimize", "compile"):
        try:
            st, info = run_relinearise(kind, n, cmds, d.get("compiler"), bool(d.get("optimize")))
        except Exception as e:
            print("raised", repr(e))
            return True
        print(st, info)
        return st == "bad"
    if kind == "equiv":
        c2 = [tuple(c) for c in d["cmds2"]]
        try:
            r = run_equiv(n, cmds, c2)
        except Exception as e:
            print("raised", repr(e))
            return True
        print("equivalence:", r, "reference:", ref_equivalent(cmds, c2))
        return r is not None and (r[0] != r[1] or r[0] != ref_equivalent(cmds, c2))
    if kind == "gmerge":
        try:
            r = run_gmerge(n, cmds)
        except CircuitError:
            return False
        except Exception as e:
            print("raised", repr(e))
            return True
        print("gaussian_merge:", r)
        return r is not None and judge_gmerge(cmds, *r) is not None
    prog, circ = circuit_of(n, cmds)
    if prog is None:
        print("front end rejects the sequence")
        return False
    try:
        v = impl_views(circ, rounds=3)
    except Exception as e:
        print("raised", repr(e))
        return True
    print("grid", v["grid"], "edges", v["edges"], "outs", v["outs"])
    # independent re-check in python: every wire keeps its order
    bad = False
    for o in v["outs"]:
        if py_check_lin(cmds, o) is not None:
            bad = True
    if {w: q for w, q in v["grid"].items() if q} != py_wires(cmds):
        bad = True
    if v["edges"] != py_edges(cmds) or v["edges_l"] != py_edges(cmds):
        bad = True
    marks = d.get("marks")
    if marks and len(marks) == len(cmds):
        try:
            marks, (A, B, C) = impl_group(circ, v["idx"], marks)
        except Exception as e:
            print("group_operations raised", repr(e))
            return True
        print("group", A, B, C)
        if py_check_lin(cmds, A + B + C) is not None or any(marks[i] for i in A + C) or (not B and C) or set(A) != leading_part(cmds, marks):
            bad = True
    return bad
