"""C07 — every simulated state is physical and gates conserve what they must."""
import numpy as np

from props import backends_common as bc
from props import gauss_common as gc
from props import bosonic_model as bm
from vlib import sfgen

PROP = "C07"
LEVEL = "proof"
COQ_DIRS = ["C07", "Bosonic"]
COQ_TARGETS = ["Gen/GaussCirc.vo", "Base/MatOps.vo", "Gen/GaussMat.vo", "C07/GaussPassive.vo", "C07/GaussProgram.vo", "Base/GaussTac.vo", "Base/PhaseSpace.vo", "C07/GaussPhysical.vo", "C07/Symplectic.vo"] + list(bm.COQ_TARGETS)
PROPERTIES_FILE = "Properties/C07.v"
EXTRA_PROPERTIES_FILES = [bm.PROPERTIES_FILE]
ALLOWED_AXIOMS = set()
TRANSLATORS = [gc.translate_gausscirc, gc.translate_gaussmat_fn]
RULE = ("(a) generated-function correspondence as in C05; (b) physicality search: random circuits (weak correlated prefix + 1-4 random "
        "commands, n = 1..4 modes, any ordered targets) on gaussian / bosonic / fock-pure / fock-mixed; checks: cov symmetric and "
        "cov + i*Omega >= 0, dm Hermitian PSD trace <= 1, bosonic weights sum to 1, purity preserved by unitaries, total photon number "
        "conserved by passive gates and not increased by loss; non-trivial = >= 2 modes and a command on a mode other than 0")
TRUSTED_BASE = [
    "Coq 8.16.1 kernel; vm_compute for evaluating generated functions at PrimFloat",
    "translator tools/translate_gauss.py (fail-closed; validated against GaussianModes at binary64 on every run)",
    "physicality search on the implementation is a test (numpy eigvalsh as oracle, tolerances 1e-7 / truncation-scaled)",
]
ASSUMPTIONS = ["uncertainty relation (V + i Omega >= 0) and Fock PSD are checked by search only, not proved (needs spectral theory)"]
MANIFEST_TEXT = ("Proved over any commutative ring, all register sizes / targets / parameters: each GaussianModes update (model regenerated each run) keeps "
                 "N Hermitian with real diagonal and M symmetric; rotation and beam splitter conserve total mean photon number; loss scales the target's photon "
                 "number by T and leaves others; the documented gate matrices are symplectic (S Omega S^T = Omega), so V + i Omega is transported by a congruence. "
                 "Positivity (uncertainty relation), Fock PSD/trace, bosonic weights: search only (partial).")

PASSIVE = ["Rgate", "BSgate", "MZgate", "Fouriergate"]
UNITARY = list(sfgen.GAUSSIAN_GATES)


def correspondence(ctx):
    bm.correspondence_bosonic(ctx, predicates=('weights', 'symmetric', 'spectator'))
    bad = gc.correspondence_apply_u(ctx, ctx.budget(60, 600), tag="c07au")
    for c in (bad or [])[:3]:
        small = {"kind": c["kind"], "n": c["n"]}
        N1, M1, a1 = (np.array(x) for x in c["out"])
        N0, a0 = np.array(c["N"]), np.array(c["a"])
        herm = np.abs(N0 - N0.conj().T).max() < 1e-12
        sig = None
        if herm and np.abs(N1 - N1.conj().T).max() > 1e-10:
            sig = "N-not-hermitian"
        elif herm and c["kind"] == "unitary" and abs((np.trace(N1) + np.vdot(a1, a1)) - (np.trace(N0) + np.vdot(a0, a0))) > 1e-9:
            sig = "unitary-changes-photon-number"
        if sig:
            ctx.counterexample("gaussianmodes:apply_u:" + sig, "GaussianModes.apply_u: " + sig, {"check": "apply_u", "case": small})
        else:
            ctx.disagreement("corr:gaussmat:apply_u", "generated model of GaussianModes.apply_u disagrees with the implementation", {"check": "apply_u", "case": small})
    failing = gc.correspondence_generated(ctx, ctx.budget(240, 3000), tag="c07")
    if failing is None:
        return
    for c in failing[:5]:
        small = {k: c[k] for k in ("method", "n", "args", "structured")}
        bad = herm_violation(c)
        if bad:
            ctx.counterexample("gaussianmodes:%s:%s" % (c["method"], bad), "GaussianModes.%s breaks %s" % (c["method"], bad), {"check": "gm", "case": small})
        else:
            ctx.disagreement("corr:gausscirc:" + c["method"], "generated model of GaussianModes.%s disagrees with the implementation" % c["method"], {"check": "gm", "case": small})


def herm_violation(c):
    if not c["structured"]:
        return None
    N1, M1, _ = (np.array(x) for x in c["out"])
    if np.abs(N1 - N1.conj().T).max() > 1e-10:
        return "N-not-hermitian"
    if np.abs(M1 - M1.T).max() > 1e-10:
        return "M-not-symmetric"
    return None


def omega(n):
    O = np.zeros((2 * n, 2 * n))
    O[:n, n:] = np.eye(n)
    O[n:, :n] = -np.eye(n)
    return O


def gaussian_physical(means, cov):
    n = len(means) // 2
    if np.abs(cov - cov.T).max() > 1e-9:
        return "cov-not-symmetric"
    ev = np.linalg.eigvalsh(cov + 1j * omega(n))
    if ev.min() < -1e-7:
        return "uncertainty-violated(min eig %.3g)" % ev.min()
    return None


def total_photons_gauss(means, cov):
    n = len(means) // 2
    return sum((cov[i, i] + cov[i + n, i + n]) / 4 - 0.5 + (means[i] ** 2 + means[i + n] ** 2) / 4 for i in range(n))


def purity_gauss(cov):
    return 1.0 / np.sqrt(np.linalg.det(cov))


def check_state(backend, spec, cutoff=8):
    """Returns (violation-kind or None, measures dict)."""
    st = bc.run(spec, backend, cutoff)
    if backend in ("gaussian", "bosonic"):
        if backend == "bosonic":
            w = np.array(st.weights())
            if abs(w.sum() - 1) > 1e-9:
                return "weights-sum(%.6g)" % abs(w.sum()), {}
        means, cov = bc.gauss_obs(st)
        v = gaussian_physical(means, cov)
        return v, {"photons": float(total_photons_gauss(means, cov)), "purity": float(purity_gauss(cov))}
    dm = st.dm()
    n = len(spec["live"]) if "live" in spec else spec["n"]
    # reshape (i0,j0,i1,j1,...) -> matrix
    perm = [2 * i for i in range(n)] + [2 * i + 1 for i in range(n)]
    D = cutoff ** n
    mat = np.transpose(dm, perm).reshape(D, D)
    tr = float(np.real(np.trace(mat)))
    if np.abs(mat - mat.conj().T).max() > 1e-9:
        return "dm-not-hermitian", {}
    ev = np.linalg.eigvalsh((mat + mat.conj().T) / 2)
    if ev.min() < -1e-7:
        return "dm-not-psd(min eig %.3g)" % ev.min(), {}
    if tr > 1 + 1e-7:
        return "trace-above-one(%.8f)" % tr, {}
    photons = float(sum(st.mean_photon(i)[0] for i in range(n)))
    purity = float(np.real(np.trace(mat @ mat)))
    return None, {"photons": photons, "purity": purity, "trace": tr}


def search(ctx):
    rng = ctx.rng
    per = ctx.budget({"gaussian": 60, "bosonic": 40, "fock-pure": 14, "fock-mixed": 10},
                     {"gaussian": 600, "bosonic": 400, "fock-pure": 120, "fock-mixed": 80})
    for backend, cnt in per.items():
        fock = backend.startswith("fock")
        for _ in range(cnt):
            n = rng.randint(1, 3 if fock else 4)
            pre = bc.weak_prefix(rng, n)
            if fock:
                pre = [c for c in pre if c[0] != "ThermalLossChannel"]
            names = [x for x in (c05_names_f if fock else c05_names_g)]
            mode = rng.choice(["any", "passive", "unitary", "loss"])
            pool = {"any": names, "passive": PASSIVE, "unitary": UNITARY, "loss": ["LossChannel"]}[mode]
            if backend == "gaussian" and mode in ("any", "loss"):
                pool = pool + ["PassiveChannel"]  # a contraction T: physical output, never more photons
            tail = [bc.weak_cmd(rng, n, pool) for _ in range(rng.randint(1, 3))]
            if mode == "any" and not fock and n >= 2 and rng.random() < 0.5:
                # a post-selected measurement of a mode that is correlated with the others: the conditional state must be physical
                tail.insert(rng.randint(0, len(tail)), sfgen.random_cmd(rng, n, ["MeasureHomodyneSel", "MeasureHeterodyneSel"], 0.0))
            spec0 = {"n": n, "cmds": pre}
            spec1 = {"n": n, "cmds": pre + tail}
            data = {"check": "phys", "backend": backend, "mode": mode, "n": n, "pre": pre, "tail": tail}
            try:
                v0, m0 = check_state(backend, spec0)
                v1, m1 = check_state(backend, spec1)
            except Exception as e:
                ctx.counterexample("physical:%s:raises:%s" % (backend, type(e).__name__), "running %s raised %r" % (tail, e), data)
                continue
            nontriv = n >= 2 and any(max(c[2]) > 0 for c in tail)
            ctx.case({"backend": backend, "mode": mode, "n": n, "tail": tail}, nontrivial=nontriv, bucket="phys-%s-%s" % (backend, mode))
            ops_ = "+".join(sorted(set(c[0] for c in tail)))
            if v1:
                ctx.counterexample("physical:%s:%s:%s" % (backend.split("-")[0], v1.split("(")[0], ops_), "state after %s on %s is not physical: %s" % (tail, backend, v1), data)
                continue
            slack = 1e-7 if not fock else 1e-6 + 40 * max(0.0, 1 - m1.get("trace", 1.0)) + 40 * max(0.0, 1 - m0.get("trace", 1.0))
            if mode == "passive" and abs(m1["photons"] - m0["photons"]) > max(slack, 1e-7) * (10 if fock else 1):
                ctx.counterexample("photons:%s:passive-changes:%s" % (backend.split("-")[0], ops_), "passive gates %s changed total mean photon number %.9g -> %.9g on %s" % (tail, m0["photons"], m1["photons"], backend), data)
            if mode == "loss" and m1["photons"] > m0["photons"] + slack:
                ctx.counterexample("photons:%s:loss-increases" % backend.split("-")[0], "loss increased total mean photon number %.9g -> %.9g on %s" % (m0["photons"], m1["photons"], backend), data)
            if mode in ("unitary", "passive") and abs(m1["purity"] - m0["purity"]) > (1e-6 if not fock else max(1e-5, 10 * slack)):
                ctx.counterexample("purity:%s:unitary-changes:%s" % (backend.split("-")[0], ops_), "unitary gates %s changed purity %.9g -> %.9g on %s" % (tail, m0["purity"], m1["purity"], backend), data)


def search_histories(ctx):
    """Programs that create and delete modes along the way: the final state must be physical on every backend."""
    rng = ctx.rng
    per = ctx.budget({"gaussian": 50, "bosonic": 40, "fock-pure": 8, "fock-mixed": 8},
                     {"gaussian": 500, "bosonic": 400, "fock-pure": 60, "fock-mixed": 60})
    for backend, cnt in per.items():
        fock = backend.startswith("fock")
        names = c05_names_f if fock else c05_names_g
        for _ in range(cnt):
            spec = sfgen.random_history_spec(rng, [x for x in names if x != "Fock"], max_total=3 if fock else 4, cmd_fn=bc.weak_cmd)
            # make the state correlated and complex before modes are added: entangle the initial modes first
            pre = [c for c in bc.weak_prefix(rng, spec["n"]) if not (fock and c[0] == "ThermalLossChannel")]
            spec["cmds"] = pre + spec["cmds"]
            data = {"check": "hist", "backend": backend, "spec": spec}
            try:
                v, m = check_state(backend, spec)
            except Exception as e:
                ctx.counterexample("history:%s:raises:%s" % (backend.split("-")[0], type(e).__name__), "running a New/Del history raised %r" % e, data)
                continue
            nd = sum(1 for c in spec["cmds"] if c[0] in ("New", "Del"))
            ctx.case({"backend": backend, "history": [c[0] for c in spec["cmds"]]}, nontrivial=nd > 0, bucket="hist-%s" % backend)
            if v:
                ctx.counterexample("history:%s:%s" % (backend.split("-")[0], v.split("(")[0]), "state after a history with mode creation/deletion is not physical on %s: %s" % (backend, v), data)


def fock_top_level_case(rng, pure):
    """Population in the highest Fock level, passive mixing (total photon number stays below the cutoff), then loss:
    nothing is truncated, so the trace must stay 1 and the photon number must scale exactly by T."""
    cutoff = rng.choice([3, 4])
    n = rng.randint(1, 2)
    cmds = [["Fock", [cutoff - 1], [0], False]]
    if n == 2 and rng.random() < 0.7:
        cmds.append(["BSgate", [round(rng.uniform(0.2, 1.3), 3), round(rng.uniform(-1, 1), 3)], rng.sample([0, 1], 2), False])
    T = rng.choice([0.5, 0.25, 0.8, round(rng.uniform(0.1, 0.9), 3)])
    k = rng.randrange(n)
    return {"cutoff": cutoff, "n": n, "cmds": cmds, "loss": [T, k], "pure": pure}


def eval_fock_top_level(d):
    spec0 = {"n": d["n"], "cmds": d["cmds"]}
    spec1 = {"n": d["n"], "cmds": d["cmds"] + [["LossChannel", [d["loss"][0]], [d["loss"][1]], False]]}
    b = "fock-pure" if d["pure"] else "fock-mixed"
    s0 = bc.run(spec0, b, d["cutoff"])
    s1 = bc.run(spec1, b, d["cutoff"])
    tr0, tr1 = float(np.real(s0.trace())), float(np.real(s1.trace()))
    k = d["loss"][1]
    n0, n1 = float(s0.mean_photon(k)[0]), float(s1.mean_photon(k)[0])
    if abs(tr0 - 1) < 1e-9 and abs(tr1 - 1) > 1e-8:
        return "trace-lost-without-truncation(%.6f)" % tr1
    if abs(n1 - d["loss"][0] * n0) > 1e-8:
        return "loss-photon-number(%.6f vs %.6f)" % (n1, d["loss"][0] * n0)
    return None


_search_circuits = search


def search(ctx):
    _search_circuits(ctx)
    search_histories(ctx)
    rng = ctx.rng
    for i in range(ctx.budget(16, 120)):
        d = fock_top_level_case(rng, pure=(i % 2 == 0))
        try:
            v = eval_fock_top_level(d)
        except Exception as e:
            ctx.counterexample("fock-top-level:raises:%s" % type(e).__name__, "raised %r" % e, {"check": "fock-top", "case": d})
            continue
        ctx.case(d, nontrivial=True, bucket="fock-top-level")
        if v:
            ctx.counterexample("fock:loss:%s" % v.split("(")[0], "loss on a state with population in the top Fock level: %s" % v, {"check": "fock-top", "case": d})


c05_names_g = list(sfgen.GAUSSIAN_GATES) + list(sfgen.CHANNELS) + list(sfgen.PREPS)
c05_names_f = [x for x in c05_names_g if x not in ("ThermalLossChannel", "Thermal")] + ["Kgate", "Vgate", "CKgate", "Fock"]


def replay(ctx, data):
    d = data["data"]
    if str(d.get("check", "")).startswith("bosonic"):
        return bm.replay_bosonic(ctx, data)
    if d.get("check") == "fock-top":
        v = eval_fock_top_level(d["case"])
        print("fock top level:", v)
        return bool(v)
    if d.get("check") == "hist":
        v, m = check_state(d["backend"], d["spec"])
        print("state:", v, m)
        return bool(v)
    if d.get("check") != "phys":
        return False
    v0, m0 = check_state(d["backend"], {"n": d["n"], "cmds": d["pre"]})
    v1, m1 = check_state(d["backend"], {"n": d["n"], "cmds": d["pre"] + d["tail"]})
    print("before:", v0, m0)
    print("after: ", v1, m1)
    if v1:
        return True
    if d["mode"] == "passive" and abs(m1["photons"] - m0["photons"]) > 1e-5:
        return True
    if d["mode"] == "loss" and m1["photons"] > m0["photons"] + 1e-5:
        return True
    if d["mode"] in ("unitary", "passive") and abs(m1["purity"] - m0["purity"]) > 1e-4:
        return True
    return False
