"""C07 — every simulated state is physical and gates conserve what they must."""
import math

import numpy as np

import strawberryfields as sf
from strawberryfields import ops as sfops

from props import backends_common as bc
from props import gauss_common as gc
from props import bosonic_model as bm
from vlib import sfgen

PROP = "C07"
LEVEL = "proof"
COQ_DIRS = ["C07", "Bosonic"]
COQ_TARGETS = ["Gen/GaussCirc.vo", "Base/MatOps.vo", "Gen/GaussMat.vo", "C07/GaussPassive.vo", "Base/GaussTac.vo", "Base/PhaseSpace.vo", "C07/GaussPhysical.vo", "C07/Symplectic.vo"] + list(bm.COQ_TARGETS)
PROPERTIES_FILE = "Properties/C07.v"
EXTRA_PROPERTIES_FILES = [bm.PROPERTIES_FILE]
ALLOWED_AXIOMS = set()
TRANSLATORS = [gc.translate_gausscirc, gc.translate_gaussmat_fn]
RULE = ("(a) generated-function correspondence as in C05; (b) physicality search through the state API (cov/means, dm, trace, weights, mean_photon, purity) at hbar in "
        "{2, 1, 0.5, 1.7, 4}: random circuits (weak correlated prefix + 1-4 commands, n = 1..5 and 10..11 modes, any ordered targets; Gaussian preparations on subsets, "
        "selected and sampled homodyne / heterodyne / threshold measurements, measurement-based squeezing) evaluated command by command on gaussian / bosonic, before/after "
        "on fock-pure / fock-mixed; New/Del histories; multi-component bosonic states (Catstate complex / real, GKP, Fock) through gates, channels and measurements; an "
        "exactly representable Fock family (number states / random kets / density matrices below the cutoff, passive + Kerr gates, loss incl. T = 0, 1, mid-circuit "
        "preparations, post-selected photon counting, New/Del, 9-10 modes at cutoff 2) where trace, photon number and purity must be exact; a low-energy Fock family at a "
        "large cutoff where every command may lose trace only in proportion to the population next to the cutoff; single operations on number states at a small and a "
        "large cutoff (the small state must be a block of the large one); measurements of every kind on strongly two-mode-squeezed states; entangled kets with one mode "
        "deleted / re-prepared / measured; reduced states requested through the modes run option; hbar-invariance of photon numbers and purity; vacuum "
        "anchors. Checks: cov symmetric and cov + i hbar/2 Omega >= 0, dm Hermitian PSD trace <= 1, weights sum to 1, Q function real and non-negative, purity <= 1 and "
        "preserved by unitaries, total mean photon number conserved by passive (and Kerr) gates and not increased by loss, mean_photon / trace / purity consistent with "
        "cov / dm; non-trivial = >= 2 modes and a command on a mode other than 0")
TRUSTED_BASE = [
    "Coq 8.16.1 kernel; vm_compute for evaluating generated functions at PrimFloat",
    "translator tools/translate_gauss.py (fail-closed; validated against GaussianModes at binary64 on every run)",
    "physicality search on the implementation is a test (numpy eigvalsh as oracle, tolerances 1e-7 / truncation-scaled)",
]
ASSUMPTIONS = ["uncertainty relation (V + i Omega >= 0) and Fock PSD are checked by search only, not proved (needs spectral theory)"]
MANIFEST_TEXT = ("Proved over any commutative ring, all register sizes / targets / parameters: each GaussianModes update (model regenerated each run) keeps "
                 "N Hermitian with real diagonal and M symmetric; rotation and beam splitter conserve total mean photon number; loss scales the target's photon "
                 "number by T and leaves others; the documented gate matrices are symplectic (S Omega S^T = Omega), so V + i Omega is transported by a congruence. "
                 "Positivity (uncertainty relation), Fock PSD/trace, bosonic weights: search only (partial).")

PASSIVE = ["Rgate", "BSgate", "MZgate", "Fouriergate"]
NUMBER_PRESERVING = PASSIVE + ["Kgate", "CKgate"]
UNITARY = list(sfgen.GAUSSIAN_GATES)
ALL_UNITARY = UNITARY + list(sfgen.NONGAUSS)
HBARS = [2, 2, 2, 1, 0.5, 1.7, 4]


# ------------------------------------------------------------------------------------------------------------
# correspondence (unchanged)
# ------------------------------------------------------------------------------------------------------------
def correspondence(ctx):
    bm.correspondence_bosonic(ctx, predicates=('weights', 'symmetric', 'spectator'))
    bad = gc.correspondence_apply_u(ctx, ctx.budget(60, 600), tag="c07au")
    for c in (bad or [])[:3]:
        small = {"kind": c["kind"], "n": c["n"]}
        N1, M1, a1 = (np.array(x) for x in c["out"])
        N0, a0 = np.array(c["N"]), np.array(c["a"])
        herm = np.abs(N0 - N0.conj().T).max() < 1e-12
        sig = None
        if herm and np.abs(N1 - N1.conj().T).max() > 1e-10:
            sig = "N-not-hermitian"
        elif herm and c["kind"] == "unitary" and abs((np.trace(N1) + np.vdot(a1, a1)) - (np.trace(N0) + np.vdot(a0, a0))) > 1e-9:
            sig = "unitary-changes-photon-number"
        if sig:
            ctx.counterexample("gaussianmodes:apply_u:" + sig, "GaussianModes.apply_u: " + sig, {"check": "apply_u", "case": small})
        else:
            ctx.disagreement("corr:gaussmat:apply_u", "generated model of GaussianModes.apply_u disagrees with the implementation", {"check": "apply_u", "case": small})
    failing = gc.correspondence_generated(ctx, ctx.budget(240, 3000), tag="c07")
    if failing is None:
        return
    for c in failing[:5]:
        small = {k: c[k] for k in ("method", "n", "args", "structured")}
        bad = herm_violation(c)
        if bad:
            ctx.counterexample("gaussianmodes:%s:%s" % (c["method"], bad), "GaussianModes.%s breaks %s" % (c["method"], bad), {"check": "gm", "case": small})
        else:
            ctx.disagreement("corr:gausscirc:" + c["method"], "generated model of GaussianModes.%s disagrees with the implementation" % c["method"], {"check": "gm", "case": small})


def herm_violation(c):
    if not c["structured"]:
        return None
    N1, M1, _ = (np.array(x) for x in c["out"])
    if np.abs(N1 - N1.conj().T).max() > 1e-10:
        return "N-not-hermitian"
    if np.abs(M1 - M1.T).max() > 1e-10:
        return "M-not-symmetric"
    return None


# ------------------------------------------------------------------------------------------------------------
# programs
# ------------------------------------------------------------------------------------------------------------
def _carr(p):
    return np.array(p[0], dtype=float) + 1j * np.array(p[1], dtype=float)


def make_op(name, params, dagger, regs):
    """Operations beyond vlib.sfgen.make_op (all parameters are plain JSON)."""
    if name == "Catstate":            # [a, phi, p, representation]
        return sfops.Catstate(params[0], params[1], params[2], representation=params[3])
    if name == "GKP":                 # [theta, phi, epsilon, ampl_cutoff]
        return sfops.GKP([params[0], params[1]], epsilon=params[2], ampl_cutoff=params[3])
    if name == "MSgate":              # [r, phi, r_anc, eta_anc, avg]
        return sfops.MSgate(params[0], params[1], r_anc=params[2], eta_anc=params[3], avg=bool(params[4]))
    if name == "MeasureFockSel":      # [k, ...] one per measured mode
        return sfops.MeasureFock(select=[int(k) for k in params])
    if name == "MeasureFock":
        return sfops.MeasureFock()
    if name == "MeasureHomodyne":     # [phi], sampled
        return sfops.MeasureHomodyne(params[0])
    if name == "MeasureHeterodyne":
        return sfops.MeasureHeterodyne()
    if name == "MeasureThreshold":
        return sfops.MeasureThreshold()
    if name == "Ket":                 # [re, im] tensors with one axis per mode
        return sfops.Ket(_carr(params))
    if name == "DensityMatrix":       # [re, im] tensors with two axes per mode
        return sfops.DensityMatrix(_carr(params))
    return sfgen.make_op(name, params, dagger, regs)


def build_program(spec):
    prog = sf.Program(spec["n"])
    with prog.context as q:
        regs = list(q)
        for name, params, modes, dagger in spec["cmds"]:
            if name == "New":
                (r,) = sfops.New(1)
                assert r.ind == modes[0] == len(regs), (r.ind, modes, len(regs))
                regs.append(r)
                continue
            if name == "Del":
                sfops.Del | regs[modes[0]]
                continue
            make_op(name, params, dagger, regs) | tuple(regs[m] for m in modes)
    return prog


def run_spec(spec, backend, cutoff=8, hbar=2, np_seed=None, modes=None):
    """One engine run; sf.hbar is set for the duration of the run (state objects remember it).  modes: the run option of the same
    name (the engine then returns the reduced state of these modes, in this order)."""
    old = sf.hbar
    sf.hbar = hbar
    try:
        if np_seed is not None:
            np.random.seed(int(np_seed))
        prog = build_program(spec)
        if backend == "gaussian":
            eng = sf.Engine("gaussian")
        elif backend == "bosonic":
            eng = sf.Engine("bosonic")
        elif backend == "fock-pure":
            eng = sf.Engine("fock", backend_options={"cutoff_dim": cutoff, "pure": True})
        elif backend == "fock-mixed":
            eng = sf.Engine("fock", backend_options={"cutoff_dim": cutoff, "pure": False})
        else:
            raise ValueError(backend)
        return eng.run(prog).state if modes is None else eng.run(prog, modes=list(modes)).state
    finally:
        sf.hbar = old


def live_modes(spec):
    """external indices of the modes alive at the end of the program, ascending (the order of the returned state)"""
    if "live" in spec:
        return sorted(spec["live"])
    live = list(range(spec["n"]))
    total = spec["n"]
    for c in spec["cmds"]:
        if c[0] == "New":
            live.append(total)
            total += 1
        elif c[0] == "Del":
            live.remove(c[2][0])
    return live


def n_live(spec):
    return len(live_modes(spec))


# ------------------------------------------------------------------------------------------------------------
# observables and the physicality predicate (everything is read through the state API)
# ------------------------------------------------------------------------------------------------------------
def omega(n):
    O = np.zeros((2 * n, 2 * n))
    O[:n, n:] = np.eye(n)
    O[n:, :n] = -np.eye(n)
    return O


def gaussian_physical(means, cov, hbar=2, extra=0.0):
    n = len(means) // 2
    s = hbar / 2
    scale = max(1.0, float(np.abs(cov).max()) / s)
    if np.abs(cov - cov.T).max() > (1e-9 + extra) * s * scale:
        return "cov-not-symmetric"
    ev = np.linalg.eigvalsh(cov / s + 1j * omega(n))
    if ev.min() < -(1e-7 + extra) * scale:
        return "uncertainty-violated(min eig %.3g)" % ev.min()
    return None


def _photons_from_moments(means, cov, hbar):
    n = len(means) // 2
    return [float((cov[i, i] + cov[i + n, i + n] + means[i] ** 2 + means[i + n] ** 2) / (2 * hbar) - 0.5) for i in range(n)]


def _api_photons(st, n, imag_tol=1e-9):
    out = []
    for i in range(n):
        m = st.mean_photon(i)[0]
        m = complex(m)
        if abs(m.imag) > imag_tol:
            return None, "mean_photon-complex(%.3g)" % m.imag
        out.append(m.real)
    return out, None


def observe_gaussian(st, hbar):
    means, cov = np.array(st.means(), dtype=float), np.array(st.cov(), dtype=float)
    n = len(means) // 2
    v = gaussian_physical(means, cov, hbar)
    if v:
        return v, {}
    ph, bad = _api_photons(st, n)
    if bad:
        return bad, {}
    own = _photons_from_moments(means, cov, hbar)
    for i in range(n):
        if abs(ph[i] - own[i]) > 1e-8 * (1 + abs(own[i])):
            return "mean_photon-inconsistent-with-cov(mode %d: %.9g vs %.9g)" % (i, ph[i], own[i]), {}
    purity = float((hbar / 2) ** n / np.sqrt(np.linalg.det(cov)))
    return None, {"photons": ph, "total": float(sum(ph)), "purity": purity}


MAX_W_PURITY = 320


def _q_function_violation(w, mu, cv, hbar, rs):
    """Husimi Q of sum_i w_i Gaussian(mu_i, V_i) at a few phase-space points: must be real and non-negative."""
    k = mu.shape[1]
    s = hbar / 2
    S = cv + s * np.eye(k)
    Si = np.linalg.inv(S)
    pref = w / np.sqrt(np.linalg.det(S))
    centre = mu.real
    lo, hi = centre.min(axis=0) - 1.5 * math.sqrt(hbar), centre.max(axis=0) + 1.5 * math.sqrt(hbar)
    pts = rs.uniform(lo, hi, size=(24, k))
    pts[:min(8, len(centre))] = centre[rs.choice(len(centre), size=min(8, len(centre)), replace=False)]
    vals, mags = [], []
    for b in pts:
        d = b - mu
        terms = pref * np.exp(-0.5 * np.einsum("ij,ijk,ik->i", d, Si, d))
        vals.append(np.sum(terms))
        mags.append(float(np.abs(terms).sum()))
    top = max(abs(q) for q in vals)
    for q, mg in zip(vals, mags):
        tol = 1e-8 * top + 1e-11 * mg
        if abs(q.imag) > tol:
            return "q-function-complex(%.3g of %.3g)" % (q.imag, top)
        if q.real < -tol:
            return "q-function-negative(%.3g of %.3g)" % (q.real, top)
    return None


def observe_bosonic(st, hbar, dm_cutoff=None):
    w = np.array(st.weights(), dtype=complex)
    mu = np.array(st.means(), dtype=complex)
    cv = np.array(st.covs(), dtype=complex)
    n = mu.shape[1] // 2
    s = hbar / 2
    # sums over the components are alternating for the non-Gaussian preparations (bosonic Fock(3): |w| ~ 1e8): every tolerance
    # carries the rounding noise of such a sum, eps * sum |w_i|
    cond = float(np.abs(w).sum())
    noise = 1e-13 * cond
    if abs(w.sum() - 1) > 1e-8 + noise:
        return "weights-sum(%.6g)" % abs(w.sum()), {}
    if np.abs(cv - cv.transpose(0, 2, 1)).max() > 1e-9 * s * max(1.0, float(np.abs(cv).max()) / s):  # (per component: no cancellation involved)
        return "cov-not-symmetric", {}
    m = np.einsum("i,ij->j", w, mu)
    V = np.einsum("i,ijk->jk", w, cv) + np.einsum("i,ij,ik->jk", w, mu, mu) - np.outer(m, m)
    mscale = max(1.0, float(np.abs(mu).max()) ** 2, float(np.abs(cv).max()))
    if max(np.abs(m.imag).max(), np.abs(V.imag).max()) > (1e-7 + noise) * mscale:
        return "wigner-moments-complex", {}
    perm = [2 * i for i in range(n)] + [2 * i + 1 for i in range(n)]
    means, cov = m.real[perm], V.real[np.ix_(perm, perm)]
    v = gaussian_physical(means, cov, hbar, extra=noise * mscale / s)
    if v:
        return v, {}
    own = _photons_from_moments(means, cov, hbar)
    try:
        ph, bad = _api_photons(st, n, 1e-9 + noise * mscale)
    except ValueError as e:
        # BaseBosonicState.mean_photon refuses an imaginary part above 100 machine epsilons; the rounding noise of the component sum is
        # eps * sum |w_i| (3e-11 for Fock(2)), so for such states the API cannot be consulted and the moments are used instead
        if noise * mscale < 1e-14:
            return "mean_photon-complex(%s)" % str(e)[:40], {}
        ph, bad = list(own), None
    if bad:
        return bad, {}
    for i in range(n):
        if abs(ph[i] - own[i]) > (1e-7 + noise * mscale / s) * (1 + abs(own[i])):
            return "mean_photon-inconsistent-with-cov(mode %d: %.9g vs %.9g)" % (i, ph[i], own[i]), {}
    pnoise = 1e-14 * cond ** 2
    meas = {"photons": ph, "total": float(sum(ph)), "weights": int(len(w)), "ph_noise": noise * mscale / s, "pur_noise": pnoise}
    if len(w) <= MAX_W_PURITY and pnoise < 1e-3:
        p = complex(st.purity())
        if abs(p.imag) > 1e-7 + pnoise:
            return "purity-complex(%.3g)" % p.imag, {}
        if len(w) == 1:
            ref = float((hbar / 2) ** n / np.sqrt(np.linalg.det(cv[0].real)))
            if abs(p.real - ref) > 1e-7 * (1 + ref):
                return "purity-inconsistent-with-cov(%.9g vs %.9g)" % (p.real, ref), {}
        if p.real > 1 + 1e-6 + pnoise:
            return "purity-above-one(%.9g)" % p.real, {}
        meas["purity"] = p.real
    if len(w) > 1:
        rs = np.random.RandomState(12345)
        v = _q_function_violation(w, mu, cv, hbar, rs)
        if v:
            return v, {}
    if dm_cutoff and len(w) > 1 and n <= 5 and np.abs(mu.imag).max() < 1e-12 and np.abs(w.imag).max() < 1e-12:
        # (complex component means: thewalrus is not analytic in them, recorded under C16 and C07's corpus)
        for i in range(n):
            rho = np.array(st.reduced_dm([i], cutoff=dm_cutoff))
            if np.abs(rho - rho.conj().T).max() > 1e-8 + 10 * noise:
                return "dm-not-hermitian(mode %d)" % i, {}
            ev = np.linalg.eigvalsh((rho + rho.conj().T) / 2)
            if ev.min() < -1e-6 - 10 * noise:
                return "dm-not-psd(mode %d, min eig %.3g)" % (i, ev.min()), {}
            if np.trace(rho).real > 1 + 1e-6 + 10 * noise:
                return "trace-above-one(%.8f)" % np.trace(rho).real, {}
    return None, meas


def fock_matrix(st, n, cutoff):
    dm = np.array(st.dm())
    perm = [2 * i for i in range(n)] + [2 * i + 1 for i in range(n)]
    D = cutoff ** n
    return np.transpose(dm, perm).reshape(D, D)


def observe_fock(st, n, cutoff, tol=1e-9, psd_tol=1e-7):
    mat = fock_matrix(st, n, cutoff)
    if not np.isfinite(mat).all():
        return "dm-not-finite", {}
    tr = float(np.real(np.trace(mat)))
    if np.abs(mat - mat.conj().T).max() > tol:
        return "dm-not-hermitian", {}
    ev = np.linalg.eigvalsh((mat + mat.conj().T) / 2)
    if ev.min() < -psd_tol:
        return "dm-not-psd(min eig %.3g)" % ev.min(), {}
    if tr > 1 + psd_tol:
        return "trace-above-one(%.8f)" % tr, {}
    tr_api = float(np.real(st.trace()))
    if abs(tr_api - tr) > 1e-9 * (1 + abs(tr)):
        return "trace-inconsistent-with-dm(%.9g vs %.9g)" % (tr_api, tr), {}
    probs = np.real(np.diag(mat)).reshape([cutoff] * n)
    ph, top = [], 0.0
    for i in range(n):
        marg = probs.sum(axis=tuple(j for j in range(n) if j != i)) if n > 1 else probs
        own = float(np.sum(np.arange(cutoff) * marg))
        api = complex(st.mean_photon(i)[0])
        if abs(api - own) > 1e-9 * (1 + abs(own)):
            return "mean_photon-inconsistent-with-dm(mode %d: %.9g vs %.9g)" % (i, api.real, own), {}
        ph.append(own)
        top += float(np.sum(marg[max(0, cutoff - 2):]))
    purity = float(np.real(np.sum(mat * mat.T)))   # tr(rho^2) for Hermitian rho
    return None, {"photons": ph, "total": float(sum(ph)), "purity": purity, "trace": tr, "top": top}


def observe(st, backend, n, cutoff=8, hbar=2, **kw):
    if backend == "gaussian":
        return observe_gaussian(st, hbar)
    if backend == "bosonic":
        return observe_bosonic(st, hbar, kw.get("dm_cutoff"))
    return observe_fock(st, n, cutoff, kw.get("tol", 1e-9), kw.get("psd_tol", 1e-7))


def check_state(backend, spec, cutoff=8, hbar=2, np_seed=None, **kw):
    """Returns (violation-kind or None, measures dict)."""
    st = run_spec(spec, backend, cutoff, hbar, np_seed)
    return observe(st, backend, n_live(spec), cutoff, hbar, **kw)


def classify(cmds):
    """weakest law that holds for the whole list: 'passive' (photon number and purity), 'unitary' (purity), 'loss' (photon number does not grow), None."""
    names = [c[0] for c in cmds]
    if not names:
        return None
    if all(x in NUMBER_PRESERVING for x in names):
        return "passive"
    if all(x in ALL_UNITARY for x in names):
        return "unitary"
    if all(x in NUMBER_PRESERVING or x in ("LossChannel", "PassiveChannel") for x in names):
        return "loss"
    return None


def law_violation(kind, m0, m1, ph_tol, pur_tol):
    if kind == "passive" and abs(m1["total"] - m0["total"]) > ph_tol * (1 + abs(m0["total"])):
        return "photons", "passive-changes", "changed total mean photon number %.9g -> %.9g" % (m0["total"], m1["total"])
    if kind == "loss" and m1["total"] > m0["total"] + ph_tol * (1 + abs(m0["total"])):
        return "photons", "loss-increases", "increased total mean photon number %.9g -> %.9g" % (m0["total"], m1["total"])
    if kind in ("unitary", "passive") and "purity" in m0 and "purity" in m1 and abs(m1["purity"] - m0["purity"]) > pur_tol:
        return "purity", "unitary-changes", "changed purity %.9g -> %.9g" % (m0["purity"], m1["purity"])
    return None


def opsig(cmds):
    return "+".join(sorted(set(c[0] for c in cmds)))


def bshort(backend):
    return backend.split("-")[0]


# ------------------------------------------------------------------------------------------------------------
# family 1: random circuits (command by command on gaussian / bosonic; before / after on fock)
# ------------------------------------------------------------------------------------------------------------
c05_names_g = list(sfgen.GAUSSIAN_GATES) + list(sfgen.CHANNELS) + list(sfgen.PREPS)
c05_names_f = [x for x in c05_names_g if x != "ThermalLossChannel"] + ["Kgate", "Vgate", "CKgate", "Fock"]
FOCK_CUTOFF = {1: 10, 2: 7, 3: 5}


def extra_cmd(rng, n, name, hbar):
    if name == "GaussianNoDecomp":
        k = rng.randint(1, min(2, n))
        V = rand_cov(rng, k) * (hbar / 2)
        r = [round(rng.uniform(-0.6, 0.6), 3) * math.sqrt(hbar / 2) if rng.random() < 0.6 else 0.0 for _ in range(2 * k)]
        return [name, [np.round(V, 9).tolist(), r], rng.sample(range(n), k), False]
    if name == "MeasureHomodyne":
        return [name, [rng.choice([0.0, math.pi / 2, round(rng.uniform(-3, 3), 3)])], [rng.randrange(n)], False]
    if name in ("MeasureHeterodyne", "MeasureThreshold"):
        return [name, [], [rng.randrange(n)], False]
    if name == "MSgate":
        avg = rng.random() < 0.6
        return [name, [round(rng.uniform(-0.5, 0.5), 3), round(rng.uniform(-3, 3), 3), round(rng.uniform(0.6, 1.6), 3), rng.choice([1.0, round(rng.uniform(0.7, 0.99), 3)]), avg], [rng.randrange(n)], False]
    if name in ("MeasureHomodyneSel", "MeasureHeterodyneSel"):
        return sfgen.random_cmd(rng, n, [name], 0.0)
    raise KeyError(name)


EXTRA_G = ["GaussianNoDecomp", "MeasureHomodyneSel", "MeasureHeterodyneSel", "MeasureHomodyne", "MeasureHeterodyne"]
EXTRA_B = EXTRA_G + ["MeasureThreshold", "MSgate", "MSgate"]


def gen_circuit_case(rng, backend):
    fock = backend.startswith("fock")
    if fock:
        n = rng.randint(1, 3)
    else:
        n = rng.choice([1, 2, 2, 3, 3, 4, 4, 5]) if rng.random() < 0.96 else rng.randint(10, 11)
    hbar = rng.choice(HBARS)
    pre = bc.weak_prefix(rng, n)
    if fock:
        pre = [c for c in pre if c[0] != "ThermalLossChannel"]
    names = list(c05_names_f if fock else c05_names_g)
    mode = rng.choice(["any", "any", "passive", "unitary", "loss"])
    pool = {"any": names, "passive": PASSIVE, "unitary": UNITARY, "loss": ["LossChannel"]}[mode]
    if fock and mode == "passive":
        pool = NUMBER_PRESERVING
    if backend == "gaussian" and mode in ("any", "loss"):
        pool = pool + ["PassiveChannel"]  # a contraction T: physical output, never more photons
    tail = []
    for _ in range(rng.randint(1, 4 if not fock else 3)):
        if mode == "any" and rng.random() < (0.15 if fock else 0.4):
            if fock:
                if rng.random() < 0.5:
                    tail.append(sfgen.random_cmd(rng, n, ["MeasureHomodyneSel"], 0.0))
                else:
                    tail.append(["MeasureFockSel", [rng.choice([0, 0, 1])], [rng.randrange(n)], False])
            else:
                tail.append(extra_cmd(rng, n, rng.choice(EXTRA_B if backend == "bosonic" else EXTRA_G), hbar))
        else:
            tail.append(bc.weak_cmd(rng, n, pool))
    if n >= 10 and not any(max(c[2]) >= 9 for c in tail):
        tail.append(bc.weak_cmd(rng, n, ["BSgate"]))
        tail[-1][2] = [n - 1, rng.randrange(n - 1)] if rng.random() < 0.5 else [rng.randrange(n - 1), n - 1]
    d = {"check": "phys", "backend": backend, "mode": mode, "n": n, "hbar": hbar, "cutoff": FOCK_CUTOFF[n] if fock else 0,
         "pre": pre, "tail": tail, "np_seed": rng.randrange(2 ** 31), "stepwise": not fock}
    if n >= 2 and rng.random() < 0.35:
        d["sub"] = rng.sample(range(n), rng.randint(1, min(n, 4)))
    return d


class CaseTimeout(Exception):
    pass


def _alarm(sig, frm):
    raise CaseTimeout()


def eval_steps(d):
    """Returns None, 'skip', or (signature, text).  A case that does not finish within two minutes is reported (it normally takes milliseconds)."""
    import signal
    try:
        old = signal.signal(signal.SIGALRM, _alarm)
        signal.alarm(120)
    except ValueError:      # not in the main thread
        old = None
    try:
        return _eval_steps(d)
    except CaseTimeout:
        return ("physical:%s:does-not-terminate:%s" % (bshort(d["backend"]), opsig(d["pre"] + d["tail"])), "the program did not finish within 120 s")
    finally:
        if old is not None:
            signal.alarm(0)
            signal.signal(signal.SIGALRM, old)


def _eval_steps(d):
    backend, n, hbar, cutoff = d["backend"], d["n"], d.get("hbar", 2), d.get("cutoff") or 8
    fock = backend.startswith("fock")
    b = bshort(backend)
    pre, tail = d["pre"], d["tail"]
    cuts = list(range(len(tail) + 1)) if d.get("stepwise") else [0, len(tail)]
    exact = bool(d.get("exact"))
    kw = {"tol": 1e-10, "psd_tol": 1e-9} if exact else {}
    if "dm_cutoff" in d:
        if d["dm_cutoff"]:
            kw["dm_cutoff"] = d["dm_cutoff"]
    elif backend == "bosonic":
        kw["dm_cutoff"] = 10
    prev = None
    for idx, j in enumerate(cuts):
        spec = {"n": n, "cmds": pre + tail[:j]}
        step = tail[cuts[idx - 1]:j] if idx else []
        try:
            v, m = check_state(backend, spec, cutoff, hbar, d.get("np_seed"), **kw)
        except ZeroDivisionError:
            return "skip"      # post-selection on an outcome of probability zero
        except CaseTimeout:
            raise
        except Exception as e:
            return ("physical:%s:raises:%s:%s" % (b, type(e).__name__, opsig(step or pre)), "running %s raised %r" % (step or "the prefix", e))
        if v == "dm-not-finite" and any(c[0] in ("MeasureHomodyneSel", "MeasureHeterodyneSel", "MeasureFockSel") for c in spec["cmds"]):
            return "skip"      # post-selection on an outcome of probability zero (the Fock homodyne projection divides by the norm without a check)
        if v:
            return ("physical:%s:%s:%s" % (b, v.split("(")[0], opsig(step or pre)), "state after %s on %s (hbar %s) is not physical: %s" % (step or pre, backend, hbar, v))
        if exact and abs(m["trace"] - 1) > 1e-9:
            return ("fock:trace-lost-without-truncation:%s" % opsig(step or pre), "nothing can be truncated here, but after %s the trace is %.10f" % (step or pre, m["trace"]))
        if prev is not None:
            kind = classify(step)
            if fock and not exact:
                slack = 1e-6 + 40 * max(0.0, 1 - m["trace"]) + 40 * max(0.0, 1 - prev["trace"])
                ph_tol, pur_tol = 10 * slack, max(1e-5, 10 * slack)
            elif exact:
                ph_tol, pur_tol = 1e-9, 1e-9
            else:
                ph_tol = 1e-7 + m.get("ph_noise", 0.0) + prev.get("ph_noise", 0.0)
                pur_tol = 1e-6 + m.get("pur_noise", 0.0) + prev.get("pur_noise", 0.0)
                if any(c[0] == "PassiveChannel" for c in step):
                    ph_tol += 2e-5      # T is written with 6 decimals: its singular values may exceed 1 by 1e-6
            lv = law_violation(kind, prev, m, ph_tol, pur_tol)
            if lv:
                return ("%s:%s:%s:%s" % (lv[0], b, lv[1], opsig(step)), "%s %s on %s (hbar %s)" % (step, lv[2], backend, hbar))
            if exact and len(step) == 1 and step[0][0] == "LossChannel":
                T, k = step[0][1][0], live_modes(spec).index(step[0][2][0])
                if abs(m["photons"][k] - T * prev["photons"][k]) > 1e-9:
                    return ("fock:loss:loss-photon-number", "LossChannel(%s) took the mean photon number of mode %d from %.9g to %.9g" % (T, k, prev["photons"][k], m["photons"][k]))
            if d.get("truncation") and fock:
                lost = prev["trace"] - m["trace"]
                if lost > 1e-8 + 200 * (prev["top"] + m["top"]):
                    return ("fock:trace-lost-without-truncation:%s" % opsig(step), "%s lost %.3g of the trace while the population next to the cutoff is %.3g" % (step, lost, prev["top"] + m["top"]))
        elif d.get("truncation") and fock:
            if 1 - m["trace"] > 1e-8 + 200 * m["top"]:
                return ("fock:trace-lost-without-truncation:%s" % opsig(pre), "%s lost %.3g of the trace while the population next to the cutoff is %.3g" % (pre, 1 - m["trace"], m["top"]))
        prev = m
    if d.get("sub"):
        # the reduced state of an ordered subset of the modes, as returned by eng.run(prog, modes=...)
        try:
            st = run_spec({"n": n, "cmds": pre + tail}, backend, cutoff, hbar, d.get("np_seed"), modes=d["sub"])
            v, m = observe(st, backend, len(d["sub"]), cutoff, hbar, **kw)
        except ZeroDivisionError:
            return "skip"
        except CaseTimeout:
            raise
        except Exception as e:
            return ("physical:%s:raises:%s:reduced-state" % (b, type(e).__name__), "asking for the state of modes %s raised %r" % (d["sub"], e))
        if v:
            return ("physical:%s:%s:reduced-state" % (b, v.split("(")[0]), "the state of modes %s after %s on %s (hbar %s) is not physical: %s" % (d["sub"], tail, backend, hbar, v))
    return None


def run_family(ctx, gen, count, bucket_fn, nontriv_fn):
    done, tries = 0, 0
    while done < count and tries < 3 * count + 10:
        tries += 1
        d = gen()
        r = eval_steps(d)
        if r == "skip":
            continue
        done += 1
        ctx.case({k: d[k] for k in d if k not in ("pre", "np_seed")}, nontrivial=nontriv_fn(d), bucket=bucket_fn(d))
        if r:
            ctx.counterexample(r[0], r[1], d)


def gen_measure_case(rng, backend):
    """Two-mode squeezed (optionally shared with a third mode, displaced) states, then one or two measurements of any kind the
    backend offers: every conditional state must be physical, whatever the outcome."""
    n = rng.choice([2, 2, 3])
    hbar = rng.choice(HBARS)
    a, b = rng.sample(range(n), 2)
    pre = [["S2gate", [round(rng.uniform(0.45, 1.0), 3) * rng.choice([1, -1]), round(rng.uniform(-3, 3), 3)], [a, b], False]]
    if n == 3:
        c = 3 - a - b
        pre.append(["BSgate", [round(rng.uniform(0.3, 1.2), 3), round(rng.uniform(-2, 2), 3)], rng.choice([[a, c], [c, b], [b, c]]), False])
    for m in range(n):
        if rng.random() < 0.5:
            pre.append(["Dgate", [round(rng.uniform(0.1, 0.8), 3), round(rng.uniform(-3, 3), 3)], [m], False])
    if rng.random() < 0.3:
        pre.append(["ThermalLossChannel", [round(rng.uniform(0.6, 0.95), 3), round(rng.uniform(0.0, 0.4), 3)], [rng.randrange(n)], False])
    names = ["MeasureHomodyneSel", "MeasureHeterodyneSel", "MeasureHomodyne", "MeasureHeterodyne"] + (["MeasureThreshold"] * 3 + ["MSgate"] if backend == "bosonic" else [])
    tail = []
    for _ in range(rng.randint(1, 2)):
        cmd = extra_cmd(rng, n, rng.choice(names), hbar)
        if cmd[0] == "MeasureThreshold" and any(c[0].startswith("Measure") and c[2] == cmd[2] for c in tail):
            continue        # (known finding: threshold detection of a mode that is already in vacuum)
        tail.append(cmd)
        if rng.random() < 0.4:
            tail.append(bc.weak_cmd(rng, n, UNITARY))
    return {"check": "phys", "backend": backend, "mode": "measure", "n": n, "hbar": hbar, "cutoff": 0, "pre": pre, "tail": tail,
            "np_seed": rng.randrange(2 ** 31), "stepwise": True}


def gen_prep_case(rng, backend, n, k):
    """A Gaussian state prepared directly (Gaussian(V, r, decomp=False)) on an ordered subset of k of the n modes of a strongly correlated
    register (sweep over every (n, k)): whatever was correlated with the re-prepared modes must be left in a physical state."""
    hbar = rng.choice(HBARS)
    order = rng.sample(range(n), n)
    pre = []
    for i in range(0, n - 1):
        pre.append(["S2gate" if i % 2 == 0 else "BSgate", [round(rng.uniform(0.45, 0.9), 3) * rng.choice([1, -1]), round(rng.uniform(-3, 3), 3)], [order[i], order[i + 1]], False])
    pre.append(["Dgate", [round(rng.uniform(0.1, 0.8), 3), round(rng.uniform(-3, 3), 3)], [rng.randrange(n)], False])
    if n == 1:
        pre.append(["Sgate", [round(rng.uniform(0.3, 0.8), 3), round(rng.uniform(-3, 3), 3)], [0], False])
    V = rand_cov(rng, k) * (hbar / 2)
    r = [round(rng.uniform(-0.6, 0.6), 3) * math.sqrt(hbar / 2) if rng.random() < 0.6 else 0.0 for _ in range(2 * k)]
    tail = [["GaussianNoDecomp", [np.round(V, 9).tolist(), r], rng.sample(range(n), k), False]]
    if rng.random() < 0.5:
        tail.append(bc.weak_cmd(rng, n, UNITARY + ["LossChannel"]))
    d = {"check": "phys", "backend": backend, "mode": "prepare", "n": n, "hbar": hbar, "cutoff": 0, "pre": pre, "tail": tail,
         "np_seed": rng.randrange(2 ** 31), "stepwise": True}
    if n >= 2 and rng.random() < 0.3:
        d["sub"] = rng.sample(range(n), rng.randint(1, n))
    return d


def rand_cov(rng, k):
    """A physical k-mode covariance matrix (xxpp, hbar = 2 units) with x-p and inter-mode correlations (1 <= k <= 4)."""
    nu = [1.0 + (rng.uniform(0, 0.8) if rng.random() < 0.6 else 0.0) for _ in range(k)]
    V = np.diag(nu + nu)

    def rot(i, th):
        S = np.eye(2 * k)
        S[i, i] = S[i + k, i + k] = math.cos(th)
        S[i, i + k] = -math.sin(th)
        S[i + k, i] = math.sin(th)
        return S
    for i in range(k):
        r = rng.uniform(-0.6, 0.6)
        Sq = np.eye(2 * k)
        Sq[i, i], Sq[i + k, i + k] = math.exp(-r), math.exp(r)
        S = rot(i, rng.uniform(-math.pi, math.pi)) @ Sq @ rot(i, rng.uniform(-math.pi, math.pi))
        V = S @ V @ S.T
    for i in range(k - 1):
        th = rng.uniform(0.2, 1.3)
        B = np.eye(2 * k)
        for o in (0, k):
            B[i + o, i + o] = B[i + 1 + o, i + 1 + o] = math.cos(th)
            B[i + o, i + 1 + o] = -math.sin(th)
            B[i + 1 + o, i + o] = math.sin(th)
        S = B @ rot(i, rng.uniform(-1, 1))
        V = S @ V @ S.T
    return (V + V.T) / 2


def search_circuits(ctx):
    rng = ctx.rng
    for backend in ("gaussian", "bosonic"):
        for n in (1, 2, 3, 4):
            for k in range(1, n + 1):
                for _ in range(ctx.budget(3, 20)):
                    d = gen_prep_case(rng, backend, n, k)
                    r = eval_steps(d)
                    ctx.case({x: d[x] for x in ("backend", "n", "hbar", "tail")}, nontrivial=n >= 2, bucket="phys-%s-prepare-%d-of-%d" % (backend, k, n))
                    if r and r != "skip":
                        ctx.counterexample(r[0], r[1], d)
    for backend, cnt in ctx.budget({"gaussian": 60, "bosonic": 100}, {"gaussian": 500, "bosonic": 800}).items():
        run_family(ctx, lambda: gen_measure_case(rng, backend), cnt, lambda d: "phys-%s-measure" % d["backend"], lambda d: True)
    per = ctx.budget({"gaussian": 320, "bosonic": 280, "fock-pure": 18, "fock-mixed": 16},
                     {"gaussian": 2600, "bosonic": 2200, "fock-pure": 140, "fock-mixed": 110})
    for backend, cnt in per.items():
        run_family(ctx, lambda: gen_circuit_case(rng, backend), cnt,
                   lambda d: "phys-%s-%s" % (d["backend"], d["mode"]),
                   lambda d: d["n"] >= 2 and any(max(c[2]) > 0 for c in d["tail"]))


# ------------------------------------------------------------------------------------------------------------
# family 2: New / Del histories
# ------------------------------------------------------------------------------------------------------------
def search_histories(ctx):
    """Programs that create and delete modes along the way: the final state must be physical on every backend."""
    rng = ctx.rng
    per = ctx.budget({"gaussian": 80, "bosonic": 60, "fock-pure": 8, "fock-mixed": 8},
                     {"gaussian": 800, "bosonic": 600, "fock-pure": 60, "fock-mixed": 60})
    for backend, cnt in per.items():
        fock = backend.startswith("fock")
        names = c05_names_f if fock else c05_names_g
        for _ in range(cnt):
            spec = sfgen.random_history_spec(rng, [x for x in names if x != "Fock"], max_total=3 if fock else 4, cmd_fn=bc.weak_cmd)
            # make the state correlated and complex before modes are added: entangle the initial modes first
            pre = [c for c in bc.weak_prefix(rng, spec["n"]) if not (fock and c[0] == "ThermalLossChannel")]
            spec["cmds"] = pre + spec["cmds"]
            hbar = rng.choice(HBARS)
            cutoff = 6
            data = {"check": "hist", "backend": backend, "spec": spec, "hbar": hbar, "cutoff": cutoff}
            try:
                v, m = check_state(backend, spec, cutoff, hbar)
            except Exception as e:
                ctx.counterexample("history:%s:raises:%s" % (bshort(backend), type(e).__name__), "running a New/Del history raised %r" % e, data)
                continue
            nd = sum(1 for c in spec["cmds"] if c[0] in ("New", "Del"))
            ctx.case({"backend": backend, "history": [c[0] for c in spec["cmds"]]}, nontrivial=nd > 0, bucket="hist-%s" % backend)
            if v:
                ctx.counterexample("history:%s:%s" % (bshort(backend), v.split("(")[0]), "state after a history with mode creation/deletion is not physical on %s: %s" % (backend, v), data)


# ------------------------------------------------------------------------------------------------------------
# family 3: multi-component bosonic states
# ------------------------------------------------------------------------------------------------------------
def gen_nongauss_prep(rng):
    """(command without modes, number of components (estimate), exactly pure?)"""
    kind = rng.choice(["cat-c", "cat-c", "cat-r", "fock", "fock", "gkp"])
    if kind == "cat-c":
        p = rng.choice([0, 1, 0.5, round(rng.uniform(0, 2), 3)])
        return ["Catstate", [round(rng.uniform(0.5, 1.6), 3), rng.choice([0.0, math.pi / 2, round(rng.uniform(-3, 3), 3), round(rng.uniform(-3, 3), 3)]), p, "complex"]], 4
    if kind == "cat-r":
        return ["Catstate", [round(rng.uniform(0.7, 1.5), 3), rng.choice([0.0, round(rng.uniform(-3, 3), 3)]), rng.choice([0, 1, 0.5]), "real"]], 60
    if kind == "fock":
        k = rng.randint(1, 3)
        return ["Fock", [k]], k + 1
    return ["GKP", [rng.choice([0.0, math.pi, math.pi / 2, round(rng.uniform(0, 3.1), 3)]), rng.choice([0.0, round(rng.uniform(-3, 3), 3)]), round(rng.uniform(0.45, 1.0), 3), 1e-12]], 250


def gen_bosonic_ng_case(rng):
    n = rng.choice([1, 1, 2, 2, 2, 3])
    hbar = rng.choice(HBARS)
    order = rng.sample(range(n), n)
    pre, W = [], 1
    k_ng = 1 if n == 1 or rng.random() < 0.7 else 2
    for i, m in enumerate(order):
        if i < k_ng:
            c, w = gen_nongauss_prep(rng)
            if W * w > 900:
                c, w = ["Fock", [1]], 2
            W *= w
            pre.append([c[0], c[1], [m], False])
        elif rng.random() < 0.7:
            pre.append(["Sgate", [round(rng.uniform(0.1, 0.4), 3) * rng.choice([1, -1]), round(rng.uniform(-1, 1), 3)], [m], False])
            pre.append(["Dgate", [round(rng.uniform(0.1, 0.5), 3), round(rng.uniform(-2, 2), 3)], [m], False])
    for i in range(n - 1):
        if rng.random() < 0.8:
            pre.append(["BSgate", [round(rng.uniform(0.3, 1.2), 3), round(rng.uniform(-1, 1), 3)], rng.sample(range(n), 2), False])
    mode = rng.choice(["any", "any", "measure", "passive", "unitary", "loss"])
    pool = {"any": c05_names_g, "measure": c05_names_g, "passive": PASSIVE, "unitary": UNITARY, "loss": ["LossChannel"]}[mode]
    tail = []
    for _ in range(rng.randint(1, 3)):
        if mode in ("any", "measure") and rng.random() < (0.35 if mode == "any" else 0.8):
            names = ["MeasureHomodyneSel", "MeasureHeterodyneSel", "MeasureThreshold", "MeasureHomodyne", "MeasureHeterodyne", "MSgate", "GaussianNoDecomp"]
            if mode == "measure":
                names = names[:5]
            if any(c[0] == "Fock" for c in pre):
                # sampled measurements use rejection sampling with acceptance ~ 1 / sum |w_i| (1e-3 .. 1e-8 for the Fock representation)
                names = [x for x in names if x not in ("MeasureHomodyne", "MeasureHeterodyne", "MSgate")] + (["MSgate"] if mode == "any" else [])
            tail.append(extra_cmd(rng, n, rng.choice(names), hbar))
            if tail[-1][0] == "MSgate" and any(c[0] == "Fock" for c in pre):
                tail[-1][1][4] = True
            if tail[-1][0] == "MeasureThreshold" and any(c[0].startswith("Measure") and c[2] == tail[-1][2] for c in tail[:-1]):
                tail.pop()      # threshold detection of a mode that a measurement has left in vacuum: known finding (vacuum fidelity 1 + 4e-15 -> negative probability), kept in the corpus
        else:
            tail.append(bc.weak_cmd(rng, n, pool))
    return {"check": "bos-ng", "backend": "bosonic", "mode": mode, "n": n, "hbar": hbar, "pre": pre, "tail": tail, "np_seed": rng.randrange(2 ** 31),
            "stepwise": True, "dm_cutoff": 12 if W <= 300 else 0}


def search_bosonic_nongauss(ctx):
    rng = ctx.rng
    run_family(ctx, lambda: gen_bosonic_ng_case(rng), ctx.budget(100, 800),
               lambda d: "bos-ng-%s-%s" % (d["mode"], "+".join(sorted(set(c[0] + (":" + c[1][3] if c[0] == "Catstate" else "") for c in d["pre"] if c[0] in ("Catstate", "GKP", "Fock"))))),
               lambda d: True)


# ------------------------------------------------------------------------------------------------------------
# family 4: exactly representable Fock states (nothing can be truncated)
# ------------------------------------------------------------------------------------------------------------
def _rand_ket(rng, c, k, budget):
    """Random complex amplitudes on the basis states of k modes with at most `budget` photons in total."""
    re, im = np.zeros([c] * k), np.zeros([c] * k)
    idxs = [ix for ix in np.ndindex(*([c] * k)) if sum(ix) <= budget]
    chosen = rng.sample(idxs, rng.randint(1, min(4, len(idxs))))
    for ix in chosen:
        re[ix], im[ix] = rng.uniform(-1, 1), rng.uniform(-1, 1)
    nrm = math.sqrt(float((re ** 2 + im ** 2).sum()))
    return re / nrm, im / nrm, max(sum(ix) for ix in chosen)


def _ket_cmd(rng, c, modes, budget, as_dm):
    k = len(modes)
    re, im, used = _rand_ket(rng, c, k, budget)
    if not as_dm:
        return ["Ket", [np.round(re, 12).tolist(), np.round(im, 12).tolist()], list(modes), False], used
    re2, im2, used2 = _rand_ket(rng, c, k, budget)
    p = rng.uniform(0.2, 0.8)
    a, b = re + 1j * im, re2 + 1j * im2
    rho = p * np.multiply.outer(a, a.conj()) + (1 - p) * np.multiply.outer(b, b.conj())   # axes (i0..ik-1, j0..jk-1)
    rho = np.transpose(rho, [x for i in range(k) for x in (i, i + k)])              # -> (i0, j0, i1, j1, ...)
    return ["DensityMatrix", [rho.real.tolist(), rho.imag.tolist()], list(modes), False], max(used, used2)


def gen_fock_many_modes_case(rng, two_mode=True):
    """10 modes at cutoff 2, one photon shared by mode 9 and another mode (a Ket on the whole register keeps the pure representation):
    gates on mode indices up to 9.  quick: matrix-multiplication path only (each new tensor rank costs a numba compilation of the
    two-mode kernels); thorough: beam splitters as well."""
    n, c = 10, 2
    j = rng.randrange(9)
    re, im = np.zeros([c] * n), np.zeros([c] * n)
    e9, ej = [0] * n, [0] * n
    e9[9], ej[j] = 1, 1
    th = rng.uniform(0.3, 1.2)
    re[tuple(e9)] = math.cos(th)
    im[tuple(ej)] = math.sin(th)
    pre = [["Ket", [re.tolist(), im.tolist()], list(range(n)), False]]
    tail = [["Rgate", [round(rng.uniform(-3, 3), 3)], [9], False], ["CKgate", [round(rng.uniform(-3, 3), 3)], rng.choice([[9, j], [j, 9]]), False],
            ["Kgate", [round(rng.uniform(-3, 3), 3)], [rng.choice([9, j])], False]]
    if two_mode:
        a = 9
        for _ in range(2):
            b = rng.choice([x for x in range(n) if x != a])
            tail.append([rng.choice(["BSgate", "MZgate"]), [round(rng.uniform(0.3, 1.2), 3), round(rng.uniform(-2, 2), 3)], [a, b] if rng.random() < 0.5 else [b, a], False])
            a = b
    return {"check": "fock-exact", "backend": "fock-pure", "mode": "many-modes", "n": n, "hbar": 2, "cutoff": c,
            "pre": pre, "tail": tail, "np_seed": 0, "stepwise": False, "exact": True}


def gen_fock_exact_case(rng, big=False, two_mode=True):
    if big:
        return gen_fock_many_modes_case(rng, two_mode)
    else:
        c = rng.choice([3, 3, 4, 5])
        n = rng.randint(1, 3)
        pure = rng.random() < 0.5
    B = c - 1
    used = 0
    pre = []
    kind = rng.choice(["fock", "fock", "ket", "dm"])
    if kind == "fock":
        for m in rng.sample(range(n), n):
            k = rng.randint(0, B - used)
            if k:
                pre.append(["Fock", [k], [m], False])
                used += k
    else:
        k = rng.randint(1, min(n, 2))
        cmd, used = _ket_cmd(rng, c, rng.sample(range(n), k), B, kind == "dm")
        pre.append(cmd)
    live = list(range(n))
    total = n
    tail = []
    for _ in range(rng.randint(2, 6)):
        r = rng.random()
        if r < 0.5:
            pool = [x for x in NUMBER_PRESERVING if sfgen.ALL[x][0] <= len(live)]
            cmd = bc.weak_cmd(rng, len(live), pool)
            cmd[2] = [live[i] for i in cmd[2]]
        elif r < 0.7:
            cmd = ["LossChannel", [rng.choice([0.0, 1.0, 0.5, 0.25, round(rng.uniform(0.05, 0.95), 3)])], [rng.choice(live)], False]
        elif r < 0.8:
            k = rng.randint(0, B - used)
            used += k
            cmd = ["Fock", [k], [rng.choice(live)], False] if rng.random() < 0.7 else ["Vacuum", [], [rng.choice(live)], False]
            if cmd[0] == "Vacuum":
                used -= k
        elif r < 0.86 and B - used >= 0 and len(live) >= 1:
            kk = rng.randint(1, min(len(live), 2))
            cmd, u2 = _ket_cmd(rng, c, rng.sample(live, kk), B - used, rng.random() < 0.4)
            used += u2
        elif r < 0.93:
            cmd = ["MeasureFockSel", [rng.choice([0, 0, 1, rng.randint(0, B)])], [rng.choice(live)], False] if rng.random() < 0.6 else ["MeasureFock", [], rng.sample(live, rng.randint(1, len(live))), False]
        elif r < 0.97 and len(live) < 3 and total < 5:
            cmd = ["New", [], [total], False]
            live.append(total)
            total += 1
        elif len(live) > 1:
            m = rng.choice(live)
            live.remove(m)
            cmd = ["Del", [], [m], False]
        else:
            continue
        tail.append(cmd)
    return {"check": "fock-exact", "backend": "fock-pure" if pure else "fock-mixed", "mode": kind, "n": n, "hbar": rng.choice(HBARS), "cutoff": c,
            "pre": pre, "tail": tail, "np_seed": rng.randrange(2 ** 31), "stepwise": True, "exact": True}


def gen_fock_reduce_case(rng):
    """An entangled random ket on all of 2-3 modes (complex amplitudes, below the cutoff), then one mode is deleted / re-prepared / measured /
    emptied, then a passive gate on what remains: the reduced state of the other modes must be a state."""
    c = rng.choice([3, 3, 4])
    n = rng.choice([2, 3, 3])
    pure = rng.random() < 0.5
    B = c - 1
    order = rng.sample(range(n), n)
    cmd, used = _ket_cmd(rng, c, order, B, rng.random() < 0.25)
    pre = [cmd]
    if rng.random() < 0.5:
        pre.append(["BSgate", [round(rng.uniform(0.3, 1.2), 3), round(rng.uniform(-2, 2), 3)], rng.sample(range(n), 2), False])
    m = rng.randrange(n)
    kind = rng.choice(["Del", "Vacuum", "Fock", "Ket", "DensityMatrix", "MeasureFockSel", "MeasureFock", "LossChannel"])
    live = list(range(n))
    if kind == "Del":
        red = ["Del", [], [m], False]
        live.remove(m)
    elif kind == "Vacuum":
        red = ["Vacuum", [], [m], False]
    elif kind == "Fock":
        red = ["Fock", [rng.randint(0, B - used)], [m], False]
    elif kind in ("Ket", "DensityMatrix"):
        red, _ = _ket_cmd(rng, c, [m], B - used, kind == "DensityMatrix")
    elif kind == "MeasureFockSel":
        red = ["MeasureFockSel", [rng.choice([0, 0, 1, 2])], [m], False]
    elif kind == "MeasureFock":
        red = ["MeasureFock", [], [m], False]
    else:
        red = ["LossChannel", [rng.choice([0.0, 0.0, 0.5])], [m], False]
    tail = [red]
    if len(live) >= 2 and rng.random() < 0.6:
        g = bc.weak_cmd(rng, len(live), ["BSgate", "MZgate", "CKgate"])
        g[2] = [live[i] for i in g[2]]
        tail.append(g)
    d = {"check": "fock-exact", "backend": "fock-pure" if pure else "fock-mixed", "mode": "reduce-" + kind, "n": n, "hbar": 2, "cutoff": c,
         "pre": pre, "tail": tail, "np_seed": rng.randrange(2 ** 31), "stepwise": True, "exact": True}
    if kind != "Del" and rng.random() < 0.5:
        d["sub"] = rng.sample(range(n), rng.randint(1, n))
    return d


def search_fock_exact(ctx):
    rng = ctx.rng
    run_family(ctx, lambda: gen_fock_reduce_case(rng), ctx.budget(60, 500),
               lambda d: "fock-exact-%s" % d["mode"], lambda d: True)
    run_family(ctx, lambda: gen_fock_exact_case(rng), ctx.budget(150, 1200),
               lambda d: "fock-exact-%s-%s" % (d["backend"], d["mode"]), lambda d: True)
    run_family(ctx, lambda: gen_fock_exact_case(rng, big=True, two_mode=not ctx.quick), ctx.budget(1, 6),
               lambda d: "fock-exact-%d-modes" % d["n"], lambda d: True)


# ------------------------------------------------------------------------------------------------------------
# family 5: low-energy Fock circuits at a large cutoff: trace may only be lost where there is population next to the cutoff
# ------------------------------------------------------------------------------------------------------------
def gen_fock_trunc_case(rng):
    n = rng.choice([1, 1, 2])
    pure = rng.random() < 0.5
    cutoff = 20 if n == 1 else 11
    sg = lambda: rng.choice([1, -1])
    ang = lambda: rng.choice([0.0, math.pi / 2, round(rng.uniform(-3, 3), 3)])
    cmds = []
    for _ in range(rng.randint(2, 5)):
        m = rng.randrange(n)
        two = rng.sample(range(n), 2) if n == 2 else None
        name = rng.choice(["Coherent", "Squeezed", "DisplacedSqueezed", "Thermal", "Fock", "Vacuum", "Catstate", "Dgate", "Sgate", "Rgate", "Kgate", "Vgate", "Xgate", "Zgate",
                           "Pgate", "Fouriergate", "LossChannel", "MeasureHomodyneSel", "MeasureFockSel"] + (["BSgate", "MZgate", "S2gate", "CKgate", "CXgate", "CZgate"] * 2 if n == 2 else []))
        dag = rng.random() < 0.2
        if name == "Coherent":
            c = [name, [round(rng.uniform(0, 0.45), 3), ang()], [m], False]
        elif name == "Squeezed":
            c = [name, [round(rng.uniform(0.02, 0.25), 3) * sg(), ang()], [m], False]
        elif name == "DisplacedSqueezed":
            c = [name, [round(rng.uniform(0.05, 0.35), 3), ang(), round(rng.uniform(0.05, 0.2), 3) * sg(), ang()], [m], False]
        elif name == "Thermal":
            c = [name, [rng.choice([0.0, round(rng.uniform(0.01, 0.15), 3)])], [m], False]
        elif name == "Fock":
            c = [name, [rng.randint(0, 2)], [m], False]
        elif name == "Vacuum":
            c = [name, [], [m], False]
        elif name == "Catstate":
            c = [name, [round(rng.uniform(0.1, 0.6), 3), ang(), rng.choice([0, 1, 0.5]), "complex"], [m], False]
        elif name == "Dgate":
            c = [name, [round(rng.uniform(0, 0.3), 3), ang()], [m], dag]
        elif name == "Sgate":
            c = [name, [round(rng.uniform(0, 0.2), 3) * sg(), ang()], [m], dag]
        elif name in ("Rgate", "Kgate"):
            c = [name, [ang()], [m], dag]
        elif name == "Vgate":
            c = [name, [round(rng.uniform(-0.05, 0.05), 3)], [m], dag]
        elif name in ("Xgate", "Zgate"):
            c = [name, [round(rng.uniform(-0.4, 0.4), 3)], [m], dag]
        elif name == "Pgate":
            c = [name, [round(rng.uniform(-0.15, 0.15), 3)], [m], dag]
        elif name == "Fouriergate":
            c = [name, [], [m], dag]
        elif name == "LossChannel":
            c = [name, [rng.choice([0.0, 1.0, round(rng.uniform(0.1, 0.9), 3)])], [m], False]
        elif name == "MeasureHomodyneSel":
            c = [name, [ang(), round(rng.uniform(-0.5, 0.5), 3)], [m], False]
        elif name == "MeasureFockSel":
            c = [name, [rng.choice([0, 0, 1])], [m], False]
        elif name in ("BSgate", "MZgate"):
            c = [name, [ang(), ang()], two, dag]
        elif name == "S2gate":
            c = [name, [round(rng.uniform(0, 0.2), 3) * sg(), ang()], two, dag]
        elif name == "CKgate":
            c = [name, [ang()], two, dag]
        else:
            c = [name, [round(rng.uniform(-0.12, 0.12), 3)], two, dag]
        cmds.append(c)
    return {"check": "fock-trunc", "backend": "fock-pure" if pure else "fock-mixed", "mode": "low-energy", "n": n, "hbar": rng.choice(HBARS), "cutoff": cutoff,
            "pre": cmds[:1], "tail": cmds[1:], "np_seed": 0, "stepwise": True, "truncation": True}


def gen_fock_block_case(rng):
    """One operation (sizeable parameters) on number-state inputs at a small cutoff c and at a large cutoff C: truncated gate matrices,
    states and Kraus operators are exact sub-blocks, so rho_c must equal the c-block of rho_C (this is what 'trace is lost only through
    truncation' means for one operation; the cubic phase gate is defined by a truncated exponential and is not part of this family)."""
    n = rng.choice([1, 2])
    c = rng.choice([3, 4, 5, 6])
    C = c + 26 if n == 1 else 16
    pure = rng.random() < 0.5
    ang = lambda: rng.choice([0.0, math.pi / 2, round(rng.uniform(-3, 3), 3)])
    sg = lambda: rng.choice([1, -1])
    pre = []
    for m in range(n):
        k = rng.choice([0, 0, 1, 2, c - 1 if n == 1 else min(c - 1, 3)])
        if k and k < c:
            pre.append(["Fock", [k], [m], False])
    m = rng.randrange(n)
    two = rng.sample(range(n), 2) if n == 2 else None
    name = rng.choice(["Dgate", "Sgate", "Xgate", "Zgate", "Rgate", "Kgate", "LossChannel", "Coherent", "Squeezed", "DisplacedSqueezed", "Thermal"]
                      + (["S2gate", "S2gate", "S2gate", "BSgate", "MZgate", "CKgate"] * 2 if n == 2 else []))
    dag = rng.random() < 0.25
    big = n == 1
    if name == "Dgate":
        op = [name, [round(rng.uniform(0.1, 1.2 if big else 0.6), 3), ang()], [m], dag]
    elif name == "Sgate":
        op = [name, [round(rng.uniform(0.1, 0.8 if big else 0.45), 3) * sg(), ang()], [m], dag]
    elif name in ("Xgate", "Zgate"):
        op = [name, [round(rng.uniform(-1.5, 1.5) if big else rng.uniform(-0.8, 0.8), 3)], [m], dag]
    elif name in ("Rgate", "Kgate"):
        op = [name, [ang()], [m], dag]
    elif name == "LossChannel":
        op = [name, [rng.choice([0.0, 1.0, round(rng.uniform(0.05, 0.95), 3)])], [m], False]
    elif name == "Coherent":
        op = [name, [round(rng.uniform(0.1, 1.2 if big else 0.6), 3), ang()], [m], False]
    elif name == "Squeezed":
        op = [name, [round(rng.uniform(0.1, 0.8 if big else 0.45), 3) * sg(), ang()], [m], False]
    elif name == "DisplacedSqueezed":
        op = [name, [round(rng.uniform(0.1, 0.8 if big else 0.4), 3), ang(), round(rng.uniform(0.1, 0.5 if big else 0.3), 3) * sg(), ang()], [m], False]
    elif name == "Thermal":
        op = [name, [round(rng.uniform(0.05, 1.0 if big else 0.4), 3)], [m], False]
    elif name == "S2gate":
        op = [name, [round(rng.uniform(0.1, 0.5), 3) * sg(), ang()], two, dag]
    elif name in ("BSgate", "MZgate"):
        op = [name, [ang(), ang()], two, dag]
    else:
        op = [name, [ang()], two, dag]
    return {"check": "fock-block", "backend": "fock-pure" if pure else "fock-mixed", "n": n, "cutoff": c, "big": C, "hbar": rng.choice(HBARS), "cmds": pre + [op]}


def eval_fock_block(d):
    n, c, C = d["n"], d["cutoff"], d["big"]
    spec = {"n": n, "cmds": d["cmds"]}
    op = d["cmds"][-1][0]
    try:
        small = fock_matrix(run_spec(spec, d["backend"], c, d["hbar"]), n, c)
        large = fock_matrix(run_spec(spec, d["backend"], C, d["hbar"]), n, C)
    except Exception as e:
        return ("physical:fock:raises:%s:%s" % (type(e).__name__, op), "running %s raised %r" % (d["cmds"], e))
    idx = [int(np.ravel_multi_index(ix, [C] * n)) for ix in np.ndindex(*([c] * n))]
    block = large[np.ix_(idx, idx)]
    if abs(np.trace(large).real - 1) > 1e-6:
        return "skip"       # (the reference itself is truncated: parameters too large for this family)
    dev = float(np.abs(small - block).max())
    if dev > 1e-8:
        return ("fock:not-a-block-of-the-untruncated-state:%s" % op, "after %s the state at cutoff %d differs by %.3g from the same state computed at cutoff %d and cut down "
                "(trace %.9f vs %.9f): more than truncation happened" % (d["cmds"], c, dev, C, np.trace(small).real, np.trace(block).real))
    return None


def search_fock_block(ctx):
    rng = ctx.rng
    done = tries = 0
    want = ctx.budget(110, 900)
    while done < want and tries < 3 * want:
        tries += 1
        d = gen_fock_block_case(rng)
        r = eval_fock_block(d)
        if r == "skip":
            continue
        done += 1
        ctx.case(d, nontrivial=True, bucket="fock-block-%s" % d["cmds"][-1][0])
        if r:
            ctx.counterexample(r[0], r[1], d)


def search_fock_trunc(ctx):
    rng = ctx.rng
    run_family(ctx, lambda: gen_fock_trunc_case(rng), ctx.budget(100, 800),
               lambda d: "fock-trunc-%s-%d" % (d["backend"], d["n"]), lambda d: True)


# ------------------------------------------------------------------------------------------------------------
# family 6: photon numbers, purity and trace do not depend on the unit convention; vacuum anchors
# ------------------------------------------------------------------------------------------------------------
HBAR_FREE = ["Dgate", "Sgate", "Rgate", "Fouriergate", "BSgate", "MZgate", "S2gate", "LossChannel", "ThermalLossChannel", "Vacuum", "Coherent", "Squeezed", "DisplacedSqueezed", "Thermal"]


def gen_hbar_case(rng, backend):
    fock = backend.startswith("fock")
    n = rng.randint(1, 2 if fock else 4)
    pre = [c for c in bc.weak_prefix(rng, n) if not (fock and c[0] == "ThermalLossChannel")]
    pool = [x for x in HBAR_FREE if not (fock and x == "ThermalLossChannel")] + (["Kgate", "CKgate", "Fock"] if fock else [])
    tail = [bc.weak_cmd(rng, n, pool) for _ in range(rng.randint(1, 3))]
    if backend == "bosonic" and rng.random() < 0.5:
        c, _ = gen_nongauss_prep(rng)
        if c[0] != "GKP" and not (c[0] == "Catstate" and c[1][3] == "real"):
            pre = [[c[0], c[1], [0], False]] + [x for x in pre if x[2] != [0] or x[0] == "BSgate"]
    return {"check": "hbar", "backend": backend, "n": n, "hbar": rng.choice([1, 0.5, 1.7, 4, 3]), "cutoff": FOCK_CUTOFF[n] if fock else 0, "cmds": pre + tail}


def eval_hbar(d):
    spec = {"n": d["n"], "cmds": d["cmds"]}
    b = bshort(d["backend"])
    out = []
    for h in (2, d["hbar"]):
        try:
            v, m = check_state(d["backend"], spec, d.get("cutoff") or 8, h)
        except Exception as e:
            return ("physical:%s:raises:%s:hbar" % (b, type(e).__name__), "running at hbar = %s raised %r" % (h, e))
        if v:
            return ("physical:%s:%s:hbar" % (b, v.split("(")[0]), "state at hbar = %s is not physical: %s" % (h, v))
        out.append(m)
    m2, mh = out
    for i, (x, y) in enumerate(zip(m2["photons"], mh["photons"])):
        if abs(x - y) > (1e-7 + m2.get("ph_noise", 0.0) + mh.get("ph_noise", 0.0)) * (1 + abs(x)):
            return ("hbar:%s:mean_photon-depends-on-hbar" % b, "mean photon number of mode %d is %.9g at hbar = 2 and %.9g at hbar = %s" % (i, x, y, d["hbar"]))
    if "purity" in m2 and "purity" in mh and abs(m2["purity"] - mh["purity"]) > 1e-6 + m2.get("pur_noise", 0.0) + mh.get("pur_noise", 0.0):
        return ("hbar:%s:purity-depends-on-hbar" % b, "purity is %.9g at hbar = 2 and %.9g at hbar = %s" % (m2["purity"], mh["purity"], d["hbar"]))
    if "trace" in m2 and abs(m2["trace"] - mh["trace"]) > 1e-9:
        return ("hbar:%s:trace-depends-on-hbar" % b, "trace is %.9g at hbar = 2 and %.9g at hbar = %s" % (m2["trace"], mh["trace"], d["hbar"]))
    return None


def eval_anchor(d):
    """Vacuum (empty program, or every mode through LossChannel(0) / Vacuum after a circuit): no photons, purity 1, trace 1."""
    spec = {"n": d["n"], "cmds": d["cmds"]}
    b = bshort(d["backend"])
    try:
        v, m = check_state(d["backend"], spec, d.get("cutoff") or 6, d["hbar"])
    except Exception as e:
        return ("physical:%s:raises:%s:anchor" % (b, type(e).__name__), "raised %r" % e)
    if v:
        return ("physical:%s:%s:anchor" % (b, v.split("(")[0]), "vacuum at hbar = %s is not physical: %s" % (d["hbar"], v))
    if abs(m["total"]) > 1e-8:
        return ("anchor:%s:vacuum-has-photons" % b, "vacuum has mean photon number %.9g (hbar = %s)" % (m["total"], d["hbar"]))
    tr = m.get("trace", 1.0)     # (Fock: the prefix may have lost trace to the truncation)
    if "purity" in m and abs(m["purity"] - tr ** 2) > 1e-7:
        return ("anchor:%s:vacuum-not-pure" % b, "vacuum has purity %.9g (hbar = %s)" % (m["purity"], d["hbar"]))
    if not d["cmds"] and abs(tr - 1) > 1e-9:
        return ("anchor:%s:vacuum-trace" % b, "vacuum has trace %.9g" % tr)
    return None


def search_units(ctx):
    rng = ctx.rng
    for backend, cnt in ctx.budget({"gaussian": 30, "bosonic": 30, "fock-pure": 4, "fock-mixed": 4}, {"gaussian": 300, "bosonic": 300, "fock-pure": 30, "fock-mixed": 30}).items():
        for _ in range(cnt):
            d = gen_hbar_case(rng, backend)
            r = eval_hbar(d)
            ctx.case({k: d[k] for k in ("backend", "n", "hbar")} | {"ops": opsig(d["cmds"])}, nontrivial=d["n"] >= 2, bucket="hbar-%s" % backend)
            if r:
                ctx.counterexample(r[0], r[1], d)
    for backend in bc.BACKENDS:
        fock = backend.startswith("fock")
        for hbar in (2, 0.5, 4):
            for n in (1, 2, 3) if not fock else (1, 2):
                clear = rng.choice(["LossChannel", "Vacuum"])
                for cmds in ([], [c for c in bc.weak_prefix(rng, n) if not (fock and c[0] == "ThermalLossChannel")] + [[clear, [0.0] if clear == "LossChannel" else [], [i], False] for i in range(n)]):
                    d = {"check": "anchor", "backend": backend, "n": n, "hbar": hbar, "cutoff": 6, "cmds": cmds}
                    r = eval_anchor(d)
                    ctx.case({"backend": backend, "n": n, "hbar": hbar, "empty": not cmds}, nontrivial=bool(cmds), bucket="anchor-%s" % backend)
                    if r:
                        ctx.counterexample(r[0], r[1], d)


# ------------------------------------------------------------------------------------------------------------
# family 7 (kept from the first rounds): population in the highest Fock level, then loss
# ------------------------------------------------------------------------------------------------------------
def fock_top_level_case(rng, pure):
    """Population in the highest Fock level, passive mixing (total photon number stays below the cutoff), then loss:
    nothing is truncated, so the trace must stay 1 and the photon number must scale exactly by T."""
    cutoff = rng.choice([3, 4])
    n = rng.randint(1, 2)
    cmds = [["Fock", [cutoff - 1], [0], False]]
    if n == 2 and rng.random() < 0.7:
        cmds.append(["BSgate", [round(rng.uniform(0.2, 1.3), 3), round(rng.uniform(-1, 1), 3)], rng.sample([0, 1], 2), False])
    T = rng.choice([0.5, 0.25, 0.8, round(rng.uniform(0.1, 0.9), 3)])
    k = rng.randrange(n)
    return {"cutoff": cutoff, "n": n, "cmds": cmds, "loss": [T, k], "pure": pure}


def eval_fock_top_level(d):
    spec0 = {"n": d["n"], "cmds": d["cmds"]}
    spec1 = {"n": d["n"], "cmds": d["cmds"] + [["LossChannel", [d["loss"][0]], [d["loss"][1]], False]]}
    b = "fock-pure" if d["pure"] else "fock-mixed"
    s0 = run_spec(spec0, b, d["cutoff"])
    s1 = run_spec(spec1, b, d["cutoff"])
    tr0, tr1 = float(np.real(s0.trace())), float(np.real(s1.trace()))
    k = d["loss"][1]
    n0, n1 = float(s0.mean_photon(k)[0]), float(s1.mean_photon(k)[0])
    if abs(tr0 - 1) < 1e-9 and abs(tr1 - 1) > 1e-8:
        return "trace-lost-without-truncation(%.6f)" % tr1
    if abs(n1 - d["loss"][0] * n0) > 1e-8:
        return "loss-photon-number(%.6f vs %.6f)" % (n1, d["loss"][0] * n0)
    return None


def search_fock_top(ctx):
    rng = ctx.rng
    for i in range(ctx.budget(16, 120)):
        d = fock_top_level_case(rng, pure=(i % 2 == 0))
        try:
            v = eval_fock_top_level(d)
        except Exception as e:
            ctx.counterexample("fock-top-level:raises:%s" % type(e).__name__, "raised %r" % e, {"check": "fock-top", "case": d})
            continue
        ctx.case(d, nontrivial=True, bucket="fock-top-level")
        if v:
            ctx.counterexample("fock:loss:%s" % v.split("(")[0], "loss on a state with population in the top Fock level: %s" % v, {"check": "fock-top", "case": d})


def search(ctx):
    search_circuits(ctx)
    search_histories(ctx)
    search_bosonic_nongauss(ctx)
    search_fock_exact(ctx)
    search_fock_trunc(ctx)
    search_fock_block(ctx)
    search_units(ctx)
    search_fock_top(ctx)


def replay(ctx, data):
    d = data["data"]
    chk = str(d.get("check", ""))
    if chk.startswith("bosonic"):
        return bm.replay_bosonic(ctx, data)
    if chk == "fock-top":
        v = eval_fock_top_level(d["case"])
        print("fock top level:", v)
        return bool(v)
    if chk == "hist":
        v, m = check_state(d["backend"], d["spec"], d.get("cutoff", 8), d.get("hbar", 2))
        print("state:", v, m)
        return bool(v)
    if chk == "bos-dm":
        st = run_spec({"n": d["n"], "cmds": d["cmds"]}, "bosonic", hbar=d.get("hbar", 2))
        rho = np.array(st.reduced_dm([d.get("mode", 0)], cutoff=d.get("dm_cutoff", 10)))
        dev = float(np.abs(rho - rho.conj().T).max())
        print("bosonic reduced_dm: max |rho - rho^dagger| =", dev)
        return dev > 1e-8
    if chk == "fock-block":
        r = eval_fock_block(d)
        print("block:", r)
        return bool(r) and r != "skip"
    if chk == "hbar":
        r = eval_hbar(d)
        print("hbar:", r)
        return bool(r)
    if chk == "anchor":
        r = eval_anchor(d)
        print("anchor:", r)
        return bool(r)
    if chk in ("phys", "bos-ng", "fock-exact", "fock-trunc"):
        d = dict(d)
        if chk == "phys" and "stepwise" not in d:     # replay files of the first rounds
            d.update(stepwise=False, cutoff=8, hbar=2)
        r = eval_steps(d)
        print("steps:", r)
        return bool(r) and r != "skip"
    return False
