"""C01 — all simulator backends compute the same physics for the same program."""
import math

import numpy as np

import strawberryfields as sf
from strawberryfields import ops as sfops

from props import backends_common as bc
from props import gauss_common as gc
from props import bosonic_model as bm
from props import fock_axes as fa
from vlib import sfgen

PROP = "C01"
LEVEL = "proof"
COQ_DIRS = ["C01", "FockAxes", "Bosonic", "BosonicAgree", "C07"]
COQ_TARGETS = ["Gen/GaussCirc.vo", "Base/MatOps.vo", "Gen/GaussMat.vo", "C07/GaussPhysical.vo", "C07/GaussPassive.vo", "C01/GaussReadout.vo", "Base/GaussTac.vo", "Base/PhaseSpace.vo", "C01/GaussPhaseSpace.vo"] + list(fa.COQ_TARGETS) + list(bm.COQ_TARGETS) + list(bm.COQ_TARGETS_AGREE)
PROPERTIES_FILE = "Properties/C01.v"
EXTRA_PROPERTIES_FILES = [fa.PROPERTIES_FILE, bm.PROPERTIES_FILE, bm.PROPERTIES_FILE_AGREE]
ALLOWED_AXIOMS = set()
TRANSLATORS = [gc.translate_gausscirc, gc.translate_gaussmat_fn]
RULE = ("(a) generated-function and read-out correspondence (GaussianModes methods, scovmatxp/smeanxp) at binary64; (b) differential search: random "
        "programs (n = 1..6 modes, 1..7 commands over gates/channels/preparations incl. daggers, zero / tiny / multiple-of-pi parameters, any ordered "
        "targets, New/Del histories, post-selected homodyne / heterodyne, Gaussian(V, r) with and without decomposition, PassiveChannel, Interferometer "
        "(all 7 meshes), GaussianTransform, free parameters bound by Engine.run(args=...) and parameters fed forward from a measurement, conventions "
        "hbar in {2, 1, 0.5, 3, 1.7}, reduced states requested through Engine.run(modes=...)) run on gaussian, bosonic and an independent numpy "
        "phase-space reference; fock-pure vs fock-mixed (dm, incl. non-Gaussian gates, cat states, post-selected homodyne / Fock measurements, "
        "New/Del, cutoffs 4..9, run(modes=...) vs the partial trace); gaussian vs fock (exact matrix elements via The Walrus, tolerance from the "
        "trace deficit capped by what truncation can explain); bosonic vs fock for cat / GKP / Fock-state preparations followed by Gaussian "
        "operations (moments, single-mode Wigner functions, photon statistics); bosonic MSgate vs the documented average map and, with an "
        "ideal ancilla, vs the squeezing gate; backend.reset() vs a fresh circuit; (c) deterministic sweeps on correlated registers: every "
        "preparation / loss on every mode and every two-mode gate on every ordered pair of 3 modes (gaussian vs fock-pure vs fock-mixed), "
        "New/Del histories (single and double deletions, re-allocation), every ordered subset for run(modes=...), every Interferometer mesh "
        "on 2..4 shuffled modes, GaussianTransform passive/active, every branch of Gaussian's decomposition; non-trivial = >= 2 modes and some "
        "command whose targets are not (0) / (0,1) in ascending order")
TRUSTED_BASE = [
    "Coq 8.16.1 kernel; vm_compute for evaluating generated functions at PrimFloat",
    "translator tools/translate_gauss.py (fail-closed; validated against GaussianModes at binary64 on every run); hand model Base/PhaseSpace.v of "
    "scovmatxp/smeanxp tied by float correspondence",
    "independent phase-space reference in tools/props/c01.py (documented symplectic matrices, hbar = 2; programs written for another hbar are "
    "rescaled by the documented units of Xgate / Zgate / homodyne outcomes / Gaussian moments) — a test oracle",
    "ladder-operator moments of Fock density tensors and numpy partial traces in tools/props/c01.py; BaseFockState / BaseBosonicState wigner() and "
    "mean_photon() of strawberryfields/backends/states.py as read-outs for the bosonic-vs-fock comparison",
    "The Walrus density_matrix as bridge between Gaussian and Fock representations (library)",
]
ASSUMPTIONS = ["Fock matrix elements of gates (The Walrus / ops.py closed forms) are not modelled: agreement with the Fock simulator is search-only",
               "non-Gaussian preparations of the bosonic backend (cat / GKP / Fock weights, means, covs), decompositions in ops.py, hbar conventions, "
               "Engine.run(modes=...), reset(): search-only",
               "bosonic Fock(n) is an approximation (quality parameter r = 0.05): compared with 0.03 n tolerance and never followed by post-selection"]
MANIFEST_TEXT = ("Proved over any commutative ring, all register sizes / target positions / parameters: read-out(op s) = documented symplectic-affine map "
                 "applied to read-out(s) for rotation, squeezing, displacement, beam splitter, loss, thermal loss, thermal preparation of GaussianModes "
                 "(model regenerated each run); Fock simulator: gates act on exactly the listed modes in the listed order, pure and mixed representations "
                 "commute (FockAxes). Bosonic agreement and agreement of Fock matrix elements with phase space: differential search (partial).")


# ------------------------------------------------------------------------------------------
# independent phase-space reference (xxpp order, hbar = 2)

def _embed1(n, k, S2):
    S = np.eye(2 * n)
    S[np.ix_([k, k + n], [k, k + n])] = S2
    return S


def _embed2(n, k, l, S4):
    """S4 in order (x_k, x_l, p_k, p_l)."""
    S = np.eye(2 * n)
    idx = [k, l, k + n, l + n]
    S[np.ix_(idx, idx)] = S4
    return S


def _bs(theta, phi):
    c, s = math.cos(theta), math.sin(theta)
    cp, sp = math.cos(phi), math.sin(phi)
    # a_k -> c a_k - e^{-i phi} s a_l ; a_l -> c a_l + e^{i phi} s a_k
    return np.array([[c, -s * cp, 0, -s * sp],
                     [s * cp, c, -s * sp, 0],
                     [0, s * sp, c, -s * cp],
                     [s * sp, 0, s * cp, c]])


def _rot(phi):
    return np.array([[math.cos(phi), -math.sin(phi)], [math.sin(phi), math.cos(phi)]])


def _sq(r, phi):
    ch, sh = math.cosh(r), math.sinh(r)
    return np.array([[ch - math.cos(phi) * sh, -math.sin(phi) * sh], [-math.sin(phi) * sh, ch + math.cos(phi) * sh]])


def _gate_matrix(name, params, n, modes):
    """Symplectic matrix and displacement of one (non-daggered) gate."""
    d = np.zeros(2 * n)
    k = modes[0]
    l = modes[1] if len(modes) > 1 else None
    if name == "Dgate":
        r, phi = params
        d[k], d[k + n] = 2 * r * math.cos(phi), 2 * r * math.sin(phi)
        return np.eye(2 * n), d
    if name == "Xgate":
        d[k] = params[0]
        return np.eye(2 * n), d
    if name == "Zgate":
        d[k + n] = params[0]
        return np.eye(2 * n), d
    if name == "Sgate":
        return _embed1(n, k, _sq(*params)), d
    if name == "Rgate":
        return _embed1(n, k, _rot(params[0])), d
    if name == "Fouriergate":
        return _embed1(n, k, _rot(math.pi / 2)), d
    if name == "Pgate":
        return _embed1(n, k, np.array([[1, 0], [params[0], 1]])), d
    if name == "BSgate":
        return _embed2(n, k, l, _bs(*params)), d
    if name == "MZgate":
        phi_in, phi_ex = params
        B = _embed2(n, k, l, _bs(math.pi / 4, math.pi / 2))
        return B @ _embed1(n, k, _rot(phi_in)) @ B @ _embed1(n, k, _rot(phi_ex)), d
    if name == "S2gate":
        r, phi = params
        ch, sh = math.cosh(r), math.sinh(r)
        c, s = math.cos(phi), math.sin(phi)
        # documented: S2(z) = exp(z a1^dag a2^dag - z^* a1 a2):  a1 -> ch a1 + e^{i phi} sh a2^dag, a2 -> ch a2 + e^{i phi} sh a1^dag
        S4 = np.array([[ch, c * sh, 0, s * sh],
                       [c * sh, ch, s * sh, 0],
                       [0, s * sh, ch, -c * sh],
                       [s * sh, 0, -c * sh, ch]])
        return _embed2(n, k, l, S4), d
    if name == "CXgate":
        s_ = params[0]
        S4 = np.eye(4)
        S4[1, 0] = s_      # x_l += s x_k
        S4[2, 3] = -s_     # p_k -= s p_l
        return _embed2(n, k, l, S4), d
    if name == "CZgate":
        s_ = params[0]
        S4 = np.eye(4)
        S4[2, 1] = s_      # p_k += s x_l
        S4[3, 0] = s_      # p_l += s x_k
        return _embed2(n, k, l, S4), d
    raise KeyError(name)


def reference(spec):
    """Independent phase-space simulation. With New/Del pseudo-commands the register changes size: `live` maps
    positions to external mode indices, and the returned (mu, V) cover the live modes in index order."""
    n = spec["n"]
    mu = np.zeros(2 * n)
    V = np.eye(2 * n)
    live = list(range(n))
    for name, params, modes, dagger in spec["cmds"]:
        if name == "New":
            k_old = len(live)
            live.append(modes[0])
            perm_x, perm_p = list(range(k_old)), list(range(k_old, 2 * k_old))
            mu2 = np.zeros(2 * (k_old + 1))
            V2 = np.eye(2 * (k_old + 1))
            ix = perm_x + [k_old + 1 + i for i in range(k_old)]
            mu2[ix] = mu
            V2[np.ix_(ix, ix)] = V
            mu, V, n = mu2, V2, k_old + 1
            continue
        if name == "Del":
            pos = live.index(modes[0])
            keep = [i for i in range(2 * n) if i not in (pos, pos + n)]
            mu, V = mu[keep], V[np.ix_(keep, keep)]
            live.pop(pos)
            n -= 1
            continue
        modes = [live.index(m) for m in modes]
        k = modes[0]
        if name in sfgen.GAUSSIAN_GATES:
            S, d = _gate_matrix(name, params, n, modes)
            if dagger:
                S = np.linalg.inv(S)
                d = -S @ d
            mu = S @ mu + d
            V = S @ V @ S.T
        elif name in ("LossChannel", "ThermalLossChannel"):
            T = params[0]
            nb = params[1] if name == "ThermalLossChannel" else 0.0
            X = np.eye(2 * n)
            X[k, k] = X[k + n, k + n] = math.sqrt(T)
            Y = np.zeros((2 * n, 2 * n))
            Y[k, k] = Y[k + n, k + n] = (1 - T) * (2 * nb + 1)
            mu = X @ mu
            V = X @ V @ X.T + Y
        elif name in ("MeasureHomodyneSel", "MeasureHeterodyneSel"):
            # post-selected measurement of mode k: the others get the textbook conditional state, k is reset to vacuum
            B = [k, k + n]
            A = [i for i in range(2 * n) if i not in B]
            VA, VAB, VB = V[np.ix_(A, A)], V[np.ix_(A, B)], V[np.ix_(B, B)]
            mA, mB = mu[A], mu[B]
            if name == "MeasureHomodyneSel":
                phi, val = params
                w = np.array([math.cos(phi), math.sin(phi)])  # measured quadrature x_phi = cos(phi) x + sin(phi) p
                var = float(w @ VB @ w)
                gain = (VAB @ w) / var
                VA = VA - np.outer(gain, VAB @ w)
                mA = mA + gain * (val - float(w @ mB))
            else:
                u = np.array([2 * params[0], 2 * params[1]])
                Kg = VAB @ np.linalg.inv(VB + np.eye(2))
                VA = VA - Kg @ VAB.T
                mA = mA + Kg @ (u - mB)
            V = np.eye(2 * n)
            mu = np.zeros(2 * n)
            V[np.ix_(A, A)] = VA
            mu[A] = mA
        elif name == "PassiveChannel":
            # documented action a_i^dag -> sum_j T_ij a_j^dag on the listed modes: mu -> S mu, V -> S V S^T + (1 - S S^T) (hbar = 2 vacuum fill)
            Te = np.eye(n, dtype=complex)
            Te[np.ix_(modes, modes)] = np.array(params[0], dtype=float) + 1j * np.array(params[1], dtype=float)
            S = np.block([[Te.real, -Te.imag], [Te.imag, Te.real]])
            mu = S @ mu
            V = S @ V @ S.T + np.eye(2 * n) - S @ S.T
        elif name == "Interferometer":
            # documented action a_i -> sum_j U_ij a_j on the listed modes (in the listed order)
            Ue = np.eye(n, dtype=complex)
            Ue[np.ix_(modes, modes)] = np.array(params[0], dtype=float) + 1j * np.array(params[1], dtype=float)
            S = np.block([[Ue.real, -Ue.imag], [Ue.imag, Ue.real]])
            mu = S @ mu
            V = S @ V @ S.T
        elif name == "GaussianTransform":
            idx = list(modes) + [m + n for m in modes]
            S = np.eye(2 * n)
            S[np.ix_(idx, idx)] = np.array(params[0], dtype=float)
            mu = S @ mu
            V = S @ V @ S.T
        elif name == "MSgate":
            # measurement-based squeezing, average map (documented): R(phi/2) . (X, Y) . R(-phi/2), cos(theta) = e^-|r|, r < 0 <=> phi + pi
            r_, phi_, r_anc, eta = params[0], params[1], params[2], params[3]
            if r_ < 0:
                phi_ += math.pi
            r_ = abs(r_)
            cth = math.exp(-r_)
            sth2 = 1 - cth ** 2
            Rm, Rp = _embed1(n, k, _rot(-phi_ / 2)), _embed1(n, k, _rot(phi_ / 2))
            X = np.eye(2 * n)
            X[k, k], X[k + n, k + n] = cth, 1 / cth
            Y = np.zeros((2 * n, 2 * n))
            Y[k, k], Y[k + n, k + n] = sth2 * math.exp(-2 * r_anc), (sth2 / cth ** 2) * (1 - eta) / eta
            mu = Rp @ X @ Rm @ mu
            V = Rp @ (X @ Rm @ V @ Rm.T @ X.T + Y) @ Rp.T
        elif name in ("GaussianNoDecomp", "GaussianDecomp"):
            Vn, rn = np.array(params[0], dtype=float), np.array(params[1], dtype=float)
            kk = len(modes)
            idx = list(modes) + [m + n for m in modes]
            V[idx, :] = 0
            V[:, idx] = 0
            V[np.ix_(idx, idx)] = Vn
            mu[idx] = rn
        else:  # preparations: reset mode k then prepare
            idx = [k, k + n]
            V[idx, :] = 0
            V[:, idx] = 0
            mu[idx] = 0
            blk, dd = np.eye(2), np.zeros(2)
            if name == "Coherent":
                dd = np.array([2 * params[0] * math.cos(params[1]), 2 * params[0] * math.sin(params[1])])
            elif name == "Squeezed":
                S2 = _sq(*params)
                blk = S2 @ S2.T
            elif name == "DisplacedSqueezed":
                S2 = _sq(params[2], params[3])
                blk = S2 @ S2.T
                dd = np.array([2 * params[0] * math.cos(params[1]), 2 * params[0] * math.sin(params[1])])
            elif name == "Thermal":
                blk = (2 * params[0] + 1) * np.eye(2)
            elif name != "Vacuum":
                raise KeyError(name)
            V[np.ix_(idx, idx)] = blk
            mu[idx] = dd
    return mu, V


# ------------------------------------------------------------------------------------------

def correspondence(ctx):
    bm.correspondence_bosonic(ctx, predicates=('reference', 'spectator'))
    failing = gc.correspondence_generated(ctx, ctx.budget(240, 3000), tag="c01")
    if failing:
        for c in failing[:5]:
            small = {k: c[k] for k in ("method", "n", "args", "structured")}
            ctx.disagreement("corr:gausscirc:" + c["method"], "generated model of GaussianModes.%s disagrees with the implementation" % c["method"], {"check": "gm", "case": small})
    fa.correspondence_fock_axes(ctx)
    bad = gc.correspondence_readout(ctx, ctx.budget(60, 600), tag="c01ro")
    if bad:
        ctx.disagreement("corr:readout", "model of scovmatxp/smeanxp disagrees with the implementation", {"check": "readout", "n": bad[0][0]})
    bad = gc.correspondence_apply_u(ctx, ctx.budget(60, 600), tag="c01au")
    if bad:
        ctx.disagreement("corr:gaussmat:apply_u", "generated model of GaussianModes.apply_u disagrees with the implementation (%s U, n = %d)" % (bad[0]["kind"], bad[0]["n"]),
                         {"check": "apply_u", "kind": bad[0]["kind"], "n": bad[0]["n"]})


GNAMES = list(sfgen.GAUSSIAN_GATES) + list(sfgen.CHANNELS) + list(sfgen.PREPS)
FNAMES = [x for x in GNAMES if x != "ThermalLossChannel"]
FNG = list(sfgen.GAUSSIAN_GATES) + ["Kgate", "Vgate", "CKgate", "Fock", "Vacuum", "Coherent", "Squeezed", "DisplacedSqueezed", "Thermal", "LossChannel"]
HBARS = [1.0, 0.5, 3.0, 1.7]
MESHES = ["rectangular", "rectangular_phase_end", "rectangular_symmetric", "triangular", "rectangular_compact", "triangular_compact", "sun_compact"]
# the Fock backend applies MZgate natively, and Gate.apply skips MZgate(0, phi) (recorded finding, corpus/C01-interferometer-symmetric-mzgate-zero.json):
# a mesh of MZgates meets it whenever a 2 x 2 block of U is diagonal; random Fock-side programs use the other meshes
FOCK_MESHES = [m for m in MESHES if m != "rectangular_symmetric"]
TWO_MODE = ["BSgate", "MZgate", "S2gate", "CXgate", "CZgate"]
# pseudo-operations of this module (on top of sfgen's): name -> how make_op builds them
EXTRA = ("Interferometer", "GaussianTransform", "GaussianDecomp", "MSgate", "Catstate", "GKP", "MeasureFockSel")
NONGAUSS_PREPS = ("Catstate", "GKP", "Fock")


# ------------------------------------------------------------------------------------------
# builder / runner with pseudo-operations, hbar != 2 and Engine.run(modes=...)

def make_op(name, params, dagger=False, regs=None):
    if name == "Interferometer":
        return sfops.Interferometer(np.array(params[0], dtype=float) + 1j * np.array(params[1], dtype=float), mesh=params[2])
    if name == "GaussianTransform":
        return sfops.GaussianTransform(np.array(params[0], dtype=float))
    if name == "GaussianDecomp":
        return sfops.Gaussian(np.array(params[0], dtype=float), np.array(params[1], dtype=float))
    if name == "MSgate":
        return sfops.MSgate(params[0], params[1], r_anc=params[2], eta_anc=params[3], avg=bool(params[4]))
    if name == "Catstate":
        return sfops.Catstate(params[0], params[1], params[2], representation=params[3])
    if name == "GKP":
        return sfops.GKP(state=[params[0], params[1]], epsilon=params[2])
    if name == "MeasureFockSel":
        return sfops.MeasureFock(select=[int(params[0])])
    return sfgen.make_op(name, params, dagger, regs)


def build(spec):
    """Parameters may be written {"free": name} (a free parameter of the program, bound by Engine.run(args=spec["free"])) or
    {"par": mode, "mul": m} (m times the outcome of the latest measurement of that mode: feed-forward)."""
    prog = sf.Program(spec["n"])
    free = {k: prog.params(k) for k in spec.get("free", {})}
    with prog.context as q:
        regs = list(q)
        for name, params, modes, dagger in spec["cmds"]:
            params = [free[x["free"]] if isinstance(x, dict) and "free" in x else x for x in params]
            if name == "New":
                (r,) = sfops.New(1)
                regs.append(r)
            elif name == "Del":
                sfops.Del | regs[modes[0]]
            else:
                make_op(name, params, dagger, regs) | tuple(regs[m] for m in modes)
    return prog


def scale_hbar(spec, h):
    """The same physical program written for the convention hbar = h: only the parameters that are quadrature values
    (documented: Xgate / Zgate amounts, the homodyne outcome, the moments handed to Gaussian) carry units of sqrt(hbar)."""
    if h == 2:
        return spec
    f = math.sqrt(h / 2)
    cmds = []
    for name, params, modes, dagger in spec["cmds"]:
        if name in ("Xgate", "Zgate"):
            params = [params[0] * f]
        elif name == "MeasureHomodyneSel":
            params = [params[0], params[1] * f]
        elif name in ("GaussianNoDecomp", "GaussianDecomp"):
            params = [(np.array(params[0], dtype=float) * (h / 2)).tolist(), (np.array(params[1], dtype=float) * f).tolist()]
        cmds.append([name, params, modes, dagger])
    return dict(spec, cmds=cmds)


def run_x(spec, backend, cutoff=8, hbar=2.0, modes=None, full=False):
    """Run `spec` (written in hbar = 2 units) under the global convention sf.hbar = hbar; `modes` is Engine.run's option."""
    old = sf.hbar
    sf.hbar = hbar
    try:
        prog = build(scale_hbar(spec, hbar))
        if backend in ("gaussian", "bosonic"):
            eng = sf.Engine(backend)
        else:
            eng = sf.Engine("fock", backend_options={"cutoff_dim": cutoff, "pure": backend == "fock-pure"})
        kw = {} if modes is None else {"modes": list(modes)}
        if spec.get("free"):
            kw["args"] = dict(spec["free"])
        res = eng.run(prog, **kw)
        return res if full else res.state
    finally:
        sf.hbar = old


def resolve(spec):
    """The numeric program a symbolic one stands for (free parameters bound, measured parameters replaced by the post-selected value)."""
    if not spec.get("free") and not any(isinstance(x, dict) for c in spec["cmds"] for x in c[1]):
        return spec
    last, cmds = {}, []
    for name, params, modes, dagger in spec["cmds"]:
        ps = []
        for x in params:
            if isinstance(x, dict) and "free" in x:
                x = spec["free"][x["free"]]
            elif isinstance(x, dict) and "par" in x:
                x = x.get("mul", 1.0) * last[x["par"]] + x.get("add", 0.0)
            ps.append(x)
        if name == "MeasureHomodyneSel":
            last[modes[0]] = ps[1]
        cmds.append([name, ps, modes, dagger])
    return {k: v for k, v in dict(spec, cmds=cmds).items() if k != "free"}


SCALAR_OPS = set(sfgen.GAUSSIAN_GATES) | set(sfgen.CHANNELS) | set(sfgen.PREPS)


def symbolic_variant(rng, spec):
    """Same program with up to 3 numeric parameters turned into free parameters, and - after a post-selected homodyne measurement -
    one more gate whose first parameter is fed forward from the measured mode."""
    spec = dict(spec, cmds=[[c[0], list(c[1]), list(c[2]), c[3]] for c in spec["cmds"]], free={})
    slots = [(i, j) for i, c in enumerate(spec["cmds"]) if c[0] in SCALAR_OPS for j, x in enumerate(c[1]) if isinstance(x, float)]
    for i, j in rng.sample(slots, min(len(slots), rng.randint(1, 3))):
        name = "x%d_%d" % (i, j)
        spec["free"][name] = spec["cmds"][i][1][j]
        spec["cmds"][i][1][j] = {"free": name}
    meas = [i for i, c in enumerate(spec["cmds"]) if c[0] == "MeasureHomodyneSel"]
    if meas and spec["n"] >= 2:
        i = rng.choice(meas)
        a = spec["cmds"][i][2][0]
        later_meas = any(c[0] in sfgen.MEASURE_SEL and c[2][0] == a for c in spec["cmds"][i + 1:])
        if not later_meas:
            b = rng.choice([m for m in range(spec["n"]) if m != a])
            gname = rng.choice(["Dgate", "Xgate", "Zgate", "Sgate", "Rgate", "BSgate"])
            c = sfgen.random_cmd(rng, spec["n"], [gname], dagger_prob=0.3)
            c[2] = [b] if gname != "BSgate" else [b, a]
            c[1][0] = {"par": a, "mul": round(rng.uniform(-1.5, 1.5), 2)}
            spec["cmds"].insert(rng.randint(i + 1, len(spec["cmds"])), c)
    return spec


def obs_h(state, h=2.0):
    """(means, cov) of a Gaussian / bosonic state object normalised to hbar = 2 units, xxpp order."""
    mu, V = bc.gauss_obs(state)
    return mu / math.sqrt(h / 2), V / (h / 2)


def ptrace_order(dm, n, modes):
    """Reduced density tensor (i,j per mode) of the listed modes, in the listed order, from the full tensor (i0,j0,i1,j1,...)."""
    letters = "abcdefghijklmnopqrstuvwxyz"
    sub, out = "", {}
    for k in range(n):
        if k in modes:
            sub += letters[2 * k] + letters[2 * k + 1]
            out[k] = letters[2 * k] + letters[2 * k + 1]
        else:
            sub += letters[2 * k] * 2
    return np.einsum(sub + "->" + "".join(out[m] for m in modes), dm)


def fock_moments(dm, n, c):
    """means and covariance (xxpp, hbar = 2) of a Fock density tensor (i0,j0,i1,j1,...), by ladder operators."""
    a = np.diag(np.sqrt(np.arange(1, c)), 1).astype(complex)
    q = [a + a.T] * n + [-1j * (a - a.T)] * n
    letters = "abcdefghijklmnopqrstuvwxyz"
    idx = "".join(letters[2 * k] + letters[2 * k + 1] for k in range(n))

    def ev(om):
        operands, sub = [dm], [idx]
        for k in range(n):
            if k in om:
                operands.append(om[k])
                sub.append(letters[2 * k + 1] + letters[2 * k])
            else:
                operands.append(np.ones(c))
                sub.append(letters[2 * k])
                sub[0] = sub[0].replace(letters[2 * k + 1], letters[2 * k])
        return complex(np.einsum(",".join(sub) + "->", *operands))
    tr = ev({}).real
    mu = np.array([ev({i % n: q[i]}).real for i in range(2 * n)]) / tr
    V = np.zeros((2 * n, 2 * n))
    for i in range(2 * n):
        for j in range(i, 2 * n):
            if i % n == j % n:
                v = ev({i % n: (q[i] @ q[j] + q[j] @ q[i]) / 2})
            else:
                v = ev({i % n: q[i], j % n: q[j]})
            V[i, j] = V[j, i] = v.real / tr - mu[i] * mu[j]
    return mu, V


# ------------------------------------------------------------------------------------------
# generators of the extra families

def _np_seed(rng):
    np.random.seed(rng.randrange(2 ** 31))


def interferometer_cmd(rng, n, meshes=MESHES):
    """Interferometer(U, mesh) on 2..4 modes listed in a random order; U Haar random, a phase screen, or a permutation."""
    from thewalrus.random import random_interferometer
    mesh = rng.choice([m for m in meshes if n >= 3 or m != "sun_compact"])
    k = rng.randint(3 if mesh == "sun_compact" else 2, min(4, n))   # sun_compact: documented for >= 3 x 3 only
    _np_seed(rng)
    kind = rng.random()
    if kind < 0.12:
        U = np.diag(np.exp(1j * np.random.uniform(-math.pi, math.pi, size=k)))
    elif kind < 0.24:
        U = np.eye(k)[np.random.permutation(k)].astype(complex)
    else:
        U = random_interferometer(k)
    return ["Interferometer", [U.real.tolist(), U.imag.tolist(), mesh], rng.sample(range(n), k), False]


def gaussian_transform_cmd(rng, n, scale=0.5):
    from thewalrus.random import random_symplectic
    k = rng.randint(1, min(3, n))
    _np_seed(rng)
    S = random_symplectic(k, passive=rng.random() < 0.25, scale=scale)
    return ["GaussianTransform", [S.tolist()], rng.sample(range(n), k), False]


def gaussian_prep_cmd(rng, n, decomp=False, weak=False):
    """Gaussian(V, r, decomp=...) on 1..3 modes listed in a random (possibly cyclic) order; with decomp=True also the structured
    covariances that ops.Gaussian._decompose treats separately (diagonal / block-diagonal pure, thermal, diagonal mixed)."""
    from thewalrus.random import random_covariance
    k = rng.randint(1, min(3, n))
    modes = rng.sample(range(n), k)
    _np_seed(rng)
    sq = 0.3 if weak else 0.8
    kind = rng.choice(["random", "random", "diag", "blockdiag", "thermal", "mixeddiag"]) if decomp else "random"
    if kind == "random":
        if weak:
            from thewalrus.random import random_symplectic
            S = random_symplectic(k, scale=0.2)
            V = S @ np.diag([1 + rng.choice([0, 0, round(rng.uniform(0, 0.3), 2)])] * (2 * k)) @ S.T
        else:
            V = random_covariance(k, hbar=2, pure=rng.random() < 0.5)
    elif kind == "diag":
        r = np.array([rng.choice([0.0, round(rng.uniform(-sq, sq), 3)]) for _ in range(k)])
        V = np.diag(np.concatenate([np.exp(-2 * r), np.exp(2 * r)]))
    elif kind == "blockdiag":
        V = np.zeros((2 * k, 2 * k))
        for i in range(k):
            S2 = _sq(rng.choice([0.0, round(rng.uniform(0.05, sq), 3)]), round(rng.uniform(-math.pi, math.pi), 3))
            V[np.ix_([i, i + k], [i, i + k])] = S2 @ S2.T
    elif kind == "thermal":
        nb = np.array([rng.choice([0.0, round(rng.uniform(0.05, 0.3 if weak else 1.0), 3)]) for _ in range(k)])
        V = np.diag(np.concatenate([2 * nb + 1, 2 * nb + 1]))
    else:
        V = np.diag([round(rng.uniform(1.0, 1.4 if weak else 2.5), 3) for _ in range(2 * k)])
    V = (V + V.T) / 2
    m = 0.4 if weak else 1.0
    r = [rng.choice([0.0, round(rng.uniform(-m, m), 3)]) for _ in range(2 * k)]
    return ["GaussianDecomp" if decomp else "GaussianNoDecomp", [V.tolist(), r], modes, False]


def msgate_cmd(rng, n, kind="avg"):
    r = round(rng.uniform(0.1, 0.7), 3) * rng.choice([1, 1, -1])
    phi = rng.choice([0.0, math.pi / 2, math.pi, round(rng.uniform(-math.pi, math.pi), 3)])
    if kind == "avg":
        pr = [r, phi, round(rng.uniform(0.3, 1.5), 3), rng.choice([1.0, round(rng.uniform(0.5, 0.95), 3)]), True]
    elif kind == "limit":
        pr = [r, phi, 9.0, 1.0, True]
    else:
        pr = [r, phi, 7.0, 1.0, False]
    return ["MSgate", pr, [rng.randrange(n)], False]


def nontrivial(spec):
    return spec["n"] >= 2 and any(c[2] not in ([0], [0, 1]) for c in spec["cmds"])


def cmp_gauss(a, b, tol=1e-8):
    return max(np.abs(a[0] - b[0]).max(), np.abs(a[1] - b[1]).max()) > tol


def _mz_zero(c):
    """An Interferometer whose mesh is made of MZgates and whose decomposition contains MZgate(0, phi): Gate.apply skips that gate on
    the backends that apply MZgate natively (recorded defect of the MZgate parameter convention)."""
    try:
        op = make_op(c[0], c[1])
        prog = sf.Program(len(c[2]))
        with prog.context as q:
            cmds = op._decompose(list(q))
        return any(type(x.op).__name__ == "MZgate" and x.op.p[0] == 0 for x in cmds)
    except Exception:
        return False


def sig_ops(spec):
    def nm(c):
        if c[0] == "Interferometer":
            return "Interferometer:" + str(c[1][2]) + ("[MZgate@0]" if c[1][2] == "rectangular_symmetric" and _mz_zero(c) else "")
        z = "@0" if (c[0] in sfgen.GAUSSIAN_GATES or c[0] in sfgen.NONGAUSS) and c[1] and c[1][0] == 0 else ""
        return c[0] + z + (".H" if c[3] else "")
    return "+".join(sorted(set(nm(c) for c in spec["cmds"])))


def sig_cfg(hbar=2.0, modes=None):
    return ("@hbar" if hbar != 2 else "") + ("@modes" if modes is not None else "")


def search(ctx):
    search_gbr(ctx)
    search_decomp_sweep(ctx)
    search_fock_pm(ctx)
    search_gauss_fock(ctx)
    search_layout_sweep(ctx)
    search_history_sweep(ctx)
    search_modes_sweep(ctx)
    search_bosonic_fock(ctx)
    search_msgate(ctx)
    search_reset(ctx)


# --- 1. gaussian vs bosonic vs reference ----------------------------------------------------

def gbr_eval(spec, hbar=2.0, modes=None):
    """(gaussian, bosonic, reference, tol) as (means, cov) in hbar = 2 units; with `modes`, the reduced state Engine.run(modes=...)
    returns: the gaussian backend in the requested order, the bosonic backend (documented) in ascending order."""
    r = reference(resolve(spec))
    g = obs_h(run_x(spec, "gaussian", hbar=hbar, modes=modes), hbar)
    b = None if gauss_only(spec) else obs_h(run_x(spec, "bosonic", hbar=hbar, modes=modes), hbar)
    tol = (2e-5 if any(c[0] in sfgen.MEASURE_SEL for c in spec["cmds"]) else 1e-8) * max(1.0, float(np.abs(r[1]).max()))
    if modes is None:
        rg = rb = r
    else:
        rg, rb = bc.reduced_gauss(r[0], r[1], list(modes)), bc.reduced_gauss(r[0], r[1], sorted(modes))
    return g, b, rg, rb, tol


def gbr_flags(spec, hbar=2.0, modes=None):
    g, b, rg, rb, tol = gbr_eval(spec, hbar, modes)
    gr = cmp_gauss(g, rg, tol)
    br = b is not None and cmp_gauss(b, rb, tol)
    gb = b is not None and modes in (None, sorted(modes or [])) and cmp_gauss(g, b, tol)
    return gb, gr, br


def any_diff(spec, hbar=2.0, modes=None):
    return any(gbr_flags(spec, hbar, modes))


def gauss_only(spec):
    # not accepted by the bosonic compiler: compared with the reference (and the Fock simulator) only
    return any(c[0] in ("PassiveChannel", "Interferometer", "GaussianTransform") for c in spec["cmds"])


def search_gbr(ctx):
    rng = ctx.rng
    for it in range(ctx.budget(400, 3000)):
        n = rng.choice([1, 2, 2, 3, 3, 4, 4, 5, 6])
        if it % 3 == 2:
            # histories in which modes are created and deleted along the way
            spec = sfgen.random_history_spec(rng, GNAMES, max_total=4)
            # allocate / delete modes on an already correlated state with complex coherences
            spec["cmds"] = sfgen.entangling_prefix(rng, spec["n"]) + spec["cmds"]
        else:
            spec = {"n": n, "cmds": [sfgen.random_cmd(rng, n, GNAMES, dagger_prob=0.2) for _ in range(rng.randint(1, 7))]}
        if spec["n"] >= 2 and "live" not in spec and rng.random() < 0.3:
            # a post-selected measurement of one mode of the (by then correlated, displaced) register, possibly followed by more gates
            pos = rng.randint(max(1, len(spec["cmds"]) - 2), len(spec["cmds"]))
            mname = rng.choice(["MeasureHomodyneSel", "MeasureHeterodyneSel"])
            spec["cmds"] = sfgen.entangling_prefix(rng, spec["n"]) + spec["cmds"][:pos] + [sfgen.random_cmd(rng, spec["n"], [mname], 0.0)] + spec["cmds"][pos:]
        if "live" not in spec and rng.random() < 0.2:
            spec["cmds"].insert(rng.randint(0, len(spec["cmds"])), gaussian_prep_cmd(rng, spec["n"]))
        if "live" not in spec and rng.random() < 0.15:
            # PassiveChannel exists on the Gaussian backend only: gaussian vs reference
            spec["cmds"].insert(rng.randint(0, len(spec["cmds"])), sfgen.random_cmd(rng, spec["n"], ["PassiveChannel"]))
        if "live" not in spec and rng.random() < 0.3:
            # multi-mode operations every backend takes through ops.py's decompositions
            pre = sfgen.entangling_prefix(rng, spec["n"]) if rng.random() < 0.5 else []
            ex = rng.choice(["I", "I", "T", "G"])
            if ex == "I" and spec["n"] >= 2:
                c = interferometer_cmd(rng, spec["n"])
            elif ex == "T":
                c = gaussian_transform_cmd(rng, spec["n"])
            else:
                c = gaussian_prep_cmd(rng, spec["n"], decomp=True)
            spec["cmds"] = pre + spec["cmds"]
            spec["cmds"].insert(rng.randint(len(pre), len(spec["cmds"])), c)
        tiny_params(rng, spec)
        hbar = rng.choice(HBARS) if it % 4 == 1 else 2.0
        modes = None
        if "live" not in spec and spec["n"] >= 2 and it % 5 == 3:
            modes = rng.sample(range(spec["n"]), rng.randint(1, spec["n"]))
        if "live" not in spec and hbar == 2 and it % 6 in (0, 5):
            # the same program with free parameters (bound by Engine.run(args=...)) and parameters fed forward from a measurement
            spec = symbolic_variant(rng, spec)
        data = {"check": "gbr", "spec": spec, "hbar": hbar, "modes": modes}
        try:
            gb, gr, br = gbr_flags(spec, hbar, modes)
        except Exception as e:
            ctx.counterexample("gbr:raises:%s%s" % (type(e).__name__, sig_cfg(hbar, modes)), "running %s (hbar %s, modes %s) raised %r" % (spec, hbar, modes, e), data)
            continue
        ctx.case({"spec": spec, "hbar": hbar, "modes": modes} if (hbar != 2 or modes) else spec, nontrivial=nontrivial(spec),
                 bucket="gauss-bosonic-ref" + sig_cfg(hbar, modes))
        # homodyne is simulated with a finitely squeezed (eps = 2e-4) projector; errors are relative to the size of the covariance
        # (false alarm of seed 0 after the generator change: |V| ~ 31 from a strongly squeezed Gaussian(V, r) gave 2.7e-5 absolute)
        if gb or gr or br:
            cfg = ""
            if hbar != 2:
                if any_diff_safe(spec, 2.0, modes):
                    hbar = 2.0        # also fails in the default convention: report it there
                else:
                    cfg += "@hbar"    # only the convention hbar != 2 breaks it
            if modes is not None:
                if any_diff_safe(spec, hbar, None):
                    modes = None
                else:
                    cfg += "@modes"   # only the reduced state requested through Engine.run(modes=...) breaks it
            spec1 = shrink(spec, lambda s: any_diff(s, hbar, modes))
            data = {"check": "gbr", "spec": spec1, "hbar": hbar, "modes": modes}
            try:
                gb, gr, br = gbr_flags(spec1, hbar, modes)
            except Exception:
                pass
            who = "gaussian" if (gr and not br) else "bosonic" if (br and not gr) else "reference-or-frontend" if (gr and br and not gb) else "several"
            ctx.counterexample("diff:%s%s:%s" % (who, cfg, sig_ops(spec1)),
                               "gaussian / bosonic / phase-space reference disagree (g-b %s, g-ref %s, b-ref %s; hbar %s, run(modes=%s)) on %s" % (gb, gr, br, hbar, modes, spec1), data)


def tiny_params(rng, spec, prob=0.04):
    """Gate.apply skips a gate whose first parameter IS zero: parameters that are merely small must still be applied."""
    for c in spec["cmds"]:
        if c[0] in sfgen.GAUSSIAN_GATES and c[1] and isinstance(c[1][0], float) and rng.random() < prob:
            c[1][0] = rng.choice([1e-4, -3e-5, 2e-6, -1e-3])


def search_decomp_sweep(ctx):
    """Every mesh of Interferometer on 2, 3 and 4 shuffled modes, GaussianTransform (passive / active) on 1..3 modes and every branch of
    Gaussian(V, r)'s decomposition on 1..3 modes of a correlated 4-mode register: gaussian (and bosonic where accepted) vs reference."""
    rng = ctx.rng
    n = 4
    cmds = []
    for mesh in MESHES:
        for k in (2, 3, 4):
            if mesh == "sun_compact" and k < 3:
                continue
            while True:
                c = interferometer_cmd(rng, n, [mesh])
                U = np.array(c[1][0]) + 1j * np.array(c[1][1])
                if len(c[2]) == k and np.abs(U - np.diag(np.diag(U))).max() > 0.2 and np.abs(np.abs(U) - np.round(np.abs(U))).max() > 0.05:
                    break
            cmds.append(c)
    for k in (1, 2, 3):
        for passive in (False, True):
            while True:
                c = gaussian_transform_cmd(rng, n)
                S = np.array(c[1][0])
                if len(c[2]) == k and (np.abs(S @ S.T - np.eye(2 * k)).max() < 1e-9) == passive:
                    break
            cmds.append(c)
    seen = set()
    for _ in range(400):
        c = gaussian_prep_cmd(rng, n, decomp=True)
        V = np.array(c[1][0])
        k = len(c[2])
        diag = bool(np.all(V == np.diag(np.diag(V))))
        pure = abs(np.linalg.det(V) - 1) < 1e-6
        key = (k, diag, pure, bool(np.abs(V[:k, k:]).max() > 1e-9), bool(k > 1 and np.abs(V[0, 1:k]).max() > 1e-9))
        if key not in seen:
            seen.add(key)
            cmds.append(c)
    for c in cmds:
        spec = {"n": n, "cmds": sfgen.entangling_prefix(rng, n) + [c]}
        data = {"check": "gbr", "spec": spec, "hbar": 2.0, "modes": None}
        try:
            gb, gr, br = gbr_flags(spec)
        except Exception as e:
            ctx.counterexample("gbr:raises:%s:%s" % (type(e).__name__, c[0]), "running %s raised %r" % (spec, e), data)
            continue
        ctx.case(spec, nontrivial=True, bucket="decomp-sweep")
        if gb or gr or br:
            who = "gaussian" if (gr and not br) else "bosonic" if (br and not gr) else "reference-or-frontend" if (gr and br and not gb) else "several"
            what = c[0] + (":" + c[1][2] if c[0] == "Interferometer" else "")
            ctx.counterexample("diff:%s:sweep:%s" % (who, what), "gaussian / bosonic / phase-space reference disagree (g-b %s, g-ref %s, b-ref %s) on %s (%d modes %s) after an entangling prefix: %s"
                               % (gb, gr, br, what, len(c[2]), c[2], spec), data)


def any_diff_safe(spec, hbar, modes):
    try:
        return any_diff(spec, hbar, modes)
    except Exception:
        return True


# --- 2. fock pure vs mixed --------------------------------------------------------------------

def fock_pm_diff(spec, cutoff=7, hbar=2.0, modes=None):
    p = run_x(spec, "fock-pure", cutoff, hbar, modes)
    m = run_x(spec, "fock-mixed", cutoff, hbar, modes)
    d = float(np.abs(p.dm() - m.dm()).max())
    if modes is not None:
        # the reduced state Engine.run(modes=...) hands out is the partial trace of the full one, in the requested order
        full = run_x(spec, "fock-mixed", cutoff, hbar)
        ref = ptrace_order(full.dm(), full.num_modes, list(modes))
        d = max(d, float(np.abs(p.dm() - ref).max()), float(np.abs(m.dm() - ref).max()))
    return d


def fock_pm_spec(rng):
    n = rng.randint(1, 3)
    if rng.random() < 0.25:
        spec = sfgen.random_history_spec(rng, FNG, n0=rng.randint(1, 2), ncmds=rng.randint(2, 6), max_total=3, cmd_fn=bc.weak_cmd)
        spec["cmds"] = [c for c in bc.weak_prefix(rng, spec["n"]) if c[0] != "ThermalLossChannel"] + spec["cmds"]
        return spec
    cmds = [c for c in bc.weak_prefix(rng, n) if c[0] != "ThermalLossChannel"] if rng.random() < 0.5 else []
    cmds += [bc.weak_cmd(rng, n, FNG) for _ in range(rng.randint(1, 4))]
    r = rng.random()
    if r < 0.15:
        cmds.insert(rng.randint(0, len(cmds)), ["Catstate", [round(rng.uniform(0.2, 0.7), 3), round(rng.uniform(-2, 2), 3), rng.choice([0, 1, 0.5]), "complex"], [rng.randrange(n)], False])
    elif r < 0.3:
        cmds.insert(rng.randint(1, len(cmds)), ["MeasureHomodyneSel", [round(rng.uniform(-2, 2), 3), round(rng.uniform(-0.4, 0.4), 3)], [rng.randrange(n)], False])
    elif r < 0.4:
        cmds.insert(rng.randint(1, len(cmds)), ["MeasureFockSel", [rng.choice([0, 0, 1])], [rng.randrange(n)], False])
    return {"n": n, "cmds": cmds}


def search_fock_pm(ctx):
    rng = ctx.rng
    for it in range(ctx.budget(40, 400)):
        spec = fock_pm_spec(rng)
        cutoff = rng.choice([5, 6, 7, 7, 8, 9]) if spec["n"] + sum(c[0] == "New" for c in spec["cmds"]) <= 2 else rng.choice([4, 5, 6])
        hbar = rng.choice(HBARS) if it % 4 == 1 else 2.0
        modes = None
        if "live" not in spec and spec["n"] >= 2 and it % 3 == 2:
            modes = rng.sample(range(spec["n"]), rng.randint(1, spec["n"]))
        data = {"check": "fock-pm", "spec": spec, "cutoff": cutoff, "hbar": hbar, "modes": modes}
        try:
            d = fock_pm_diff(spec, cutoff, hbar, modes)
        except ZeroDivisionError:
            continue   # post-selected on an outcome of probability zero
        except Exception as e:
            ctx.counterexample("fock-pm:raises:%s" % type(e).__name__, "running %s raised %r" % (data, e), data)
            continue
        ctx.case(data, nontrivial=nontrivial(spec), bucket="fock-pure-mixed" + sig_cfg(hbar, modes))
        if d > 1e-8:
            def pred(s):
                return fock_pm_diff(s, cutoff, hbar, modes) > 1e-8
            spec1 = shrink(spec, pred)
            cfg = sig_cfg(2.0, modes) if modes is not None and fock_pm_diff(spec1, cutoff, hbar, None) <= 1e-8 else ""
            ctx.counterexample("diff:fock-pure-vs-mixed%s:%s" % (cfg, sig_ops(spec1)), "fock pure and mixed representations%s disagree (max |delta dm| = %.3g) on %s (cutoff %d, hbar %s, run(modes=%s))"
                               % (" / the partial trace of the full state" if modes else "", d, spec1, cutoff, hbar, modes), dict(data, spec=spec1))


# --- 3. gaussian vs fock (mixed and pure), weak states ---------------------------------------

def fock_tol(f, deficit_ref=None, cap0=2e-4):
    """Allowed deviation of a Fock state with trace deficit 1 - tr: 1e-6 + 4 sqrt(deficit). The deficit counts as truncation error only
    as far as truncation can explain it: at most 20 x the weight the exact state has beyond the cutoff (deficit_ref) + 2e-4 for the
    intermediate states (measured on the unchanged code: <= 3e-5 when the final state fits) - a simulator that loses norm for another
    reason must not buy itself tolerance."""
    deficit = max(0.0, 1.0 - float(np.real(f.trace())))
    if deficit_ref is not None:
        deficit = min(deficit, 20 * max(0.0, deficit_ref) + cap0)
    else:
        deficit = min(deficit, cap0)
    return 1e-6 + 4.0 * math.sqrt(deficit)


def gauss_fock_diff(spec, backend, cutoff=8, hbar=2.0):
    from thewalrus import quantum as twq
    f = run_x(spec, backend, cutoff, hbar)
    g = run_x(spec, "gaussian", hbar=hbar)
    n = f.num_modes
    # exact matrix elements of the Gaussian state inside the cutoff (not renormalised): what a perfect truncated simulation would hold
    dg = np.asarray(twq.density_matrix(np.asarray(g.means()), np.asarray(g.cov()), hbar=hbar, normalize=False, cutoff=cutoff))
    tr_g = float(np.einsum("".join(ch * 2 for ch in "abcdefgh"[:n]), dg).real)
    tol = fock_tol(f, 1.0 - tr_g)
    if any(c[0] == "MeasureHomodyneSel" for c in spec["cmds"]):
        # the Fock simulator projects on a truncated quadrature eigenstate and renormalises: the error no longer shows in the trace
        # (measured on the unchanged code: 2e-3 at cutoff 8, 1e-4 at 12, 7e-6 at 16 for these weak states)
        tol += 6e-4 * (14.0 / cutoff) ** 8
        dg = dg / tr_g
    return float(np.abs(f.dm() - dg).max()), tol


def gauss_fock_spec(rng):
    n = rng.randint(1, 3)
    r = rng.random()
    if r < 0.2:
        spec = sfgen.random_history_spec(rng, FNAMES, n0=rng.randint(1, 2), ncmds=rng.randint(2, 6), max_total=3, cmd_fn=bc.weak_cmd)
        spec["cmds"] = [c for c in bc.weak_prefix(rng, spec["n"]) if c[0] != "ThermalLossChannel"] + spec["cmds"]
        return spec, 8
    cmds = [c for c in bc.weak_prefix(rng, n) if c[0] != "ThermalLossChannel"]
    cmds += [bc.weak_cmd(rng, n, FNAMES) for _ in range(rng.randint(1, 3))]
    if r < 0.32 and n >= 2:
        cmds.insert(rng.randint(len(cmds) - 1, len(cmds)), interferometer_cmd(rng, n, FOCK_MESHES))
    elif r < 0.4:
        cmds.insert(rng.randint(len(cmds) - 1, len(cmds)), gaussian_transform_cmd(rng, n, scale=0.15))
    elif r < 0.5:
        cmds.insert(rng.randint(len(cmds) - 1, len(cmds)), gaussian_prep_cmd(rng, n, decomp=True, weak=True))   # the fock compiler takes Gaussian only through its decomposition
    elif r < 0.62 and n <= 2:
        cmds.insert(rng.randint(len(cmds) - 1, len(cmds)), ["MeasureHomodyneSel", [round(rng.uniform(-2, 2), 3), round(rng.uniform(-0.4, 0.4), 3)], [rng.randrange(n)], False])
        return {"n": n, "cmds": cmds}, 14
    return {"n": n, "cmds": cmds}, 8


def report_gauss_fock(ctx, spec, backend, cutoff, hbar, d, tol, tag=""):
    def pred(s):
        dd, tt = gauss_fock_diff(s, backend, cutoff, hbar)
        return dd > tt
    if hbar != 2:
        try:
            if pred_h2(spec, backend, cutoff):
                hbar = 2.0
        except Exception:
            pass
    spec1 = shrink(spec, pred)
    ctx.counterexample("diff:gaussian-vs-fock%s:%s" % (sig_cfg(hbar), sig_ops(spec1)), "gaussian and %s disagree beyond truncation (max |delta dm| = %.3g, tol %.3g; cutoff %d, hbar %s) on %s"
                       % (backend, d, tol, cutoff, hbar, spec1), {"check": "gauss-fock", "backend": backend, "spec": spec1, "cutoff": cutoff, "hbar": hbar})


def pred_h2(spec, backend, cutoff):
    dd, tt = gauss_fock_diff(spec, backend, cutoff, 2.0)
    return dd > tt


def search_gauss_fock(ctx):
    rng = ctx.rng
    for it in range(ctx.budget(24, 300)):
        spec, cutoff = gauss_fock_spec(rng)
        backend = rng.choice(["fock-pure", "fock-mixed"])
        hbar = rng.choice(HBARS) if it % 4 == 1 else 2.0
        if hbar == 2 and "live" not in spec and it % 4 == 3:
            spec = symbolic_variant(rng, spec)
        data = {"check": "gauss-fock", "backend": backend, "spec": spec, "cutoff": cutoff, "hbar": hbar}
        try:
            d, tol = gauss_fock_diff(spec, backend, cutoff, hbar)
        except Exception as e:
            ctx.counterexample("gauss-fock:raises:%s" % type(e).__name__, "running %s raised %r" % (data, e), data)
            continue
        ctx.case(data, nontrivial=nontrivial(spec), bucket="gauss-" + backend + sig_cfg(hbar))
        if d > tol:
            report_gauss_fock(ctx, spec, backend, cutoff, hbar, d, tol)


# --- 4. deterministic layout sweep: every preparation / channel on every mode, every two-mode gate on every ordered pair of a
#        correlated 3-mode register, gaussian vs fock-pure vs fock-mixed -----------------------------------------------------------

def layout_specs(rng):
    n = 3
    prefix = [c for c in bc.weak_prefix(rng, n) if c[0] != "ThermalLossChannel"]

    def one(name, modes, nn=n):
        while True:
            c = bc.weak_cmd(rng, nn, [name])
            if not (name in sfgen.GAUSSIAN_GATES and c[1] and c[1][0] == 0):
                break
        c[2], c[3] = list(modes), False
        return c
    out = []
    for name in TWO_MODE:
        for a in range(n):
            for b in range(n):
                if a != b:
                    out.append({"n": n, "cmds": prefix + [one(name, [a, b])]})
    for name in list(sfgen.PREPS) + ["LossChannel"]:
        for a in range(n):
            out.append({"n": n, "cmds": prefix + [one(name, [a])]})
    for a in range(n):
        out.append({"n": n, "cmds": prefix + [["LossChannel", [0.0], [a], False]]})
    return out


def measure_specs(rng):
    """post-selected homodyne measurement of each mode of a correlated 2-mode register (cutoff 14 on the Fock side)"""
    prefix = [c for c in bc.weak_prefix(rng, 2) if c[0] != "ThermalLossChannel"]
    return [{"n": 2, "cmds": prefix + [["MeasureHomodyneSel", [round(rng.uniform(-2, 2), 3), round(rng.uniform(-0.4, 0.4), 3)], [a], False]]} for a in range(2)]


def search_layout_sweep(ctx):
    rng = ctx.rng
    specs = [(s, 7) for s in layout_specs(rng)] + [(s, 14) for s in measure_specs(rng)]
    for spec, cutoff in specs:
        # a preparation / channel turns the state into a density matrix anyway: the circuit that starts pure covers both code paths
        for backend in (("fock-pure", "fock-mixed") if len(spec["cmds"][-1][2]) == 2 or cutoff > 7 else ("fock-pure",)):
            data = {"check": "gauss-fock", "backend": backend, "spec": spec, "cutoff": cutoff, "hbar": 2.0}
            try:
                d, tol = gauss_fock_diff(spec, backend, cutoff)
            except Exception as e:
                ctx.counterexample("gauss-fock:raises:%s" % type(e).__name__, "running %s raised %r" % (data, e), data)
                continue
            ctx.case(data, nontrivial=nontrivial(spec), bucket="layout-sweep-" + backend)
            if d > tol:
                report_gauss_fock(ctx, spec, backend, cutoff, 2.0, d, tol)


# --- 4b. deterministic New / Del histories on a correlated 3-mode register: all four simulators + reference ------------------------

def history_specs(rng):
    n = 3
    prefix = [c for c in bc.weak_prefix(rng, n) if c[0] != "ThermalLossChannel"]

    def gate(name, modes):
        while True:
            c = bc.weak_cmd(rng, 2, [name])
            if not (c[1] and c[1][0] == 0):
                break
        c[2], c[3] = list(modes), False
        return c
    out = []
    for a in range(n):
        rest = [m for m in range(n) if m != a]
        for pair in (rest, rest[::-1]):
            for name in TWO_MODE:
                out.append({"n": n, "cmds": prefix + [["Del", [], [a], False], gate(name, pair)], "live": rest})
        for b in rest:
            c = [m for m in rest if m != b][0]
            out.append({"n": n, "cmds": prefix + [["Del", [], [a], False], ["Del", [], [b], False], gate("Dgate", [c])[:2] + [[c], False]], "live": [c]})
        for i, o in enumerate(rest):
            for k, name in enumerate(["BSgate", "S2gate"]):
                pair = [3, o] if (i + k) % 2 == 0 else [o, 3]
                out.append({"n": n, "cmds": prefix + [["Del", [], [a], False], ["New", [], [3], False], gate(name, pair), gate("CXgate", pair[::-1])], "live": rest + [3]})
        out.append({"n": n, "cmds": prefix + [["New", [], [3], False], ["New", [], [4], False], ["Del", [], [a], False], gate("BSgate", [4, 3]), gate("S2gate", [3, rest[0]])],
                    "live": rest + [3, 4]})
    # two deletions that leave two modes: allocate a fourth mode, delete a then b, entangle the survivors
    k = 0
    for a in range(4):
        for b in range(4):
            if a != b:
                rest = [m for m in range(4) if m not in (a, b)]
                pair = rest if k % 2 == 0 else rest[::-1]
                out.append({"n": n, "cmds": prefix + [["New", [], [3], False], gate("BSgate", [3, 1]), ["Del", [], [a], False], ["Del", [], [b], False], gate(["BSgate", "S2gate", "CXgate"][k % 3], pair)],
                            "live": rest})
                k += 1
    return out


def search_history_sweep(ctx):
    rng = ctx.rng
    cutoff = 6
    for i, spec in enumerate(history_specs(rng)):
        data = {"check": "gbr", "spec": spec, "hbar": 2.0, "modes": None}
        try:
            gb, gr, br = gbr_flags(spec)
        except Exception as e:
            ctx.counterexample("gbr:raises:%s:history" % type(e).__name__, "running %s raised %r" % (spec, e), data)
            gb = gr = br = False
        if gb or gr or br:
            who = "gaussian" if (gr and not br) else "bosonic" if (br and not gr) else "reference-or-frontend" if (gr and br and not gb) else "several"
            ctx.counterexample("diff:%s:history:%s" % (who, sig_ops(spec)), "gaussian / bosonic / phase-space reference disagree (g-b %s, g-ref %s, b-ref %s) on %s" % (gb, gr, br, spec), data)
        if len(spec["live"]) > 3:
            continue
        backend = ["fock-pure", "fock-mixed"][i % 2]
        if spec["cmds"][len(spec["cmds"]) - 5][0] == "New":
            backend, cutoff = "fock-pure", 5    # four modes before the deletions: stay with the 4-index ket
        data = {"check": "gauss-fock", "backend": backend, "spec": spec, "cutoff": cutoff, "hbar": 2.0}
        try:
            d, tol = gauss_fock_diff(spec, backend, cutoff)
        except Exception as e:
            ctx.counterexample("gauss-fock:raises:%s:history" % type(e).__name__, "running %s raised %r" % (data, e), data)
            continue
        ctx.case(data, nontrivial=True, bucket="history-sweep-" + backend)
        if d > tol:
            ctx.counterexample("diff:gaussian-vs-fock:history:%s" % sig_ops(spec), "gaussian and %s disagree beyond truncation (max |delta dm| = %.3g, tol %.3g; cutoff %d) on %s"
                               % (backend, d, tol, cutoff, spec), data)


# --- 4c. Engine.run(modes=...) for every ordered subset of a correlated 3-mode register --------------------------------------------

def search_modes_sweep(ctx):
    import itertools
    rng = ctx.rng
    n, cutoff = 3, 5
    spec = {"n": n, "cmds": bc.weak_prefix(rng, n) + [bc.weak_cmd(rng, n, ["S2gate"]), bc.weak_cmd(rng, n, ["CXgate"])]}
    fspec = dict(spec, cmds=[c for c in spec["cmds"] if c[0] != "ThermalLossChannel"])
    for k in range(1, n + 1):
        for modes in itertools.permutations(range(n), k):
            modes = list(modes)
            data = {"check": "gbr", "spec": spec, "hbar": 2.0, "modes": modes}
            try:
                gb, gr, br = gbr_flags(spec, 2.0, modes)
                ctx.case(data, nontrivial=True, bucket="modes-sweep-gbr")
                if gb or gr or br:
                    who = "gaussian" if (gr and not br) else "bosonic" if (br and not gr) else "several"
                    ctx.counterexample("diff:%s@modes:sweep" % who, "Engine.run(modes=%s): gaussian / bosonic reduced state differs from the reduced reference state (g-b %s, g-ref %s, b-ref %s) on %s"
                                       % (modes, gb, gr, br, spec), data)
            except Exception as e:
                ctx.counterexample("gbr:raises:%s@modes" % type(e).__name__, "running %s raised %r" % (data, e), data)
            data = {"check": "fock-pm", "spec": fspec, "cutoff": cutoff, "hbar": 2.0, "modes": modes}
            try:
                d = fock_pm_diff(fspec, cutoff, 2.0, modes)
                ctx.case(data, nontrivial=True, bucket="modes-sweep-fock")
                if d > 1e-8:
                    ctx.counterexample("diff:fock-pure-vs-mixed@modes:sweep", "Engine.run(modes=%s): fock pure / mixed reduced states differ from each other or from the partial trace of the full "
                                       "state (max |delta dm| = %.3g) on %s" % (modes, d, fspec), data)
            except Exception as e:
                ctx.counterexample("fock-pm:raises:%s@modes" % type(e).__name__, "running %s raised %r" % (data, e), data)


# --- 5. bosonic vs fock: programs with non-Gaussian preparations (cat / GKP / Fock states) --------------------------------------

class CaseTimeout(Exception):
    pass


class time_limit:
    """Abort a single case after `seconds` of wall time (rejection samplers of the bosonic backend have no iteration bound)."""

    def __init__(self, seconds):
        self.seconds = seconds

    def _raise(self, *a):
        raise CaseTimeout()

    def __enter__(self):
        import signal
        try:
            self.old = signal.signal(signal.SIGALRM, self._raise)
            signal.alarm(self.seconds)
        except ValueError:   # not in the main thread
            self.old = None

    def __exit__(self, *a):
        import signal
        if self.old is not None:
            signal.alarm(0)
            signal.signal(signal.SIGALRM, self.old)
        return False


def bosonic_fock_diff(spec, cutoff, hbar=2.0):
    """Largest deviation over: first and second moments (all modes, incl. cross-correlations), the single-mode Wigner functions on a
    3 x 3 grid, mean and variance of every photon number. Cat and GKP states are exact on the bosonic side; Fock(n) is the documented
    approximation with quality parameter r = 0.05 (errors of order n r^2 ~ 1e-2)."""
    np.random.seed(4321)
    with time_limit(30):
        b = run_x(spec, "bosonic", hbar=hbar)
    # the Fock simulator has no measurement-based squeezing: an ideal-ancilla MSgate (r_anc >= 5, eta = 1) is the squeezing gate it implements
    ideal = [c for c in spec["cmds"] if c[0] == "MSgate"]
    fspec = dict(spec, cmds=[["Sgate", [c[1][0], c[1][1]], c[2], False] if c[0] == "MSgate" else c for c in spec["cmds"]])
    f = run_x(fspec, "fock-pure", cutoff, hbar)
    n = f.num_modes
    gb, gf = obs_h(b, hbar), fock_moments(f.dm(), n, cutoff)
    d = max(np.abs(gb[0] - gf[0]).max(), np.abs(gb[1] - gf[1]).max())
    s = math.sqrt(hbar / 2)
    xv, pv = s * np.array([-1.1, 0.0, 0.8]), s * np.array([-0.7, 0.3, 1.2])
    for m in range(n):
        d = max(d, float(np.abs(np.asarray(b.wigner(m, xv, pv)) - np.asarray(f.wigner(m, xv, pv))).max()) * hbar / 2)
        try:
            nb, nf = b.mean_photon(m), f.mean_photon(m)
            d = max(d, abs(nb[0] - nf[0]), abs(nb[1] - nf[1]))
        except ValueError:
            pass   # BosonicState.mean_photon refuses results whose rounding residue is "complex" (states.py, numerical strictness only)
    tol = fock_tol(f, None, 1e-4)
    kf = sum(c[1][0] for c in spec["cmds"] if c[0] == "Fock")
    tol += 0.03 * kf + (2e-3 if any(c[0] == "GKP" for c in spec["cmds"]) else 0.0)
    for c in ideal:
        tol += (4 * math.exp(-2 * c[1][2]) + (0.0 if c[1][4] else 3 * math.exp(-c[1][2]) + 2e-4)) * math.exp(2 * abs(c[1][0])) * max(1.0, float(np.abs(gf[1]).max()))
    if any(c[0] == "MeasureHomodyneSel" for c in spec["cmds"]):
        # truncated quadrature eigenstate on the Fock side, relative to the (possibly small) probability of the outcome: 1.3e-3 observed
        tol += 6e-3 * (14.0 / cutoff) ** 8
    return float(d), tol


def bosonic_fock_spec(rng):
    # two modes at most: with ample cutoffs the truncated weight is negligible, so a deficit cannot be claimed as truncation error
    n = rng.choice([1, 2, 2, 2])
    cutoff = {1: 16, 2: 11}[n]
    small = False
    cmds, heavy = [], 0
    for m in rng.sample(range(n), n):
        r = rng.random()
        a = round(rng.uniform(0.2, 0.45 if small else 0.85), 3)
        if r < 0.3:
            cmds.append(["Catstate", [a, rng.choice([0.0, round(rng.uniform(-math.pi, math.pi), 3)]), rng.choice([0, 1, 0.5, round(rng.uniform(0, 2), 2)]), "complex"], [m], False])
        elif r < 0.45 and heavy == 0:
            cmds.append(["Catstate", [a, rng.choice([0.0, round(rng.uniform(-math.pi, math.pi), 3)]), rng.choice([0, 1]), "real"], [m], False])
            heavy += 1
        elif r < 0.55 and heavy == 0 and not small:
            cmds.append(["GKP", [round(rng.uniform(0, math.pi), 3), round(rng.uniform(-math.pi, math.pi), 3), round(rng.uniform(0.8, 1.2), 3)], [m], False])
            heavy += 1
        elif r < 0.7:
            cmds.append(["Fock", [rng.choice([1, 1, 2]) if not small else 1], [m], False])
        elif r < 0.85:
            cmds.append(bc.weak_cmd(rng, n, ["Squeezed", "Coherent", "DisplacedSqueezed", "Thermal"])[:2] + [[m], False])
    if not any(c[0] in NONGAUSS_PREPS for c in cmds):
        cmds.insert(0, ["Catstate", [0.4, 0.3, 0.5, "complex"], [rng.randrange(n)], False])
        cmds = [cmds[0]] + [c for c in cmds[1:] if c[2] != cmds[0][2]]
    names = [x for x in list(sfgen.GAUSSIAN_GATES) + ["LossChannel"] if x != "MZgate"]
    n0 = len(cmds)
    for _ in range(rng.randint(1, 4)):
        c = bc.weak_cmd(rng, n, names)
        cmds.append(c)
    if any(c[0] == "GKP" for c in cmds):
        # the Fock-side GKP ket is renormalised after truncation (no trace deficit to go by) and has a long photon-number tail:
        # measured deviation 1e-3 at cutoff 11, 3e-5 at 16, 4e-7 at 20 for epsilon = 0.7
        cutoff = {1: 24, 2: 16}[n]
    r = rng.random()
    if r < 0.25:
        # single-shot maps draw the ancilla outcome by rejection sampling, which practically never accepts for states with many
        # weights of alternating sign (real-valued cat, GKP): there only the average map
        slow = any(c[0] == "GKP" or (c[0] == "Catstate" and c[1][3] == "real") for c in cmds)
        c = msgate_cmd(rng, n, "limit" if slow else rng.choice(["limit", "single"]))
        c[1][0] = round(c[1][0] * 0.4, 3)
        cmds.insert(rng.randint(n0, len(cmds)), c)
    elif r < 0.45 and not any(c[0] == "Fock" for c in cmds):
        # (not after Fock preparations: post-selecting near a node of the wave function amplifies the r = 0.05 approximation error of
        # the bosonic Fock state without bound - observed weights of +-3.6e4 and 0.09 deviation of the conditional mean)
        cmds.insert(rng.randint(len(cmds) - 1, len(cmds)), ["MeasureHomodyneSel", [round(rng.uniform(-2, 2), 3), round(rng.uniform(-0.4, 0.4), 3)], [rng.randrange(n)], False])
        cutoff = max(cutoff, 14)
    return {"n": n, "cmds": cmds}, cutoff


def energy_ok(spec, cutoff, hbar=2.0):
    """The photon-number distribution of every mode (mean + 5 sigma + 2, taken from the bosonic simulation of every prefix of the program)
    fits below the cutoff: only then a deviation of the Fock simulator cannot be put down to truncation."""
    cmds = [["Sgate", [c[1][0], c[1][1]], c[2], False] if c[0] == "MSgate" else c for c in spec["cmds"]]
    first = max([i for i, c in enumerate(cmds) if c[0] in NONGAUSS_PREPS] + [0]) + 1
    for i in range(first, len(cmds) + 1):
        b = run_x(dict(spec, cmds=cmds[:i]), "bosonic", hbar=hbar)
        for m in range(spec["n"]):
            try:
                mean, var = b.mean_photon(m)
            except ValueError:
                continue
            if float(np.real(mean)) + 5 * math.sqrt(max(0.0, float(np.real(var)))) + 2 > cutoff:
                return False
    return True


def search_bosonic_fock(ctx):
    rng = ctx.rng

    def cat(m):
        return ["Catstate", [round(rng.uniform(0.3, 0.8), 3), round(rng.uniform(-math.pi, math.pi), 3), rng.choice([0, 1, 0.5]), "complex"], [m], False]

    def ms(m, kind):
        c = msgate_cmd(rng, 2, kind)
        c[1][0], c[2] = round(c[1][0] * 0.4, 3), [m]
        return c
    # measurement-based squeezing (ideal ancilla) of and next to a superposition of Gaussians, on either mode of a pair
    fixed = [({"n": 1, "cmds": [cat(0), ms(0, "single")]}, 16),
             ({"n": 2, "cmds": [cat(0), ms(0, "single"), bc.weak_cmd(rng, 2, ["BSgate"])]}, 11),
             ({"n": 2, "cmds": [cat(1), bc.weak_cmd(rng, 2, ["BSgate"]), ms(0, "single")]}, 11),
             ({"n": 2, "cmds": [cat(0), cat(1), ms(1, "limit"), bc.weak_cmd(rng, 2, ["S2gate"])]}, 11)]
    for it in range(ctx.budget(30, 400)):
        spec, cutoff = fixed[it] if it < len(fixed) else bosonic_fock_spec(rng)
        hbar = rng.choice(HBARS) if it % 4 == 1 else 2.0
        data = {"check": "bosonic-fock", "spec": spec, "cutoff": cutoff, "hbar": hbar}
        try:
            if not energy_ok(spec, cutoff, hbar):
                ctx.hist["bosonic-fock-skipped-energy"] = ctx.hist.get("bosonic-fock-skipped-energy", 0) + 1
                continue
            d, tol = bosonic_fock_diff(spec, cutoff, hbar)
        except CaseTimeout:
            ctx.hist["bosonic-fock-skipped-timeout"] = ctx.hist.get("bosonic-fock-skipped-timeout", 0) + 1
            continue
        except Exception as e:
            ctx.counterexample("bosonic-fock:raises:%s" % type(e).__name__, "running %s raised %r" % (data, e), data)
            continue
        ctx.case(data, nontrivial=nontrivial(spec), bucket="bosonic-fock" + sig_cfg(hbar))
        if d > tol:
            def pred(s):
                if not any(c[0] in NONGAUSS_PREPS for c in s["cmds"]):
                    return False
                dd, tt = bosonic_fock_diff(s, cutoff, hbar)
                return dd > tt
            spec1 = shrink(spec, pred)
            ctx.counterexample("diff:bosonic-vs-fock%s:%s" % (sig_cfg(hbar), sig_ops(spec1)), "bosonic and fock simulators disagree beyond truncation / approximation "
                               "(moments, single-mode Wigner functions, photon statistics: max deviation %.3g, tol %.3g; cutoff %d, hbar %s) on %s" % (d, tol, cutoff, hbar, spec1),
                               dict(data, spec=spec1))


# --- 6. measurement-based squeezing (bosonic): average map vs the documented (X, Y) map; ideal-ancilla limit = Sgate ----------------

def msgate_diff(spec, hbar=2.0):
    """bosonic vs reference; the reference replaces an ideal-ancilla MSgate (r_anc >= 5, eta = 1) by the squeezing gate it implements."""
    ideal = [c for c in spec["cmds"] if c[0] == "MSgate" and c[1][2] >= 5 and c[1][3] == 1.0]
    ref_spec = dict(spec, cmds=[["Sgate", [c[1][0], c[1][1]], c[2], False] if c in ideal else c for c in spec["cmds"]])
    r = reference(ref_spec)
    np.random.seed(1234)   # single-shot maps sample the ancilla outcome; the ideal-ancilla output does not depend on it
    with time_limit(30):
        b = obs_h(run_x(spec, "bosonic", hbar=hbar), hbar)
    scale = max(1.0, float(np.abs(r[1]).max()))
    tol = 1e-8 * scale
    for c in ideal:
        # average map: added noise ~ e^{-2 r_anc}; single shot: the outcome-dependent residue of the feed-forward is of relative size e^{-r_anc}
        # (measured on the unchanged code: 9e-4 at r_anc = 5.5, 2e-4 at r_anc = 7), plus the finite-squeezing homodyne projector
        tol += (4 * math.exp(-2 * c[1][2]) + (0.0 if c[1][4] else 3 * math.exp(-c[1][2]) + 2e-4)) * scale * math.exp(2 * abs(c[1][0]))
    return max(np.abs(b[0] - r[0]).max(), np.abs(b[1] - r[1]).max()), tol


def search_msgate(ctx):
    rng = ctx.rng
    for it in range(ctx.budget(30, 300)):
        n = rng.randint(1, 3)
        kind = ["avg", "limit", "single"][it % 3]
        cmds = sfgen.entangling_prefix(rng, n) + [msgate_cmd(rng, n, kind)] + [sfgen.random_cmd(rng, n, list(sfgen.GAUSSIAN_GATES)) for _ in range(rng.randint(0, 2))]
        spec = {"n": n, "cmds": cmds}
        hbar = rng.choice(HBARS) if it % 4 == 3 else 2.0
        data = {"check": "msgate", "spec": spec, "hbar": hbar}
        try:
            d, tol = msgate_diff(spec, hbar)
        except CaseTimeout:
            continue
        except Exception as e:
            ctx.counterexample("msgate:raises:%s" % type(e).__name__, "running %s raised %r" % (data, e), data)
            continue
        ctx.case(data, nontrivial=nontrivial(spec), bucket="msgate-" + kind)
        if d > tol:
            spec1 = shrink(spec, lambda s: any(c[0] == "MSgate" for c in s["cmds"]) and (lambda x: x[0] > x[1])(msgate_diff(s, hbar)))
            ctx.counterexample("diff:bosonic-msgate-%s%s" % (kind, sig_cfg(hbar)), "bosonic MSgate (%s) differs from %s by %.3g (tol %.3g; hbar %s) on %s"
                               % (kind, "the documented average map" if kind == "avg" else "the squeezing gate it implements with an ideal ancilla", d, tol, hbar, spec1), dict(data, spec=spec1))


# --- 7. backend API used directly: reset() after a history with New / Del, then a second program -------------------------------------

def api_run(backend, spec, opts, spec_before=None, reset_opts=None):
    """begin_circuit, [apply spec_before, reset(**reset_opts)], apply spec: the state object of the backend."""
    from strawberryfields.backends import load_backend
    be = load_backend(backend)
    comp = backend
    be.begin_circuit(spec["n"], **opts)
    seq = ([spec_before] if spec_before is not None else []) + [spec]
    for i, sp in enumerate(seq):
        prog = build(sp).compile(compiler=comp)
        for cmd in prog.circuit:
            cmd.op.apply(cmd.reg, be)
        if spec_before is not None and i == 0:
            be.reset(**reset_opts)
    return be.state()


def reset_diff(kind, specA, specB):
    backend, opts, ropts = {
        "gaussian": ("gaussian", {}, {}),
        "bosonic": ("bosonic", {}, {}),
        "fock-pure": ("fock", {"cutoff_dim": 6, "pure": True}, {"pure": True}),
        "fock-pure-to-mixed": ("fock", {"cutoff_dim": 5, "pure": True}, {"pure": False, "cutoff_dim": 6}),
        "fock-mixed-to-pure": ("fock", {"cutoff_dim": 7, "pure": False}, {"pure": True, "cutoff_dim": 6}),
    }[kind]
    a = api_run(backend, specB, opts, spec_before=specA, reset_opts=ropts)
    fresh = dict(opts)
    fresh.update(ropts)
    b = api_run(backend, specB, fresh)
    if backend == "fock":
        if a.dm().shape != b.dm().shape:
            return 1.0
        return float(np.abs(a.dm() - b.dm()).max())
    ga, gb = obs_h(a), obs_h(b)
    if ga[0].shape != gb[0].shape:
        return 1.0
    return float(max(np.abs(ga[0] - gb[0]).max(), np.abs(ga[1] - gb[1]).max()))


def search_reset(ctx):
    rng = ctx.rng
    kinds = ["gaussian", "bosonic", "fock-pure", "fock-pure-to-mixed", "fock-mixed-to-pure"]
    for it in range(ctx.budget(15, 100)):
        kind = kinds[it % len(kinds)]
        n = rng.randint(2, 3)
        names = GNAMES if not kind.startswith("fock") else FNAMES
        specA = sfgen.random_history_spec(rng, names, n0=n, ncmds=rng.randint(3, 6), max_total=3, p_new=0.25, p_del=0.25, cmd_fn=bc.weak_cmd)
        specA["cmds"] = [c for c in bc.weak_prefix(rng, n) if c[0] != "ThermalLossChannel"] + specA["cmds"]
        specB = {"n": n, "cmds": [bc.weak_cmd(rng, n, names) for _ in range(rng.randint(1, 3))]}
        data = {"check": "reset", "kind": kind, "specA": specA, "spec": specB}
        try:
            d = reset_diff(kind, specA, specB)
        except Exception as e:
            ctx.counterexample("reset:raises:%s:%s" % (type(e).__name__, kind), "backend API: %s raised %r" % (data, e), data)
            continue
        ctx.case(data, nontrivial=True, bucket="reset-" + kind)
        if d > 1e-9:
            ctx.counterexample("diff:reset:%s" % kind, "backend.reset() after a first program does not give the state of a fresh circuit (%s; max deviation of the state after the second program %.3g): %s"
                               % (kind, d, data), data)


def _prune_free(spec):
    if "free" in spec:
        used = {x["free"] for c in spec["cmds"] for x in c[1] if isinstance(x, dict) and "free" in x}
        spec = dict(spec, free={k: v for k, v in spec["free"].items() if k in used})
    return spec


def shrink(spec, pred):
    """Greedy removal of commands while the predicate keeps failing."""
    return _prune_free(_shrink(spec, pred))


def _shrink(spec, pred):
    cur = dict(spec, cmds=list(spec["cmds"]))
    if "live" in cur:
        return cur   # New / Del histories: indices depend on the history, keep as found
    changed = True
    while changed and len(cur["cmds"]) > 1:
        changed = False
        for i in range(len(cur["cmds"])):
            cand = dict(cur, cmds=cur["cmds"][:i] + cur["cmds"][i + 1:])
            try:
                if pred(cand):
                    cur = cand
                    changed = True
                    break
            except Exception:
                pass
    return cur


def replay(ctx, data):
    d = data["data"]
    if str(d.get("check", "")).startswith("bosonic") and d.get("check") != "bosonic-fock":
        return bm.replay_bosonic(ctx, data)
    if d.get("check") == "fock-axes":
        return fa.replay_fock_axes(ctx, data)
    spec = d.get("spec")
    hbar, modes, cutoff = d.get("hbar", 2.0), d.get("modes"), d.get("cutoff")
    try:
        if d.get("check") == "gbr":
            r = any_diff(spec, hbar, modes)
            print("gaussian/bosonic/reference differ:", r)
            return bool(r)
        if d.get("check") == "fock-pm":
            x = fock_pm_diff(spec, cutoff or 7, hbar, modes)
            print("max |dm_pure - dm_mixed| =", x)
            return x > 1e-8
        if d.get("check") == "gauss-fock":
            x, tol = gauss_fock_diff(spec, d["backend"], cutoff or 8, hbar)
            print("max |dm_fock - dm_gauss| =", x, "tol", tol)
            return x > tol
        if d.get("check") == "bosonic-fock":
            x, tol = bosonic_fock_diff(spec, cutoff, hbar)
            print("max deviation bosonic vs fock =", x, "tol", tol)
            return x > tol
        if d.get("check") == "reset":
            x = reset_diff(d["kind"], d["specA"], spec)
            print("max deviation after reset vs fresh circuit =", x)
            return x > 1e-9
        if d.get("check") == "msgate":
            x, tol = msgate_diff(spec, hbar)
            print("max deviation bosonic MSgate vs reference =", x, "tol", tol)
            return x > tol
    except CaseTimeout:
        print("replay: case timed out (sampling), not judged")
        return False
    except Exception as e:
        print("replay raised", repr(e))
        return True
    return False
