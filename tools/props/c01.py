"""C01 — all simulator backends compute the same physics for the same program."""
import math

import numpy as np

import strawberryfields as sf
from strawberryfields import ops as sfops

from props import backends_common as bc
from props import gauss_common as gc
from props import bosonic_model as bm
from props import fock_axes as fa
from vlib import sfgen

PROP = "C01"
LEVEL = "proof"
COQ_DIRS = ["C01", "FockAxes", "Bosonic", "BosonicAgree", "C07"]
COQ_TARGETS = ["Gen/GaussCirc.vo", "Base/MatOps.vo", "Gen/GaussMat.vo", "C07/GaussPhysical.vo", "C07/GaussPassive.vo", "C01/GaussReadout.vo", "Base/GaussTac.vo", "Base/PhaseSpace.vo", "C01/GaussPhaseSpace.vo"] + list(fa.COQ_TARGETS) + list(bm.COQ_TARGETS) + list(bm.COQ_TARGETS_AGREE)
PROPERTIES_FILE = "Properties/C01.v"
EXTRA_PROPERTIES_FILES = [fa.PROPERTIES_FILE, bm.PROPERTIES_FILE, bm.PROPERTIES_FILE_AGREE]
ALLOWED_AXIOMS = set()
TRANSLATORS = [gc.translate_gausscirc, gc.translate_gaussmat_fn]
RULE = ("(a) generated-function and read-out correspondence (GaussianModes methods, scovmatxp/smeanxp) at binary64; (b) differential search: random "
        "programs (n = 1..4 modes, 1..7 commands over gates/channels/preparations incl. daggers, zero and multiple-of-pi parameters, any ordered "
        "targets) run on gaussian, bosonic and an independent numpy phase-space reference; fock-pure vs fock-mixed (dm, incl. non-Gaussian gates); "
        "gaussian vs fock (density matrix via The Walrus, tolerance scaled by truncated trace); non-trivial = >= 2 modes and some command whose targets "
        "are not (0) / (0,1) in ascending order")
TRUSTED_BASE = [
    "Coq 8.16.1 kernel; vm_compute for evaluating generated functions at PrimFloat",
    "translator tools/translate_gauss.py (fail-closed; validated against GaussianModes at binary64 on every run); hand model Base/PhaseSpace.v of "
    "scovmatxp/smeanxp tied by float correspondence",
    "independent phase-space reference in tools/props/c01.py (documented symplectic matrices, hbar = 2) — a test oracle",
    "The Walrus density_matrix as bridge between Gaussian and Fock representations (library)",
]
ASSUMPTIONS = ["Fock matrix elements of gates (The Walrus / ops.py closed forms) are not modelled: agreement with the Fock simulator is search-only",
               "bosonic backend covered by differential search only (no Coq model yet)"]
MANIFEST_TEXT = ("Proved over any commutative ring, all register sizes / target positions / parameters: read-out(op s) = documented symplectic-affine map "
                 "applied to read-out(s) for rotation, squeezing, displacement, beam splitter, loss, thermal loss, thermal preparation of GaussianModes "
                 "(model regenerated each run); Fock simulator: gates act on exactly the listed modes in the listed order, pure and mixed representations "
                 "commute (FockAxes). Bosonic agreement and agreement of Fock matrix elements with phase space: differential search (partial).")


# ------------------------------------------------------------------------------------------
# independent phase-space reference (xxpp order, hbar = 2)

def _embed1(n, k, S2):
    S = np.eye(2 * n)
    S[np.ix_([k, k + n], [k, k + n])] = S2
    return S


def _embed2(n, k, l, S4):
    """S4 in order (x_k, x_l, p_k, p_l)."""
    S = np.eye(2 * n)
    idx = [k, l, k + n, l + n]
    S[np.ix_(idx, idx)] = S4
    return S


def _bs(theta, phi):
    c, s = math.cos(theta), math.sin(theta)
    cp, sp = math.cos(phi), math.sin(phi)
    # a_k -> c a_k - e^{-i phi} s a_l ; a_l -> c a_l + e^{i phi} s a_k
    return np.array([[c, -s * cp, 0, -s * sp],
                     [s * cp, c, -s * sp, 0],
                     [0, s * sp, c, -s * cp],
                     [s * sp, 0, s * cp, c]])


def _rot(phi):
    return np.array([[math.cos(phi), -math.sin(phi)], [math.sin(phi), math.cos(phi)]])


def _sq(r, phi):
    ch, sh = math.cosh(r), math.sinh(r)
    return np.array([[ch - math.cos(phi) * sh, -math.sin(phi) * sh], [-math.sin(phi) * sh, ch + math.cos(phi) * sh]])


def _gate_matrix(name, params, n, modes):
    """Symplectic matrix and displacement of one (non-daggered) gate."""
    d = np.zeros(2 * n)
    k = modes[0]
    l = modes[1] if len(modes) > 1 else None
    if name == "Dgate":
        r, phi = params
        d[k], d[k + n] = 2 * r * math.cos(phi), 2 * r * math.sin(phi)
        return np.eye(2 * n), d
    if name == "Xgate":
        d[k] = params[0]
        return np.eye(2 * n), d
    if name == "Zgate":
        d[k + n] = params[0]
        return np.eye(2 * n), d
    if name == "Sgate":
        return _embed1(n, k, _sq(*params)), d
    if name == "Rgate":
        return _embed1(n, k, _rot(params[0])), d
    if name == "Fouriergate":
        return _embed1(n, k, _rot(math.pi / 2)), d
    if name == "Pgate":
        return _embed1(n, k, np.array([[1, 0], [params[0], 1]])), d
    if name == "BSgate":
        return _embed2(n, k, l, _bs(*params)), d
    if name == "MZgate":
        phi_in, phi_ex = params
        B = _embed2(n, k, l, _bs(math.pi / 4, math.pi / 2))
        return B @ _embed1(n, k, _rot(phi_in)) @ B @ _embed1(n, k, _rot(phi_ex)), d
    if name == "S2gate":
        r, phi = params
        ch, sh = math.cosh(r), math.sinh(r)
        c, s = math.cos(phi), math.sin(phi)
        # documented: S2(z) = exp(z a1^dag a2^dag - z^* a1 a2):  a1 -> ch a1 + e^{i phi} sh a2^dag, a2 -> ch a2 + e^{i phi} sh a1^dag
        S4 = np.array([[ch, c * sh, 0, s * sh],
                       [c * sh, ch, s * sh, 0],
                       [0, s * sh, ch, -c * sh],
                       [s * sh, 0, -c * sh, ch]])
        return _embed2(n, k, l, S4), d
    if name == "CXgate":
        s_ = params[0]
        S4 = np.eye(4)
        S4[1, 0] = s_      # x_l += s x_k
        S4[2, 3] = -s_     # p_k -= s p_l
        return _embed2(n, k, l, S4), d
    if name == "CZgate":
        s_ = params[0]
        S4 = np.eye(4)
        S4[2, 1] = s_      # p_k += s x_l
        S4[3, 0] = s_      # p_l += s x_k
        return _embed2(n, k, l, S4), d
    raise KeyError(name)


def reference(spec):
    """Independent phase-space simulation. With New/Del pseudo-commands the register changes size: `live` maps
    positions to external mode indices, and the returned (mu, V) cover the live modes in index order."""
    n = spec["n"]
    mu = np.zeros(2 * n)
    V = np.eye(2 * n)
    live = list(range(n))
    for name, params, modes, dagger in spec["cmds"]:
        if name == "New":
            k_old = len(live)
            live.append(modes[0])
            perm_x, perm_p = list(range(k_old)), list(range(k_old, 2 * k_old))
            mu2 = np.zeros(2 * (k_old + 1))
            V2 = np.eye(2 * (k_old + 1))
            ix = perm_x + [k_old + 1 + i for i in range(k_old)]
            mu2[ix] = mu
            V2[np.ix_(ix, ix)] = V
            mu, V, n = mu2, V2, k_old + 1
            continue
        if name == "Del":
            pos = live.index(modes[0])
            keep = [i for i in range(2 * n) if i not in (pos, pos + n)]
            mu, V = mu[keep], V[np.ix_(keep, keep)]
            live.pop(pos)
            n -= 1
            continue
        modes = [live.index(m) for m in modes]
        k = modes[0]
        if name in sfgen.GAUSSIAN_GATES:
            S, d = _gate_matrix(name, params, n, modes)
            if dagger:
                S = np.linalg.inv(S)
                d = -S @ d
            mu = S @ mu + d
            V = S @ V @ S.T
        elif name in ("LossChannel", "ThermalLossChannel"):
            T = params[0]
            nb = params[1] if name == "ThermalLossChannel" else 0.0
            X = np.eye(2 * n)
            X[k, k] = X[k + n, k + n] = math.sqrt(T)
            Y = np.zeros((2 * n, 2 * n))
            Y[k, k] = Y[k + n, k + n] = (1 - T) * (2 * nb + 1)
            mu = X @ mu
            V = X @ V @ X.T + Y
        elif name in ("MeasureHomodyneSel", "MeasureHeterodyneSel"):
            # post-selected measurement of mode k: the others get the textbook conditional state, k is reset to vacuum
            B = [k, k + n]
            A = [i for i in range(2 * n) if i not in B]
            VA, VAB, VB = V[np.ix_(A, A)], V[np.ix_(A, B)], V[np.ix_(B, B)]
            mA, mB = mu[A], mu[B]
            if name == "MeasureHomodyneSel":
                phi, val = params
                w = np.array([math.cos(phi), math.sin(phi)])  # measured quadrature x_phi = cos(phi) x + sin(phi) p
                var = float(w @ VB @ w)
                gain = (VAB @ w) / var
                VA = VA - np.outer(gain, VAB @ w)
                mA = mA + gain * (val - float(w @ mB))
            else:
                u = np.array([2 * params[0], 2 * params[1]])
                Kg = VAB @ np.linalg.inv(VB + np.eye(2))
                VA = VA - Kg @ VAB.T
                mA = mA + Kg @ (u - mB)
            V = np.eye(2 * n)
            mu = np.zeros(2 * n)
            V[np.ix_(A, A)] = VA
            mu[A] = mA
        elif name == "PassiveChannel":
            # documented action a_i^dag -> sum_j T_ij a_j^dag on the listed modes: mu -> S mu, V -> S V S^T + (1 - S S^T) (hbar = 2 vacuum fill)
            Te = np.eye(n, dtype=complex)
            Te[np.ix_(modes, modes)] = np.array(params[0], dtype=float) + 1j * np.array(params[1], dtype=float)
            S = np.block([[Te.real, -Te.imag], [Te.imag, Te.real]])
            mu = S @ mu
            V = S @ V @ S.T + np.eye(2 * n) - S @ S.T
        elif name == "Interferometer":
            # documented action a_i -> sum_j U_ij a_j on the listed modes (in the listed order)
            Ue = np.eye(n, dtype=complex)
            Ue[np.ix_(modes, modes)] = np.array(params[0], dtype=float) + 1j * np.array(params[1], dtype=float)
            S = np.block([[Ue.real, -Ue.imag], [Ue.imag, Ue.real]])
            mu = S @ mu
            V = S @ V @ S.T
        elif name == "GaussianTransform":
            idx = list(modes) + [m + n for m in modes]
            S = np.eye(2 * n)
            S[np.ix_(idx, idx)] = np.array(params[0], dtype=float)
            mu = S @ mu
            V = S @ V @ S.T
        elif name == "MSgate":
            # measurement-based squeezing, average map (documented): R(phi/2) . (X, Y) . R(-phi/2), cos(theta) = e^-|r|, r < 0 <=> phi + pi
            r_, phi_, r_anc, eta = params[0], params[1], params[2], params[3]
            if r_ < 0:
                phi_ += math.pi
            r_ = abs(r_)
            cth = math.exp(-r_)
            sth2 = 1 - cth ** 2
            Rm, Rp = _embed1(n, k, _rot(-phi_ / 2)), _embed1(n, k, _rot(phi_ / 2))
            X = np.eye(2 * n)
            X[k, k], X[k + n, k + n] = cth, 1 / cth
            Y = np.zeros((2 * n, 2 * n))
            Y[k, k], Y[k + n, k + n] = sth2 * math.exp(-2 * r_anc), (sth2 / cth ** 2) * (1 - eta) / eta
            mu = Rp @ X @ Rm @ mu
            V = Rp @ (X @ Rm @ V @ Rm.T @ X.T + Y) @ Rp.T
        elif name in ("GaussianNoDecomp", "GaussianDecomp"):
            Vn, rn = np.array(params[0], dtype=float), np.array(params[1], dtype=float)
            kk = len(modes)
            idx = list(modes) + [m + n for m in modes]
            V[idx, :] = 0
            V[:, idx] = 0
            V[np.ix_(idx, idx)] = Vn
            mu[idx] = rn
        else:  # preparations: reset mode k then prepare
            idx = [k, k + n]
            V[idx, :] = 0
            V[:, idx] = 0
            mu[idx] = 0
            blk, dd = np.eye(2), np.zeros(2)
            if name == "Coherent":
                dd = np.array([2 * params[0] * math.cos(params[1]), 2 * params[0] * math.sin(params[1])])
            elif name == "Squeezed":
                S2 = _sq(*params)
                blk = S2 @ S2.T
            elif name == "DisplacedSqueezed":
                S2 = _sq(params[2], params[3])
                blk = S2 @ S2.T
                dd = np.array([2 * params[0] * math.cos(params[1]), 2 * params[0] * math.sin(params[1])])
            elif name == "Thermal":
                blk = (2 * params[0] + 1) * np.eye(2)
            elif name != "Vacuum":
                raise KeyError(name)
            V[np.ix_(idx, idx)] = blk
            mu[idx] = dd
    return mu, V


# ------------------------------------------------------------------------------------------

def correspondence(ctx):
    bm.correspondence_bosonic(ctx, predicates=('reference', 'spectator'))
    failing = gc.correspondence_generated(ctx, ctx.budget(240, 3000), tag="c01")
    if failing:
        for c in failing[:5]:
            small = {k: c[k] for k in ("method", "n", "args", "structured")}
            ctx.disagreement("corr:gausscirc:" + c["method"], "generated model of GaussianModes.%s disagrees with the implementation" % c["method"], {"check": "gm", "case": small})
    fa.correspondence_fock_axes(ctx)
    bad = gc.correspondence_readout(ctx, ctx.budget(60, 600), tag="c01ro")
    if bad:
        ctx.disagreement("corr:readout", "model of scovmatxp/smeanxp disagrees with the implementation", {"check": "readout", "n": bad[0][0]})
    bad = gc.correspondence_apply_u(ctx, ctx.budget(60, 600), tag="c01au")
    if bad:
        ctx.disagreement("corr:gaussmat:apply_u", "generated model of GaussianModes.apply_u disagrees with the implementation (%s U, n = %d)" % (bad[0]["kind"], bad[0]["n"]),
                         {"check": "apply_u", "kind": bad[0]["kind"], "n": bad[0]["n"]})


GNAMES = list(sfgen.GAUSSIAN_GATES) + list(sfgen.CHANNELS) + list(sfgen.PREPS)
FNAMES = [x for x in GNAMES if x not in ("ThermalLossChannel", "Thermal")]
FNG = list(sfgen.GAUSSIAN_GATES) + ["Kgate", "Vgate", "CKgate", "Fock", "Vacuum", "Coherent", "Squeezed"]


def nontrivial(spec):
    return spec["n"] >= 2 and any(c[2] not in ([0], [0, 1]) for c in spec["cmds"])


def cmp_gauss(a, b, tol=1e-8):
    return max(np.abs(a[0] - b[0]).max(), np.abs(a[1] - b[1]).max()) > tol


def sig_ops(spec):
    def nm(c):
        z = "@0" if (c[0] in sfgen.GAUSSIAN_GATES or c[0] in sfgen.NONGAUSS) and c[1] and c[1][0] == 0 else ""
        return c[0] + z + (".H" if c[3] else "")
    return "+".join(sorted(set(nm(c) for c in spec["cmds"])))


def search(ctx):
    rng = ctx.rng
    # 1. gaussian vs bosonic vs reference
    for it in range(ctx.budget(150, 1500)):
        n = rng.randint(1, 4)
        if it % 3 == 2:
            # histories in which modes are created and deleted along the way
            spec = sfgen.random_history_spec(rng, GNAMES, max_total=4)
            # allocate / delete modes on an already correlated state with complex coherences
            spec["cmds"] = sfgen.entangling_prefix(rng, spec["n"]) + spec["cmds"]
        else:
            spec = {"n": n, "cmds": [sfgen.random_cmd(rng, n, GNAMES, dagger_prob=0.2) for _ in range(rng.randint(1, 7))]}
        if spec["n"] >= 2 and "live" not in spec and rng.random() < 0.3:
            # a post-selected measurement of one mode of the (by then correlated, displaced) register, possibly followed by more gates
            pos = rng.randint(max(1, len(spec["cmds"]) - 2), len(spec["cmds"]))
            mname = rng.choice(["MeasureHomodyneSel", "MeasureHeterodyneSel"])
            spec["cmds"] = sfgen.entangling_prefix(rng, spec["n"]) + spec["cmds"][:pos] + [sfgen.random_cmd(rng, spec["n"], [mname], 0.0)] + spec["cmds"][pos:]
        if "live" not in spec and rng.random() < 0.2:
            spec["cmds"].insert(rng.randint(0, len(spec["cmds"])), gaussian_prep_cmd(rng, spec["n"]))
        if "live" not in spec and rng.random() < 0.15:
            # PassiveChannel exists on the Gaussian backend only: gaussian vs reference
            spec["cmds"].insert(rng.randint(0, len(spec["cmds"])), sfgen.random_cmd(rng, spec["n"], ["PassiveChannel"]))
        meas = any(c[0] in sfgen.MEASURE_SEL for c in spec["cmds"])
        data = {"check": "gbr", "spec": spec}
        try:
            g = bc.gauss_obs(bc.run(spec, "gaussian"))
            r = reference(spec)
            b = r if gauss_only(spec) else bc.gauss_obs(bc.run(spec, "bosonic"))
        except Exception as e:
            ctx.counterexample("gbr:raises:%s" % type(e).__name__, "running %s raised %r" % (spec, e), data)
            continue
        ctx.case(spec, nontrivial=nontrivial(spec), bucket="gauss-bosonic-ref")
        # homodyne is simulated with a finitely squeezed (eps = 2e-4) projector; errors are relative to the size of the covariance
        # (false alarm of seed 0 after the generator change: |V| ~ 31 from a strongly squeezed Gaussian(V, r) gave 2.7e-5 absolute)
        tol = (2e-5 if meas else 1e-8) * max(1.0, float(np.abs(r[1]).max()))
        gb, gr, br = cmp_gauss(g, b, tol), cmp_gauss(g, r, tol), cmp_gauss(b, r, tol)
        if gb or gr or br:
            spec1 = shrink(spec, lambda s: any_diff(s))
            data = {"check": "gbr", "spec": spec1}
            who = "gaussian" if (gb and gr and not br) else "bosonic" if (gb and br and not gr) else "reference-or-frontend" if (gr and br and not gb) else "several"
            ctx.counterexample("diff:%s:%s" % (who, sig_ops(spec1)),
                               "gaussian / bosonic / phase-space reference disagree (g-b %s, g-ref %s, b-ref %s) on %s" % (gb, gr, br, spec1), data)
    # 2. fock pure vs mixed
    for _ in range(ctx.budget(30, 300)):
        n = rng.randint(1, 3)
        cmds = [c for c in bc.weak_prefix(rng, n) if c[0] != "ThermalLossChannel"] if rng.random() < 0.5 else []
        cmds += [bc.weak_cmd(rng, n, FNG) for _ in range(rng.randint(1, 4))]
        spec = {"n": n, "cmds": cmds}
        data = {"check": "fock-pm", "spec": spec}
        try:
            d = fock_pm_diff(spec)
        except Exception as e:
            ctx.counterexample("fock-pm:raises:%s" % type(e).__name__, "running %s raised %r" % (spec, e), data)
            continue
        ctx.case(spec, nontrivial=nontrivial(spec), bucket="fock-pure-mixed")
        if d > 1e-8:
            spec1 = shrink(spec, lambda s: fock_pm_diff(s) > 1e-8)
            ctx.counterexample("diff:fock-pure-vs-mixed:%s" % sig_ops(spec1), "fock pure and mixed representations disagree (max |delta dm| = %.3g) on %s" % (d, spec1), {"check": "fock-pm", "spec": spec1})
    # 3. gaussian vs fock (mixed and pure), weak states
    for _ in range(ctx.budget(24, 240)):
        n = rng.randint(1, 3)
        cmds = [c for c in bc.weak_prefix(rng, n) if c[0] != "ThermalLossChannel"]
        cmds += [bc.weak_cmd(rng, n, FNAMES) for _ in range(rng.randint(1, 3))]
        spec = {"n": n, "cmds": cmds}
        backend = rng.choice(["fock-pure", "fock-mixed"])
        data = {"check": "gauss-fock", "backend": backend, "spec": spec}
        try:
            d, tol = gauss_fock_diff(spec, backend)
        except Exception as e:
            ctx.counterexample("gauss-fock:raises:%s" % type(e).__name__, "running %s raised %r" % (spec, e), data)
            continue
        ctx.case({"backend": backend, "spec": spec}, nontrivial=nontrivial(spec), bucket="gauss-" + backend)
        if d > tol:
            def pred(s):
                dd, tt = gauss_fock_diff(s, backend)
                return dd > tt
            spec1 = shrink(spec, pred)
            ctx.counterexample("diff:gaussian-vs-fock:%s" % sig_ops(spec1), "gaussian and %s disagree beyond truncation (max |delta dm| = %.3g, tol %.3g) on %s" % (backend, d, tol, spec1),
                               {"check": "gauss-fock", "backend": backend, "spec": spec1})


def gauss_only(spec):
    return any(c[0] == "PassiveChannel" for c in spec["cmds"])


def any_diff(spec):
    g = bc.gauss_obs(bc.run(spec, "gaussian"))
    r = reference(spec)
    b = r if gauss_only(spec) else bc.gauss_obs(bc.run(spec, "bosonic"))
    tol = (2e-5 if any(c[0] in sfgen.MEASURE_SEL for c in spec["cmds"]) else 1e-8) * max(1.0, float(np.abs(r[1]).max()))
    return cmp_gauss(g, b, tol) or cmp_gauss(g, r, tol) or cmp_gauss(b, r, tol)


def gaussian_prep_cmd(rng, n):
    """Gaussian(V, r, decomp=False) on 1..3 modes listed in a random (possibly cyclic) order."""
    from thewalrus.random import random_covariance
    k = rng.randint(1, min(3, n))
    modes = rng.sample(range(n), k)
    np.random.seed(rng.randrange(2 ** 31))
    V = random_covariance(k, hbar=2, pure=rng.random() < 0.5)
    V = (V + V.T) / 2
    r = [round(rng.uniform(-1, 1), 3) for _ in range(2 * k)]
    return ["GaussianNoDecomp", [V.tolist(), r], modes, False]


def fock_pm_diff(spec, cutoff=7):
    p = bc.run(spec, "fock-pure", cutoff)
    m = bc.run(spec, "fock-mixed", cutoff)
    return float(np.abs(p.dm() - m.dm()).max())


def gauss_fock_diff(spec, backend, cutoff=8):
    f = bc.run(spec, backend, cutoff)
    g = bc.run(spec, "gaussian")
    n = spec["n"]
    dg = np.asarray(g.reduced_dm(list(range(n)), cutoff=cutoff))
    if dg.ndim == 2 and n > 1:
        # pure Gaussian states come back as a (c^n, c^n) matrix (np.outer of the state vector): bring to (i0,j0,i1,j1,...)
        dg = dg.reshape([cutoff] * (2 * n)).transpose([x for i in range(n) for x in (i, i + n)])
    tol, tr = bc.fock_tol(f)
    return float(np.abs(f.dm() - dg).max()), tol


def shrink(spec, pred):
    """Greedy removal of commands while the predicate keeps failing."""
    cur = {"n": spec["n"], "cmds": list(spec["cmds"])}
    changed = True
    while changed and len(cur["cmds"]) > 1:
        changed = False
        for i in range(len(cur["cmds"])):
            cand = {"n": cur["n"], "cmds": cur["cmds"][:i] + cur["cmds"][i + 1:]}
            try:
                if pred(cand):
                    cur = cand
                    changed = True
                    break
            except Exception:
                pass
    return cur


def replay(ctx, data):
    d = data["data"]
    if str(d.get("check", "")).startswith("bosonic"):
        return bm.replay_bosonic(ctx, data)
    if d.get("check") == "fock-axes":
        return fa.replay_fock_axes(ctx, data)
    spec = d.get("spec")
    if d.get("check") == "gbr":
        r = any_diff(spec)
        print("gaussian/bosonic/reference differ:", r)
        return bool(r)
    if d.get("check") == "fock-pm":
        x = fock_pm_diff(spec)
        print("max |dm_pure - dm_mixed| =", x)
        return x > 1e-8
    if d.get("check") == "gauss-fock":
        x, tol = gauss_fock_diff(spec, d["backend"])
        print("max |dm_fock - dm_gauss| =", x, "tol", tol)
        return x > tol
    return False
