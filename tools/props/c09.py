"""C09 — running programs is compositional and leaves user programs untouched."""
import copy
import glob
import json
import os
import warnings

warnings.filterwarnings("ignore")
import numpy as np  # noqa: E402

import strawberryfields as sf  # noqa: E402
from strawberryfields import ops  # noqa: E402
from strawberryfields.backends.base import BaseBackend  # noqa: E402
from strawberryfields.parameters import ParameterError  # noqa: E402

from vlib import coq, sfgen  # noqa: E402

PROP = "C09"
LEVEL = "proof"
COQ_TARGETS = ["C09/Model.vo", "C09/Proofs.vo"]
COQ_DIRS = ["C09"]
PROPERTIES_FILE = "Properties/C09.v"
ALLOWED_AXIOMS = set()
RULE = ("correspondence: sessions of 1-5 run/reset calls over 2-4 user programs (1-3 modes, 0-5 commands from "
        "Dgate/Sgate/Rgate/BSgate/Coherent/LossChannel/MeasureHomodyne/MeasureFock with integer, zero, measured "
        "(q[k].par) parameters, daggers, op objects shared between commands and programs, pre-compiled linked "
        "copies, programs with a different mode count, a parameter value the backend rejects) on a recording "
        "backend; search: program pairs / sessions on the gaussian, fock and bosonic backends.  A case is "
        "non-trivial when the session contains a second segment or a second call after a run, or a reset "
        "(correspondence); when the second segment is non-empty, or an exception path / shared op / daggered "
        "decomposable gate is involved (search)")
TRUSTED_BASE = [
    "Coq 8.16.1 kernel; vm_compute for evaluating the model on cases and for the three _refuted witnesses",
    "hand-written model coq/C09/Model.v of BaseEngine._run / reset / LocalEngine._run_program / Operation.apply / "
    "Gate.apply / Measurement.apply / Gate.decompose, tied to /repo by exact correspondence on generated sessions "
    "(backend calls with arguments, outcome kinds, run_progs, samples, every RegRef value, every op.p list, lock flags)",
    "the model has two switches (safe, fixed); which variant the current source implements is detected by two "
    "probe sessions at the start of the correspondence and recorded in the evidence notes; every generated case is "
    "then compared against that one variant",
    "harness: tools/props/c09.py, tools/vlib/sfgen.py; the recording backend class in c09.py; "
    "gaussian / fock / bosonic simulators used as oracles for 'same final state'",
    "Python semantics of aliasing (shared op.p list between an op and its .H copy) is modelled by hand",
]
ASSUMPTIONS = [
    "begin_circuit re-initialises the backend completely (binit does not depend on the previous backend state); checked on the real backends by the reset-vs-fresh search only",
    "operations with measured parameters are used only inside the program that owns the RegRef (Program.append enforces it)",
    "shots = 1; no New/Del inside segments (register bookkeeping is C08), no free parameters in the Coq model (they are covered by the search)",
    "storing measured values in RegRef.val, binding FreeParameter values and setting Program.locked are documented effects of run/compile and are not counted as 'altering the user's program'",
]
MANIFEST_TEXT = ("C09_compositional_calls (full), C09_compositional_concat (full for the repaired copy-by-mode; for the "
                 "code as written with the hypothesis that the earlier segment measures no mode but 0 — refuted otherwise), "
                 "C09_reset_fresh / C09_reset_clears (full), C09_store_unchanged (full for try/finally Gate.apply; for the "
                 "code as written on sessions where no call raised — refuted otherwise), C09_decompose_* (full)")

# ------------------------------------------------------------------------------------------
# class table shared by model and implementation: id -> (name, kind, n_params, n_modes)
CLASSES = [
    ("Dgate", "KGate", 2, 1),
    ("Sgate", "KGate", 2, 1),
    ("Rgate", "KGate", 1, 1),
    ("BSgate", "KGate", 2, 2),
    ("Coherent", "KOp", 2, 1),
    ("MeasureHomodyne", "KMeas", 1, 1),
    ("MeasureFock", "KMeas", 0, None),
    ("LossChannel", "KOp", 1, 1),
]


class RecError(Exception):
    pass


def _canon_num(x):
    x = float(x)
    return int(x) if x == int(x) else x


def _canon_arr(x):
    a = np.atleast_1d(np.squeeze(np.asarray(x, dtype=float)))
    return [_canon_num(v) for v in a.tolist()]


class RecBackend(BaseBackend):
    """Records every API call; measurement outcomes are scripted by the call counter; rejects 13."""

    short_name = "rec"
    compiler = "gaussian"

    def __init__(self):
        super().__init__()
        self.trace = None
        self.count = 0

    def begin_circuit(self, num_subsystems, **kwargs):
        self.trace = [["EvBegin", int(num_subsystems)]]
        self.count = 0

    def reset(self, **kwargs):
        if self.trace is not None:
            self.trace.append(["EvReset"])

    def state(self, modes=None, **kwargs):
        return None

    def _gate(self, cls, modes, args):
        args = [_canon_arr(a) for a in args]
        if any(a == [13] for a in args):
            raise RecError("rejected")
        self.trace.append(["EvGate", cls, [int(m) for m in modes], args])
        self.count += 1

    def _meas(self, cls, modes, args):
        args = [_canon_arr(a) for a in args]
        if any(a == [13] for a in args):
            raise RecError("rejected")
        outs = [10 * (self.count + 1) + int(m) for m in modes]
        self.trace.append(["EvMeas", cls, [int(m) for m in modes], args, outs])
        self.count += 1
        return outs

    def displacement(self, r, phi, mode):
        self._gate(0, [mode], [r, phi])

    def squeeze(self, r, phi, mode):
        self._gate(1, [mode], [r, phi])

    def rotation(self, phi, mode):
        self._gate(2, [mode], [phi])

    def beamsplitter(self, theta, phi, mode1, mode2):
        self._gate(3, [mode1, mode2], [theta, phi])

    def prepare_coherent_state(self, r, phi, mode):
        self._gate(4, [mode], [r, phi])

    def measure_homodyne(self, phi, mode, shots=1, select=None, **kwargs):
        outs = self._meas(5, [mode], [phi])
        return np.array([[float(o) for o in outs]])

    def measure_fock(self, modes, shots=1, select=None, **kwargs):
        outs = self._meas(6, list(modes), [])
        return np.array([outs])

    def loss(self, T, mode):
        self._gate(7, [mode], [T])


# ------------------------------------------------------------------------------------------
# session generator

def gen_pexpr(rng, n, owner_ok):
    r = rng.random()
    if owner_ok and r < 0.3:
        return ["m", rng.randrange(n)]
    if r < 0.42:
        return 0
    if r < 0.5:
        return rng.choice([13, -13])
    return rng.choice([1, 2, 3, -1, -2, 5, 7, -4])


def gen_session(rng, malformed=False):
    K = rng.randint(2, 4)
    n_common = rng.randint(1, 3)
    ns, regs = [], []
    for i in range(K):
        if i > 0 and rng.random() < 0.2:
            src = rng.randrange(i)
            while regs[src] != src:
                src = regs[src]
            regs.append(src)
            ns.append(ns[src])
        else:
            regs.append(i)
            ns.append(n_common if (not malformed or rng.random() < 0.6) else rng.randint(1, 3))
    opsl, circ = [], []
    # sympy caches Symbols by name, so q[k].par of two programs is ONE object (finding
    # params:measured-parameter-retargeted, found by the search).  The engine model resolves a
    # measured parameter in the running program's RegRefs, so sessions here let a single RegRef
    # set own all measured parameters.
    ffprog = rng.choice([i for i in range(K) if regs[i] == i])
    shared = []  # numeric ops usable by any program
    for _ in range(rng.randint(0, 3)):
        cls = rng.choice([0, 1, 2, 4, 7])
        opsl.append({"cls": cls, "p": [gen_pexpr(rng, 1, False) for _ in range(CLASSES[cls][2])], "owner": None})
        shared.append(len(opsl) - 1)
    for i in range(K):
        if regs[i] != i:
            circ.append(None)
            continue
        n = ns[i]
        own = []
        cmds = []
        for _ in range(rng.randint(0, 5)):
            r = rng.random()
            avail = [c for c in range(len(CLASSES)) if (CLASSES[c][3] or 1) <= n]
            if r < 0.25 and (own or shared):
                pool = own + [j for j in shared if (CLASSES[opsl[j]["cls"]][3] or 1) <= n]
                j = rng.choice(pool)
            else:
                cls = rng.choice(avail)
                if rng.random() < 0.35:
                    cls = rng.choice([c for c in (5, 6) if c in avail])
                opsl.append({"cls": cls, "p": [gen_pexpr(rng, n, i == ffprog) for _ in range(CLASSES[cls][2])], "owner": i})
                j = len(opsl) - 1
                own.append(j)
            cls = opsl[j]["cls"]
            nm = CLASSES[cls][3]
            if nm is None:
                nm = rng.randint(1, n)
            modes = rng.sample(range(n), nm)
            dag = CLASSES[cls][1] == "KGate" and rng.random() < 0.4
            cmds.append([j, dag, modes])
        circ.append(cmds)
    hist = []
    for _ in range(rng.randint(1, 5)):
        if rng.random() < 0.22:
            hist.append(["reset"])
        else:
            hist.append(["run", [rng.randrange(K) for _ in range(rng.choice([1, 1, 2, 2, 3]))]])
    return {"n": ns, "regs": regs, "ops": opsl, "circ": circ, "hist": hist}


def session_nontrivial(u):
    runs = 0
    for c in u["hist"]:
        if c[0] == "reset":
            return True
        if len(c[1]) >= 2:
            return True
        runs += 1
    return runs >= 2


# ------------------------------------------------------------------------------------------
# implementation driver

def _mk_param(p, prog):
    if isinstance(p, list):
        return prog.reg_refs[p[1]].par
    return p


def build_world(u):
    K = len(u["n"])
    progs = [None] * K
    for i in range(K):
        if u["regs"][i] == i:
            progs[i] = sf.Program(u["n"][i], name="p%d" % i)
    objs = []
    for o in u["ops"]:
        owner = progs[o["owner"]] if o["owner"] is not None else None
        cls = getattr(ops, CLASSES[o["cls"]][0])
        objs.append(cls(*[_mk_param(p, owner) for p in o["p"]]))
    for i in range(K):
        if u["regs"][i] != i:
            continue
        with progs[i].context as q:
            for j, dag, modes in u["circ"][i]:
                op = objs[j].H if dag else objs[j]
                op | tuple(q[m] for m in modes)
    for i in range(K):
        if u["regs"][i] != i:
            progs[i] = progs[u["regs"][i]].compile(compiler="gaussian")
    return progs, objs


def _pexpr_of(p):
    """Canonical form of an op parameter as a model pexpr (JSON)."""
    import sympy
    from strawberryfields.parameters import MeasuredParameter
    if isinstance(p, MeasuredParameter):
        return ["m", p.regref.ind]
    if isinstance(p, sympy.Basic):
        if isinstance(p, sympy.Mul) and len(p.args) == 2 and p.args[0] == -1:
            return ["neg", _pexpr_of(p.args[1])]
        if p.is_number:
            return _canon_num(p)
        return ["other", str(p)]
    try:
        return _canon_num(p)
    except Exception:
        return ["other", repr(p)]


def _val_of(v):
    return None if v is None else _canon_arr(v)


def observe_impl(eng, progs, objs, u):
    be = eng.backend
    sam = eng.samples
    if sam is None:
        sam = []
    else:
        sam = np.asarray(sam)
        sam = [] if sam.size == 0 else _canon_arr(sam[0])
    return {
        "trace": None if be.trace is None else [be.count, copy.deepcopy(be.trace)],
        "nrun": len(eng.run_progs),
        "samples": sam,
        "store": [[_pexpr_of(p) for p in o.p] for o in objs],
        "vals": [[_val_of(progs[i].reg_refs[k].val) for k in range(u["n"][i])] for i in range(len(progs))],
        "locked": [bool(p.locked) for p in progs],
    }


def err_kind(e):
    if e is None:
        return None
    if isinstance(e, ParameterError):
        return "EParam"
    if isinstance(e, RecError):
        return "EBackend"
    if isinstance(e, RuntimeError) and "Register mismatch" in str(e):
        return "ERuntime"
    if isinstance(e, IndexError):
        return "EIndex"
    if isinstance(e, AttributeError):
        return "EAttr"
    return "Other:" + type(e).__name__


def run_impl(u):
    """Run the session on the real engine with the recording backend; observations after each call."""
    progs, objs = build_world(u)
    eng = sf.Engine(RecBackend())
    out = []
    for c in u["hist"]:
        err = None
        try:
            if c[0] == "reset":
                eng.reset()
            else:
                eng.run([progs[i] for i in c[1]])
        except Exception as e:  # noqa: BLE001
            err = e
        ob = observe_impl(eng, progs, objs, u)
        ob["err"] = err_kind(err)
        out.append(ob)
    return out


# ------------------------------------------------------------------------------------------
# model side

def coq_pexpr(p):
    if isinstance(p, list):
        if p[0] == "m":
            return "(PMeas %d)" % p[1]
        if p[0] == "neg":
            return "(PNeg %s)" % coq_pexpr(p[1])
        raise ValueError(p)
    return "(PConst %s)" % coq.coq_Z(int(p))


def coq_session(u):
    K = len(u["n"])
    store = coq.coq_list([coq.coq_list([coq_pexpr(p) for p in o["p"]]) for o in u["ops"]])
    # one RegRef set per program index (copies point at their source's)
    vals = coq.coq_list(["(vclear %d)" % u["n"][i] for i in range(K)])
    locked = []
    for i in range(K):
        is_copy = u["regs"][i] != i
        has_copy = any(u["regs"][j] == i and j != i for j in range(K))
        locked.append(coq.coq_bool(is_copy or has_copy))
    world = "(mkWorld %s %s %s)" % (store, vals, coq.coq_list(locked))

    def circ(i):
        src = u["regs"][i]
        items = []
        for j, dag, modes in u["circ"][src]:
            cls = u["ops"][j]["cls"]
            items.append("mkCmd %s %d %d %s %s" % (CLASSES[cls][1], cls, j, coq.coq_bool(dag), coq.coq_list(modes, str)))
        return coq.coq_list(items)

    progs = ["(mkProg %d %d %d %s %s)" % (i, u["regs"][i], u["n"][i], coq.coq_bool(u["regs"][i] != i), circ(i)) for i in range(K)]
    calls = []
    for c in u["hist"]:
        if c[0] == "reset":
            calls.append("CReset")
        else:
            calls.append("CRun %s" % coq.coq_list(["P%d" % i for i in c[1]]))
    lets = " ".join("let P%d := %s in" % (i, progs[i]) for i in range(K))
    return "(%s (%s, %s))" % (lets, world, coq.coq_list(calls))


PRELUDE = """From Coq Require Import List ZArith Bool Arith.
Import ListNotations.
From SFV Require Import C09.Model.
Definition V := mkVariant %s %s %s.
Definition hist := run_hist tb_init tb_gate tb_meas tb_reset V.
Fixpoint prefixes {A} (l : list A) : list (list A) :=
  match l with [] => [] | x :: t => [x] :: map (cons x) (prefixes t) end.
Definition observe (c : world * list call) :=
  map (fun h => let '((w, e), os) := hist (fst c, fresh) h in
                (last os None,
                 option_map (fun b => (tcount b, rev (ttrace b))) (eb e),
                 length (erun e), esamples e, wstore w, wvals w, wlocked w))
      (prefixes (snd c)).
"""


def _from_coq_pexpr(t):
    if isinstance(t, tuple):
        if t[0] == "PConst":
            return t[1]
        if t[0] == "PMeas":
            return ["m", t[1]]
        if t[0] == "PNeg":
            return ["neg", _from_coq_pexpr(t[1])]
    raise ValueError("pexpr %r" % (t,))


def _from_coq_event(t):
    if t == "EvReset":
        return ["EvReset"]
    if t[0] == "EvBegin":
        return ["EvBegin", t[1]]
    if t[0] == "EvGate":
        return ["EvGate", t[1], t[2], t[3]]
    if t[0] == "EvMeas":
        return ["EvMeas", t[1], t[2], t[3], t[4]]
    raise ValueError("event %r" % (t,))


def _opt(t, f=lambda x: x):
    if t is None:
        return None
    if isinstance(t, tuple) and t[0] == "Some":
        return f(t[1])
    raise ValueError("option %r" % (t,))


def model_obs_to_json(t):
    err, tr, nrun, samples, store, vals, locked = t
    return {
        "err": _opt(err),
        "trace": _opt(tr, lambda x: [x[0], [_from_coq_event(e) for e in x[1]]]),
        "nrun": nrun,
        "samples": samples,
        "store": [[_from_coq_pexpr(p) for p in pl] for pl in store],
        "vals": [[_opt(v) for v in vs] for vs in vals],
        "locked": locked,
    }


def run_model(ctx, name, sessions, variant):
    """Evaluate the model on the sessions; returns list (per session) of per-call observations."""
    out = []
    for si in range(0, len(sessions), 150):
        sh = sessions[si:si + 150]
        text = PRELUDE % tuple(coq.coq_bool(v) for v in variant)
        text += "Definition cases : list (world * list call) := [\n" + ";\n".join(coq_session(u) for u in sh) + "].\n"
        text += "Eval vm_compute in map observe cases.\n"
        ok, vals, raw = ctx.coq_eval("%s_%d" % (name, si // 150), text)
        if not ok:
            ctx.obligation("correspondence:%s:shard%d" % (name, si // 150), False, raw)
            return None
        for sess in vals[0]:
            out.append([model_obs_to_json(t) for t in sess])
    return out


def fix_vals(ob_impl, u):
    """The model keeps one RegRef set per program index; copies share their source's."""
    return ob_impl


def compare_obs(m, i, u):
    """Return None if equal else the name of the first differing component."""
    K = len(u["n"])
    for key in ("err", "trace", "nrun", "samples", "store", "locked"):
        if m[key] != i[key]:
            return key
    for p in range(K):
        src = u["regs"][p]
        if m["vals"][src] != i["vals"][p]:
            return "vals"
    return None


# two probe sessions that tell the variants apart
PROBE_SAFE = {"n": [2], "regs": [0], "ops": [{"cls": 0, "p": [["m", 0], 0], "owner": 0}],
              "circ": [[[0, True, [1]]]], "hist": [["run", [0]]]}
PROBE_FIXED = {"n": [2, 2], "regs": [0, 1],
               "ops": [{"cls": 6, "p": [], "owner": 0}, {"cls": 0, "p": [["m", 1], 0], "owner": 1}],
               "circ": [[[0, False, [1]]], [[1, False, [0]]]], "hist": [["run", [0, 1]]]}


PROBE_LINK = {"n": [2, 2], "regs": [0, 0],
              "ops": [{"cls": 6, "p": [], "owner": 0}, {"cls": 0, "p": [["m", 0], 0], "owner": 0}],
              "circ": [[[0, False, [0]], [1, False, [1]]], None], "hist": [["run", [1]]]}


def detect_variant():
    a = run_impl(PROBE_SAFE)[-1]
    safe = a["store"][0][0] == ["m", 0]
    b = run_impl(PROBE_FIXED)[-1]
    fixed = b["err"] is None
    c = run_impl(PROBE_LINK)[-1]
    linkok = c["err"] is None
    return (safe, fixed, linkok)


def predicate_on_impl(u, k):
    """Evaluate what the property itself says on the session prefix ending at call k.
    Returns (signature, text) if the implementation violates it there, else None."""
    # (1) op.p lists after the call equal the ones before the session
    outs = run_impl(u)
    before = [[p for p in o["p"]] for o in u["ops"]]
    if outs[k]["store"] != before:
        return ("apply:p0-not-restored-after-exception" if outs[k]["err"] else "apply:p-changed",
                "op.p differs from its value before the session after call %d (outcome %s): %s vs %s"
                % (k, outs[k]["err"], outs[k]["store"], before))
    return None


def correspondence(ctx):
    rng = ctx.rng
    variant = detect_variant()
    ctx.notes.append("model variant matching the current source: safe=%s fixed=%s linkok=%s" % variant)
    ctx.extra["variant"] = {"safe": variant[0], "fixed": variant[1], "linkok": variant[2]}
    n_cases = ctx.budget(300, 3000)
    sessions = [PROBE_SAFE, PROBE_FIXED, PROBE_LINK]
    for f in sorted(glob.glob(os.path.join(coq.VERIF, "corpus", "C09-*.json"))):
        d = json.load(open(f)).get("data", {})
        if d.get("check") == "session":
            sessions.append(d["session"])
    for k in range(n_cases):
        sessions.append(gen_session(rng, malformed=(k % 7 == 6)))
    impl = []
    for u in sessions:
        impl.append(run_impl(u))
    model = run_model(ctx, "cases_engine", sessions, variant)
    if model is None:
        return
    ctx.traces += sum(len(u["hist"]) for u in sessions)
    for u, mo, io in zip(sessions, model, impl):
        kinds = sorted({str(o["err"]) for o in io})
        ctx.case({"session": u, "outcomes": [o["err"] for o in io]}, nontrivial=session_nontrivial(u),
                 bucket="corr:" + ",".join(kinds))
        for k, (m, i) in enumerate(zip(mo, io)):
            d = compare_obs(m, i, u)
            if d is None:
                continue
            data = {"check": "session", "session": u, "call": k, "component": d, "model": m[d] if d != "vals" else m["vals"],
                    "impl": i[d] if d != "vals" else i["vals"]}
            pv = predicate_on_impl(u, k)
            if pv is not None:
                ctx.counterexample(pv[0], pv[1], data)
            else:
                ctx.disagreement("corr:engine:" + d, "model and implementation differ in '%s' after call %d of a session" % (d, k), data)
            break
    decompose_correspondence(ctx)


def decompose_correspondence(ctx):
    pass


def search(ctx):
    pass


def replay(ctx, data):
    d = data["data"]
    if d.get("check") == "session":
        u = d["session"]
        variant = detect_variant()
        impl = run_impl(u)
        model = run_model(ctx, "replay_engine", [u], variant)
        bad = False
        for k, i in enumerate(impl):
            pv = predicate_on_impl(u, k)
            if pv:
                print("call %d: %s" % (k, pv[1]))
                bad = True
                break
        if model is not None:
            for k, (m, i) in enumerate(zip(model[0], impl)):
                dd = compare_obs(m, i, u)
                print("call %d: outcome impl=%s model=%s%s" % (k, i["err"], m["err"], "" if dd is None else "  DIFF in " + dd))
        return bad
    return search_replay(ctx, d)


def search_replay(ctx, d):
    return False
