"""C09 — running programs is compositional and leaves user programs untouched."""
import copy
import glob
import math
import json
import os
import warnings

warnings.filterwarnings("ignore")
import numpy as np  # noqa: E402

import strawberryfields as sf  # noqa: E402
from strawberryfields import ops  # noqa: E402
from strawberryfields.backends.base import BaseBackend  # noqa: E402
from strawberryfields.parameters import ParameterError  # noqa: E402

from vlib import coq, sfgen  # noqa: E402

PROP = "C09"
LEVEL = "proof"
COQ_TARGETS = ["C09/Model.vo", "C09/Proofs.vo"]
COQ_DIRS = ["C09"]
PROPERTIES_FILE = "Properties/C09.v"
ALLOWED_AXIOMS = set()
RULE = ("correspondence: sessions of 1-5 run/reset calls over 2-4 user programs (1-3 modes, 0-5 commands from "
        "Dgate/Sgate/Rgate/BSgate/Coherent/LossChannel/MeasureHomodyne/MeasureFock with integer, zero, measured "
        "(q[k].par) parameters, daggers, op objects shared between commands and programs, pre-compiled linked "
        "copies, programs with a different mode count, a parameter value the backend rejects) on a recording "
        "backend; search: program pairs / sessions on the gaussian, fock and bosonic backends.  A case is "
        "non-trivial when the session contains a second segment or a second call after a run, or a reset "
        "(correspondence); when the second segment is non-empty, or an exception path / shared op / daggered "
        "decomposable gate is involved (search); 60% of the untouched-program cases contain 2-3 adjacent commands of one "
        "mergeable family (gates incl. daggered, Loss/ThermalLoss/Passive channels, preparations, Interferometers, one op "
        "object used twice) and are put through Program.optimize, compile(optimize=True) and run(compile_options="
        "{'optimize': True}); a sweep covers every family x backend x optimising entry point on every run; "
        "45% of the gaussian/fock segment cases, 40% of the reset histories and 30% of the untouched-program cases delete and create modes "
        "(Del / New, follow-up segments built with sf.Program(parent)); every earlier segment is fingerprinted (register, num_subsystems, "
        "RegRef activity, unused indices, circuit, op parameters) before/after building and running the later ones; a deterministic sweep feeds "
        "every mode of 1-3 mode registers forward (re-measured modes, empty middle segment); segments share a free parameter bound through args; "
        "sampled (seeded) instead of post-selected outcomes; bound free parameters are compared with literal values and re-bound; compile is "
        "also given run / backend options; TDM programs go through user-side unroll / space_unroll / roll histories with varying shots")
TRUSTED_BASE = [
    "Coq 8.16.1 kernel; vm_compute for evaluating the model on cases and for the three _refuted witnesses",
    "hand-written model coq/C09/Model.v of BaseEngine._run / reset / LocalEngine._run_program / Operation.apply / "
    "Gate.apply / Measurement.apply / Gate.decompose, tied to /repo by exact correspondence on generated sessions "
    "(backend calls with arguments, outcome kinds, run_progs, samples, every RegRef value, every op.p list, lock flags)",
    "the model of record is the variant `current` (safe = fixed = linkok = true); three probe sessions detect which variant "
    "the source implements; an old variant is reported as a regression counterexample, and every generated case is "
    "compared against the detected variant so that further differences are reported separately",
    "harness: tools/props/c09.py, tools/vlib/sfgen.py; the recording backend class in c09.py; "
    "gaussian / fock / bosonic simulators used as oracles for 'same final state'",
    "Python semantics of aliasing (shared op.p list between an op and its .H copy) is modelled by hand",
]
ASSUMPTIONS = [
    "begin_circuit re-initialises the backend completely (binit does not depend on the previous backend state); checked on the real backends by the reset-vs-fresh search only",
    "operations with measured parameters are used only inside the program that owns the RegRef (Program.append enforces it)",
    "the Coq model resolves q[k].par in the RegRefs of the program being run (true of the source since cf8f0c2 made measured parameters of different programs different symbols; the search checks it with the owner test)",
    "optimize=True together with measured parameters is left to C03 (the optimiser's known defect there moves such gates before the measurement)",
    "state comparisons use atol 1e-7, or 2e-5 when the case contains a (post-selected) measurement, whose simulation carries run-to-run noise of ~5e-7; states with NaN/inf count as an error outcome",
    "shots = 1; no New/Del inside segments and no free parameters in the Coq model: register-changing child segments (sf.Program(parent) with Del/New), free-parameter binding and TDM programs are covered by the failing-input search only",
    "Engine.run(args=...) requires every program of the call to own every named parameter (bind_params raises otherwise): treated as the API's contract, not as a compositionality failure",
    "a TDM program that arrives unrolled is run as it is (the engine does not re-unroll it for another number of shots): TDMProgram.unroll/roll semantics are C13's subject",
    "storing measured values in RegRef.val, binding FreeParameter values and setting Program.locked are documented effects of run/compile and are not counted as 'altering the user's program'",
]
MANIFEST_TEXT = ("all theorems full, about the model of the current code: C09_compositional_calls, C09_compositional_concat (every "
                 "program pair, feed-forward across segments included), C09_reset_fresh (every later run/reset session), "
                 "C09_reset_clears, C09_store_unchanged (every session, exception paths included), C09_decompose_*; four "
                 "C09_old_*_refuted witnesses about the behaviour before the fix commits; one known finding left (bosonic "
                 "backend restarts from vacuum for every segment)")

# ------------------------------------------------------------------------------------------
# class table shared by model and implementation: id -> (name, kind, n_params, n_modes)
CLASSES = [
    ("Dgate", "KGate", 2, 1),
    ("Sgate", "KGate", 2, 1),
    ("Rgate", "KGate", 1, 1),
    ("BSgate", "KGate", 2, 2),
    ("Coherent", "KOp", 2, 1),
    ("MeasureHomodyne", "KMeas", 1, 1),
    ("MeasureFock", "KMeas", 0, None),
    ("LossChannel", "KOp", 1, 1),
]


class RecError(Exception):
    pass


def _canon_num(x):
    x = float(x)
    return int(x) if x == int(x) else x


def _canon_arr(x):
    a = np.atleast_1d(np.squeeze(np.asarray(x, dtype=float)))
    return [_canon_num(v) for v in a.tolist()]


class RecBackend(BaseBackend):
    """Records every API call; measurement outcomes are scripted by the call counter; rejects 13."""

    short_name = "rec"
    compiler = "gaussian"

    def __init__(self):
        super().__init__()
        self.trace = None
        self.count = 0

    def begin_circuit(self, num_subsystems, **kwargs):
        self.trace = [["EvBegin", int(num_subsystems)]]
        self.count = 0

    def reset(self, **kwargs):
        if self.trace is not None:
            self.trace.append(["EvReset"])

    def state(self, modes=None, **kwargs):
        return None

    def _gate(self, cls, modes, args):
        args = [_canon_arr(a) for a in args]
        if any(a == [13] for a in args):
            raise RecError("rejected")
        self.trace.append(["EvGate", cls, [int(m) for m in modes], args])
        self.count += 1

    def _meas(self, cls, modes, args):
        args = [_canon_arr(a) for a in args]
        if any(a == [13] for a in args):
            raise RecError("rejected")
        outs = [10 * (self.count + 1) + int(m) for m in modes]
        self.trace.append(["EvMeas", cls, [int(m) for m in modes], args, outs])
        self.count += 1
        return outs

    def displacement(self, r, phi, mode):
        self._gate(0, [mode], [r, phi])

    def squeeze(self, r, phi, mode):
        self._gate(1, [mode], [r, phi])

    def rotation(self, phi, mode):
        self._gate(2, [mode], [phi])

    def beamsplitter(self, theta, phi, mode1, mode2):
        self._gate(3, [mode1, mode2], [theta, phi])

    def prepare_coherent_state(self, r, phi, mode):
        self._gate(4, [mode], [r, phi])

    def measure_homodyne(self, phi, mode, shots=1, select=None, **kwargs):
        outs = self._meas(5, [mode], [phi])
        return np.array([[float(o) for o in outs]])

    def measure_fock(self, modes, shots=1, select=None, **kwargs):
        outs = self._meas(6, list(modes), [])
        return np.array([outs])

    def loss(self, T, mode):
        self._gate(7, [mode], [T])


# ------------------------------------------------------------------------------------------
# session generator

def gen_pexpr(rng, n, owner_ok):
    r = rng.random()
    if owner_ok and r < 0.3:
        return ["m", rng.randrange(n)]
    if r < 0.42:
        return 0
    if r < 0.5:
        return rng.choice([13, -13])
    return rng.choice([1, 2, 3, -1, -2, 5, 7, -4])


def gen_session(rng, malformed=False):
    K = rng.randint(2, 4)
    n_common = rng.randint(1, 3)
    ns, regs = [], []
    for i in range(K):
        if i > 0 and rng.random() < 0.2:
            src = rng.randrange(i)
            while regs[src] != src:
                src = regs[src]
            regs.append(src)
            ns.append(ns[src])
        else:
            regs.append(i)
            ns.append(n_common if (not malformed or rng.random() < 0.6) else rng.randint(1, 3))
    opsl, circ = [], []
    shared = []  # numeric ops usable by any program
    for _ in range(rng.randint(0, 3)):
        cls = rng.choice([0, 1, 2, 4, 7])
        opsl.append({"cls": cls, "p": [gen_pexpr(rng, 1, False) for _ in range(CLASSES[cls][2])], "owner": None})
        shared.append(len(opsl) - 1)
    for i in range(K):
        if regs[i] != i:
            circ.append(None)
            continue
        n = ns[i]
        own = []
        cmds = []
        for _ in range(rng.randint(0, 5)):
            r = rng.random()
            avail = [c for c in range(len(CLASSES)) if (CLASSES[c][3] or 1) <= n]
            if r < 0.25 and (own or shared):
                pool = own + [j for j in shared if (CLASSES[opsl[j]["cls"]][3] or 1) <= n]
                j = rng.choice(pool)
            else:
                cls = rng.choice(avail)
                if rng.random() < 0.35:
                    cls = rng.choice([c for c in (5, 6) if c in avail])
                opsl.append({"cls": cls, "p": [gen_pexpr(rng, n, True) for _ in range(CLASSES[cls][2])], "owner": i})
                j = len(opsl) - 1
                own.append(j)
            cls = opsl[j]["cls"]
            nm = CLASSES[cls][3]
            if nm is None:
                nm = rng.randint(1, n)
            modes = rng.sample(range(n), nm)
            dag = CLASSES[cls][1] == "KGate" and rng.random() < 0.4
            cmds.append([j, dag, modes])
        circ.append(cmds)
    hist = []
    for _ in range(rng.randint(1, 5)):
        if rng.random() < 0.22:
            hist.append(["reset"])
        else:
            hist.append(["run", [rng.randrange(K) for _ in range(rng.choice([1, 1, 2, 2, 3]))]])
    return {"n": ns, "regs": regs, "ops": opsl, "circ": circ, "hist": hist}


def session_nontrivial(u):
    runs = 0
    for c in u["hist"]:
        if c[0] == "reset":
            return True
        if len(c[1]) >= 2:
            return True
        runs += 1
    return runs >= 2


# ------------------------------------------------------------------------------------------
# implementation driver

def _mk_param(p, prog):
    if isinstance(p, list):
        return prog.reg_refs[p[1]].par
    return p


def build_world(u):
    K = len(u["n"])
    progs = [None] * K
    for i in range(K):
        if u["regs"][i] == i:
            progs[i] = sf.Program(u["n"][i], name="p%d" % i)
    objs = []
    for o in u["ops"]:
        owner = progs[o["owner"]] if o["owner"] is not None else None
        cls = getattr(ops, CLASSES[o["cls"]][0])
        objs.append(cls(*[_mk_param(p, owner) for p in o["p"]]))
    for i in range(K):
        if u["regs"][i] != i:
            continue
        with progs[i].context as q:
            for j, dag, modes in u["circ"][i]:
                op = objs[j].H if dag else objs[j]
                op | tuple(q[m] for m in modes)
    for i in range(K):
        if u["regs"][i] != i:
            progs[i] = progs[u["regs"][i]].compile(compiler="gaussian")
    return progs, objs


def _pexpr_of(p):
    """Canonical form of an op parameter as a model pexpr (JSON)."""
    import sympy
    from strawberryfields.parameters import MeasuredParameter
    if isinstance(p, MeasuredParameter):
        return ["m", p.regref.ind]
    if isinstance(p, sympy.Basic):
        if isinstance(p, sympy.Mul) and len(p.args) == 2 and p.args[0] == -1:
            return ["neg", _pexpr_of(p.args[1])]
        if p.is_number:
            return _canon_num(p)
        return ["other", str(p)]
    try:
        return _canon_num(p)
    except Exception:
        return ["other", repr(p)]


def _val_of(v):
    return None if v is None else _canon_arr(v)


def observe_impl(eng, progs, objs, u):
    be = eng.backend
    sam = eng.samples
    if sam is None:
        sam = []
    else:
        sam = np.asarray(sam)
        sam = [] if sam.size == 0 else _canon_arr(sam[0])
    return {
        "trace": None if be.trace is None else [be.count, copy.deepcopy(be.trace)],
        "nrun": len(eng.run_progs),
        "samples": sam,
        "store": [[_pexpr_of(p) for p in o.p] for o in objs],
        "vals": [[_val_of(progs[i].reg_refs[k].val) for k in range(u["n"][i])] for i in range(len(progs))],
        "locked": [bool(p.locked) for p in progs],
    }


def err_kind(e):
    if e is None:
        return None
    if isinstance(e, ParameterError):
        return "EParam"
    if isinstance(e, RecError):
        return "EBackend"
    if isinstance(e, RuntimeError) and "Register mismatch" in str(e):
        return "ERuntime"
    if isinstance(e, IndexError):
        return "EIndex"
    if isinstance(e, AttributeError):
        return "EAttr"
    return "Other:" + type(e).__name__


def run_impl(u):
    """Run the session on the real engine with the recording backend; observations after each call."""
    progs, objs = build_world(u)
    eng = sf.Engine(RecBackend())
    out = []
    for c in u["hist"]:
        err = None
        try:
            if c[0] == "reset":
                eng.reset()
            else:
                eng.run([progs[i] for i in c[1]])
        except Exception as e:  # noqa: BLE001
            err = e
        ob = observe_impl(eng, progs, objs, u)
        ob["err"] = err_kind(err)
        out.append(ob)
    return out


# ------------------------------------------------------------------------------------------
# model side

def coq_pexpr(p):
    if isinstance(p, list):
        if p[0] == "m":
            return "(PMeas %d)" % p[1]
        if p[0] == "neg":
            return "(PNeg %s)" % coq_pexpr(p[1])
        raise ValueError(p)
    return "(PConst %s)" % coq.coq_Z(int(p))


def coq_session(u):
    K = len(u["n"])
    store = coq.coq_list([coq.coq_list([coq_pexpr(p) for p in o["p"]]) for o in u["ops"]])
    # one RegRef set per program index (copies point at their source's)
    vals = coq.coq_list(["(vclear %d)" % u["n"][i] for i in range(K)])
    locked = []
    for i in range(K):
        is_copy = u["regs"][i] != i
        has_copy = any(u["regs"][j] == i and j != i for j in range(K))
        locked.append(coq.coq_bool(is_copy or has_copy))
    world = "(mkWorld %s %s %s)" % (store, vals, coq.coq_list(locked))

    def circ(i):
        src = u["regs"][i]
        items = []
        for j, dag, modes in u["circ"][src]:
            cls = u["ops"][j]["cls"]
            items.append("mkCmd %s %d %d %s %s" % (CLASSES[cls][1], cls, j, coq.coq_bool(dag), coq.coq_list(modes, str)))
        return coq.coq_list(items)

    progs = ["(mkProg %d %d %d %s %s)" % (i, u["regs"][i], u["n"][i], coq.coq_bool(u["regs"][i] != i), circ(i)) for i in range(K)]
    calls = []
    for c in u["hist"]:
        if c[0] == "reset":
            calls.append("CReset")
        else:
            calls.append("CRun %s" % coq.coq_list(["P%d" % i for i in c[1]]))
    lets = " ".join("let P%d := %s in" % (i, progs[i]) for i in range(K))
    return "(%s (%s, %s))" % (lets, world, coq.coq_list(calls))


PRELUDE = """From Coq Require Import List ZArith Bool Arith.
Import ListNotations.
From SFV Require Import C09.Model.
Definition V := mkVariant %s %s %s.
Definition hist := run_hist tb_init tb_gate tb_meas tb_reset V.
Fixpoint prefixes {A} (l : list A) : list (list A) :=
  match l with [] => [] | x :: t => [x] :: map (cons x) (prefixes t) end.
Definition observe (c : world * list call) :=
  map (fun h => let '((w, e), os) := hist (fst c, fresh) h in
                (last os None,
                 option_map (fun b => (tcount b, rev (ttrace b))) (eb e),
                 length (erun e), esamples e, wstore w, wvals w, wlocked w))
      (prefixes (snd c)).
"""


def _from_coq_pexpr(t):
    if isinstance(t, tuple):
        if t[0] == "PConst":
            return t[1]
        if t[0] == "PMeas":
            return ["m", t[1]]
        if t[0] == "PNeg":
            return ["neg", _from_coq_pexpr(t[1])]
    raise ValueError("pexpr %r" % (t,))


def _from_coq_event(t):
    if t == "EvReset":
        return ["EvReset"]
    if t[0] == "EvBegin":
        return ["EvBegin", t[1]]
    if t[0] == "EvGate":
        return ["EvGate", t[1], t[2], t[3]]
    if t[0] == "EvMeas":
        return ["EvMeas", t[1], t[2], t[3], t[4]]
    raise ValueError("event %r" % (t,))


def _opt(t, f=lambda x: x):
    if t is None:
        return None
    if isinstance(t, tuple) and t[0] == "Some":
        return f(t[1])
    raise ValueError("option %r" % (t,))


def model_obs_to_json(t):
    err, tr, nrun, samples, store, vals, locked = t
    return {
        "err": _opt(err),
        "trace": _opt(tr, lambda x: [x[0], [_from_coq_event(e) for e in x[1]]]),
        "nrun": nrun,
        "samples": samples,
        "store": [[_from_coq_pexpr(p) for p in pl] for pl in store],
        "vals": [[_opt(v) for v in vs] for vs in vals],
        "locked": locked,
    }


def run_model(ctx, name, sessions, variant):
    """Evaluate the model on the sessions; returns list (per session) of per-call observations."""
    out = []
    for si in range(0, len(sessions), 150):
        sh = sessions[si:si + 150]
        text = PRELUDE % tuple(coq.coq_bool(v) for v in variant)
        text += "Definition cases : list (world * list call) := [\n" + ";\n".join(coq_session(u) for u in sh) + "].\n"
        text += "Eval vm_compute in map observe cases.\n"
        ok, vals, raw = ctx.coq_eval("%s_%d" % (name, si // 150), text)
        if not ok:
            ctx.obligation("correspondence:%s:shard%d" % (name, si // 150), False, raw)
            return None
        for sess in vals[0]:
            out.append([model_obs_to_json(t) for t in sess])
    return out


def fix_vals(ob_impl, u):
    """The model keeps one RegRef set per program index; copies share their source's."""
    return ob_impl


def compare_obs(m, i, u):
    """Return None if equal else the name of the first differing component."""
    K = len(u["n"])
    for key in ("err", "trace", "nrun", "samples", "store", "locked"):
        if m[key] != i[key]:
            return key
    for p in range(K):
        src = u["regs"][p]
        if m["vals"][src] != i["vals"][p]:
            return "vals"
    return None


# two probe sessions that tell the variants apart
PROBE_SAFE = {"n": [2], "regs": [0], "ops": [{"cls": 0, "p": [["m", 0], 0], "owner": 0}],
              "circ": [[[0, True, [1]]]], "hist": [["run", [0]]]}
PROBE_FIXED = {"n": [2, 2], "regs": [0, 1],
               "ops": [{"cls": 6, "p": [], "owner": 0}, {"cls": 0, "p": [["m", 1], 0], "owner": 1}],
               "circ": [[[0, False, [1]]], [[1, False, [0]]]], "hist": [["run", [0, 1]]]}


PROBE_LINK = {"n": [2, 2], "regs": [0, 0],
              "ops": [{"cls": 6, "p": [], "owner": 0}, {"cls": 0, "p": [["m", 0], 0], "owner": 0}],
              "circ": [[[0, False, [0]], [1, False, [1]]], None], "hist": [["run", [1]]]}


REGRESSIONS = [
    ("regression:gate-apply-p0-not-restored",
     "Gate.apply leaves p[0] negated in the user's op object when _apply raises (fixed by 0e1fbb4, now back)", PROBE_SAFE),
    ("regression:engine-copies-measured-values-by-shot",
     "a second program that uses a value measured by the first raises: the engine no longer hands the measured values over by mode (fixed by 711526c, now back)", PROBE_FIXED),
    ("regression:linked-copy-deepcopies-source",
     "running an already compiled program that uses a measured parameter raises AttributeError (fixed by 8c7ef76, now back)", PROBE_LINK),
]


def detect_variant():
    a = run_impl(PROBE_SAFE)[-1]
    safe = a["store"][0][0] == ["m", 0]
    b = run_impl(PROBE_FIXED)[-1]
    fixed = b["err"] is None
    c = run_impl(PROBE_LINK)[-1]
    linkok = c["err"] is None
    return (safe, fixed, linkok)


def _split_calls(u):
    v = copy.deepcopy(u)
    v["hist"] = []
    for c in u["hist"]:
        if c[0] == "run":
            v["hist"] += [["run", [i]] for i in c[1]]
        else:
            v["hist"].append(c)
    return v


def predicate_on_impl(u, k):
    """Evaluate what the property itself says on the session prefix ending at call k.
    Returns (signature, text) if the implementation violates it there, else None."""
    outs = run_impl(u)
    # (2) one call with several programs = successive calls (sessions without exceptions)
    if all(o["err"] is None for o in outs):
        v = _split_calls(u)
        if len(v["hist"]) != len(u["hist"]):
            o2 = run_impl(v)
            if all(o["err"] is None for o in o2):
                for key in ("trace", "samples", "vals", "store", "nrun"):
                    if outs[-1][key] != o2[-1][key]:
                        return ("session:one-call-vs-successive-calls:" + key,
                                "running the programs of each call one by one gives a different '%s': %s vs %s" % (key, outs[-1][key], o2[-1][key]))
    # (3) after a reset the rest of the session behaves as on a new engine with new programs
    #     (sessions in which nothing raised before that reset)
    rs = [i for i, c in enumerate(u["hist"]) if c[0] == "reset"]
    if rs and 0 < rs[-1] < len(u["hist"]) - 1 and all(o["err"] is None for o in outs[:rs[-1]]):
        v = copy.deepcopy(u)
        v["hist"] = u["hist"][rs[-1] + 1:]
        o2 = run_impl(v)
        for j, (a, b) in enumerate(zip(outs[rs[-1] + 1:], o2)):
            for key in ("err", "samples", "nrun", "vals", "store"):
                if a[key] != b[key]:
                    return ("session:reset-vs-fresh:" + key,
                            "call %d after the last reset gives a different '%s' than on a new engine with new programs: %s vs %s"
                            % (j, key, a[key], b[key]))
            t1, t2 = a["trace"], b["trace"]
            if (t1 is None) != (t2 is None) or (t1 and t1[1][0][0] == "EvBegin" and t1 != t2 and a["nrun"] > 0):
                return ("session:reset-vs-fresh:trace", "backend calls after the last reset differ from those on a new engine: %s vs %s" % (t1, t2))
    # (1) op.p lists after the call equal the ones before the session
    before = [[p for p in o["p"]] for o in u["ops"]]
    if outs[k]["store"] != before:
        return ("apply:p0-not-restored-after-exception" if any(o["err"] for o in outs[:k + 1]) else "apply:p-changed",
                "op.p differs from its value before the session after call %d (outcome %s): %s vs %s"
                % (k, outs[k]["err"], outs[k]["store"], before))
    return None


def correspondence(ctx):
    rng = ctx.rng
    variant = detect_variant()
    ctx.notes.append("model variant matching the current source: safe=%s fixed=%s linkok=%s (model of record: all True)" % variant)
    ctx.extra["variant"] = {"safe": variant[0], "fixed": variant[1], "linkok": variant[2]}
    # The model of record is `current` (all switches true).  An old variant is a regression of a
    # fixed defect: reported as a failing input of the property, never silently accepted.  The
    # rest of the correspondence still runs against the detected variant so that any further
    # difference is reported separately.
    for ok, (sig, what, probe) in zip(variant, REGRESSIONS):
        if not ok:
            ctx.counterexample(sig, what, {"check": "variant-probe", "switch": sig, "session": probe})
    n_cases = ctx.budget(300, 9000)
    sessions = [PROBE_SAFE, PROBE_FIXED, PROBE_LINK]
    for f in sorted(glob.glob(os.path.join(coq.VERIF, "corpus", "C09-*.json"))):
        d = json.load(open(f)).get("data", {})
        if d.get("check") == "session":
            sessions.append(d["session"])
    for k in range(n_cases):
        sessions.append(gen_session(rng, malformed=(k % 7 == 6)))
    impl = []
    for u in sessions:
        impl.append(run_impl(u))
    model = run_model(ctx, "cases_engine", sessions, variant)
    if model is None:
        return
    ctx.traces += sum(len(u["hist"]) for u in sessions)
    for u, mo, io in zip(sessions, model, impl):
        kinds = sorted({str(o["err"]) for o in io})
        ctx.case({"session": u, "outcomes": [o["err"] for o in io]}, nontrivial=session_nontrivial(u),
                 bucket="corr:" + ",".join(kinds))
        for k, (m, i) in enumerate(zip(mo, io)):
            d = compare_obs(m, i, u)
            if d is None:
                continue
            data = {"check": "session", "session": u, "call": k, "component": d, "model": m[d] if d != "vals" else m["vals"],
                    "impl": i[d] if d != "vals" else i["vals"]}
            pv = predicate_on_impl(u, k)
            if pv is not None:
                ctx.counterexample(pv[0], pv[1], data)
            else:
                ctx.disagreement("corr:engine:" + d, "model and implementation differ in '%s' after call %d of a session" % (d, k), data)
            break
    decompose_correspondence(ctx)


# ==========================================================================================
# Failing-input search: the property's own predicate on the implementation, real backends.
#
# search spec: {"n": n, "backend": b, "segs": [[cmd...], [cmd...]], "child": bool, "args": {...}}
#   cmd = [name, [param...], [modes], dagger, extra]      extra: {"select": v} | {"same_as": [seg, idx]} | {}
#   param = number | {"re":..,"im":..} | {"m": k, "c": scale} (c * q[k].par) | {"f": name} (free parameter)

BACKENDS = {"gaussian": {}, "fock": {"cutoff_dim": 5}, "bosonic": {}}
def spec_tol(spec):
    """Post-selected homodyne in the simulators carries run-to-run noise of up to ~5e-7 (the same
    Program object run twice differs by that much), so cases with a measurement are compared
    with atol 2e-5; everything else with 1e-7."""
    txt = json.dumps(spec)
    return 2e-5 if ("Measure" in txt or "MSgate" in txt) else 1e-7


def _s_param(p, prog):
    if isinstance(p, dict):
        if "m" in p:
            return p["c"] * prog.reg_refs[p["m"]].par
        if "f" in p:
            return prog.params(p["f"])
        if "re" in p:
            return complex(p["re"], p["im"])
        if "mat" in p:
            return np.array([[complex(x[0], x[1]) for x in row] for row in p["mat"]])
        if "rmat" in p:
            return np.array(p["rmat"], dtype=float)
    return p


def s_build(prog, cmds, cache, seg):
    with prog.context as q:
        for idx, (name, params, modes, dagger, extra) in enumerate(cmds):
            if name == "Del":
                ops.Del | tuple(prog.reg_refs[m] for m in modes)
                continue
            if name == "New":
                ops.New(params[0])
                continue
            if "same_as" in extra and extra["same_as"] in cache:
                op = cache[extra["same_as"]]
            else:
                cls = getattr(ops, name)
                ps = [_s_param(x, prog) for x in params]
                if name.startswith("Measure"):
                    op = cls(*ps, select=extra.get("select"))
                else:
                    op = cls(*ps)
                if "oid" in extra:
                    cache[extra["oid"]] = op
            # modes are RegRef indices (not positions in the tuple of live modes)
            (op.H if dagger else op) | tuple(prog.reg_refs[m] for m in modes)
    return prog


def state_sig(res, backend):
    st = res.state
    if backend == "gaussian":
        return [np.array(st.means()), np.array(st.cov())]
    if backend == "fock":
        return [np.array(st.dm())]
    return [np.array(st.weights()), np.array(st.means()), np.array(st.covs())]


def same_sig(a, b, tol):
    if a[0] != b[0]:
        return False
    if a[0] == "err":
        return a[1] == b[1]
    if len(a[1]) != len(b[1]):
        return False
    for x, y in zip(a[1], b[1]):
        if x.shape != y.shape or not np.allclose(x, y, atol=tol, rtol=0):
            return False
    return True


def attempt(fn, backend):
    try:
        res = fn()
        sig = state_sig(res, backend)
        if not all(np.all(np.isfinite(x)) for x in sig):
            return ("err", "non-finite-state")      # e.g. post-selection on a zero-probability outcome
        return ("ok", sig)
    except Exception as e:  # noqa: BLE001
        return ("err", type(e).__name__)


def brief(sig):
    return sig[0] if sig[0] == "ok" else "err:" + sig[1]


def new_engine(backend):
    return sf.Engine(backend, backend_options=dict(BACKENDS[backend]))


def owner_ok(prog):
    """Every measured parameter of the program's ops refers to the program's own RegRef."""
    from strawberryfields.parameters import MeasuredParameter
    import sympy
    for c in prog.circuit:
        for x in c.op.p:
            if isinstance(x, sympy.Basic):
                for a in x.atoms(MeasuredParameter):
                    if prog.reg_refs.get(a.regref.ind) is not a.regref:
                        return False
    return True


# ---- generators
S_GATES = ["Dgate", "Xgate", "Zgate", "Sgate", "Rgate", "Pgate", "Fouriergate", "BSgate", "MZgate", "S2gate", "CXgate", "CZgate"]


def s_random_cmds(rng, n, k, backend, seg):
    names = list(S_GATES) + ["LossChannel", "Coherent", "Squeezed", "Vacuum"]
    if backend == "fock":
        names += ["Kgate", "Fock"]
    out = []
    for i in range(k):
        if out and rng.random() < 0.15:
            j = rng.randrange(len(out))
            if out[j][0] in sfgen.GAUSSIAN_GATES or out[j][0] in sfgen.NONGAUSS:
                nm = len(out[j][2])
                out.append([out[j][0], out[j][1], rng.sample(range(n), nm), rng.random() < 0.5, {"same_as": out[j][4].get("oid", out[j][4].get("same_as"))}])
                continue
        c = sfgen.random_cmd(rng, n, names, dagger_prob=0.35, exact=rng.random() < 0.3)
        if backend == "fock":
            c[1] = [x if not isinstance(x, float) else max(-0.5, min(0.5, x)) if c[0] in ("Sgate", "S2gate", "Pgate", "CXgate", "CZgate", "Squeezed") else x for x in c[1]]
        out.append(c + [{"oid": "s%d_%d" % (seg, i)}])
    return out


def _unitary2(rng):
    th, a, b = rng.uniform(0.2, 1.3), rng.uniform(-3, 3), rng.uniform(-3, 3)
    c, sn = math.cos(th), math.sin(th)
    u = [[complex(c * math.cos(a), c * math.sin(a)), complex(-sn * math.cos(b), -sn * math.sin(b))],
         [complex(sn * math.cos(-b), sn * math.sin(-b)), complex(c * math.cos(-a), c * math.sin(-a))]]
    return {"mat": [[[round(z.real, 12), round(z.imag, 12)] for z in row] for row in u]}


MERGE_GATES_1 = {"Dgate": 1, "Xgate": 0, "Zgate": 0, "Sgate": 1, "Rgate": 0, "Pgate": 0}
MERGE_GATES_2 = {"BSgate": 1, "MZgate": 1, "S2gate": 1, "CXgate": 0, "CZgate": 0}


def merge_families(n, backend):
    fams = ["gate1", "loss", "prep"]
    if backend != "fock":
        fams.append("thermal")      # not a primitive of the fock compiler
    if n >= 2:
        fams.append("gate2")
        if backend != "bosonic":
            fams.append("interferometer")      # not decomposed by the bosonic compiler
    if backend == "gaussian":
        fams.append("passive")
    if backend == "fock":
        fams.append("kerr")
    return fams


def merge_group(rng, n, backend, tag, fam=None):
    """2-3 adjacent commands of one mergeable family on the same modes, with parameters that do
    not cancel: gates (also daggered, also one op object used twice), channels, preparations,
    Interferometers.  Returns the list of commands and the family name."""
    fams = merge_families(n, backend) + ["gate1"]
    fam = fam or rng.choice(fams)
    k = rng.choice([2, 2, 2, 3])
    vals = rng.sample([0.11, 0.23, 0.37, 0.52, -0.19, -0.31, 0.44, -0.47], k)
    small = backend == "fock"
    out = []
    if fam in ("gate1", "gate2", "kerr"):
        table = MERGE_GATES_1 if fam == "gate1" else MERGE_GATES_2 if fam == "gate2" else {"Kgate": 0}
        name = rng.choice(sorted(table))
        modes = rng.sample(range(n), 2 if fam == "gate2" else 1)
        rest = [rng.choice([0.0, 0.3, -0.7])] * table[name]
        for i, v in enumerate(vals):
            out.append([name, [v * (0.5 if small else 1.0)] + rest, list(modes), rng.random() < 0.4, {"oid": "%s_%d" % (tag, i)}])
    elif fam == "loss":
        m = [rng.randrange(n)]
        for i, v in enumerate(vals):
            out.append(["LossChannel", [round(0.5 + abs(v), 3)], m, False, {"oid": "%s_%d" % (tag, i)}])
    elif fam == "thermal":
        m = [rng.randrange(n)]
        nbar = rng.choice([0.0, 0.4, 1.2])
        for i, v in enumerate(vals):
            out.append(["ThermalLossChannel", [round(0.5 + abs(v), 3), nbar], m, False, {"oid": "%s_%d" % (tag, i)}])
    elif fam == "passive":
        d = rng.choice([1, 2]) if n >= 2 else 1
        modes = rng.sample(range(n), d)
        for i, v in enumerate(vals):
            if d == 1:
                T = [[round(0.5 + abs(v), 3)]]
            else:
                T = [[round(0.5 + abs(v), 3), round(v * 0.3, 3)], [round(-v * 0.2, 3), round(0.9 - abs(v), 3)]]
            out.append(["PassiveChannel", [{"rmat": T}], list(modes), False, {"oid": "%s_%d" % (tag, i)}])
    elif fam == "prep":
        m = [rng.randrange(n)]
        names = ["Coherent", "Squeezed", "Thermal", "Vacuum", "DisplacedSqueezed"] + (["Fock"] if backend == "fock" else [])
        for i, v in enumerate(vals):
            nm = rng.choice(names)
            ps = {"Coherent": [abs(v), 0.4], "Squeezed": [v * 0.8, 0.2], "Thermal": [abs(v)], "Vacuum": [],
                  "DisplacedSqueezed": [abs(v), 0.1, v * 0.5, 0.3], "Fock": [1]}[nm]
            out.append([nm, ps, m, False, {"oid": "%s_%d" % (tag, i)}])
    else:
        modes = rng.sample(range(n), 2)
        for i in range(k):
            out.append(["Interferometer", [_unitary2(rng)], list(modes), False, {"oid": "%s_%d" % (tag, i)}])
    if fam not in ("prep", "interferometer") and rng.random() < 0.3:
        # the very same op object applied twice (for gates possibly once inverted)
        out[1] = [out[0][0], out[0][1], out[0][2], out[1][3], {"same_as": out[0][4]["oid"]}]
    return out, fam


def ff_cmd(rng, n, k, dagger=None):
    name = rng.choice(["Dgate", "Rgate", "Sgate", "Xgate"])
    c = rng.choice([0.5, -0.5, 1.0, 0.25])
    params = {"Dgate": [{"m": k, "c": c}, 0.3], "Rgate": [{"m": k, "c": c}], "Sgate": [{"m": k, "c": c * 0.5}, 0.0],
              "Xgate": [{"m": k, "c": c}]}[name]
    tgt = rng.randrange(n)
    return [name, params, [tgt], bool(rng.random() < 0.4) if dagger is None else dagger, {}]


def meas_cmd(rng, mode):
    return ["MeasureHomodyne", [rng.choice([0.0, 0.0, 1.5707963267948966, 0.4])], [mode], False, {"select": rng.choice([0.25, -0.5, 0.8, 0.0])}]


def add_reg_ops(rng, segs, n, p_del=0.12, p_new=0.1, max_total=4, skip_first=0):
    """Insert Del / New commands at random places of a list of segments (in place) and keep the
    rest consistent: commands that touch a deleted mode (or feed forward from one) are dropped,
    some single-mode commands are moved onto the new modes.  Returns the number of inserted ops."""
    live, total, fresh, count = set(range(n)), n, [], 0
    for si, seg in enumerate(segs):
        out = []
        for cmd in list(seg) + [None]:
            r = rng.random()
            if si >= skip_first:
                if r < p_del and len(live) > 1:
                    m = rng.choice(sorted(live))
                    out.append(["Del", [], [m], False, {}])
                    live.discard(m)
                    if m in fresh:
                        fresh.remove(m)
                    count += 1
                elif r < p_del + p_new and total < max_total:
                    out.append(["New", [1], [], False, {}])
                    live.add(total)
                    fresh.append(total)
                    total += 1
                    count += 1
            if cmd is None:
                break
            cmd = copy.deepcopy(cmd)
            if fresh and len(cmd[2]) == 1 and not cmd[0].startswith("Measure") and rng.random() < 0.4:
                cmd[2] = [rng.choice(fresh)]
            if any(m not in live for m in cmd[2]):
                continue
            if any(isinstance(x, dict) and "m" in x and x["m"] not in live for x in cmd[1]):
                continue
            out.append(cmd)
        seg[:] = out
    return count


def gen_compose(rng, backend):
    n = rng.randint(1, 3 if backend != "fock" else 2)
    seg1 = s_random_cmds(rng, n, rng.randint(0, 4), backend, 0)
    seg2 = s_random_cmds(rng, n, rng.randint(0, 4), backend, 1)
    feat = set()
    measured = []
    if rng.random() < 0.55:
        for m in rng.sample(range(n), rng.randint(1, n)):
            seg1.append(meas_cmd(rng, m))
            measured.append(m)
        if rng.random() < 0.3:
            seg1.append(ff_cmd(rng, n, rng.choice(measured)))
            feat.add("ff-inside")
    if measured and rng.random() < 0.6:
        k = rng.choice(measured)
        seg2.insert(rng.randint(0, len(seg2)), ff_cmd(rng, n, k))
        feat.add("ff-cross")
        if any(isinstance(x, dict) and x.get("m") == k for c in seg1 for x in c[1]):
            feat.add("ff-both")
    elif rng.random() < 0.08:
        un = [m for m in range(n) if m not in measured]
        if un:
            seg2.append(ff_cmd(rng, n, rng.choice(un)))
            feat.add("unmeasured-use")
    segs = [seg1, seg2]
    if rng.random() < 0.3:
        # a middle segment that measures nothing (or something else): values of the first must survive it
        mid = s_random_cmds(rng, n, rng.randint(0, 2), backend, 2)
        if measured and rng.random() < 0.4:
            others = [m for m in range(n) if m not in measured]
            if others:
                mid.append(meas_cmd(rng, rng.choice(others)))
        segs = [seg1, mid, seg2]
        for c in seg2:
            if "oid" in c[4]:
                c[4]["oid"] = c[4]["oid"].replace("s1_", "s9_")
            if "same_as" in c[4]:
                c[4]["same_as"] = c[4]["same_as"].replace("s1_", "s9_")
        feat.add("three-segments")
    child = rng.random() < 0.6
    args = {}
    if rng.random() < 0.2:
        # a free parameter used by every segment (Engine.run binds args in each segment)
        args = {"a": rng.choice([0.4, -0.3, 0.7])}
        for seg in segs:
            nm = rng.choice(["Dgate", "Rgate", "Sgate"])
            ps = {"Dgate": [{"f": "a"}, 0.2], "Rgate": [{"f": "a"}], "Sgate": [{"f": "a"}, 0.0]}[nm]
            seg.insert(rng.randint(0, len(seg)), [nm, ps, [rng.randrange(n)], rng.random() < 0.4, {}])
        feat.add("free-all")
    if backend == "gaussian" and measured and rng.random() < 0.3:
        # sampled instead of post-selected outcomes (np.random is seeded identically for each call pattern)
        for seg in segs:
            for c in seg:
                if c[0].startswith("Measure"):
                    c[4] = {}
        feat.add("sampled")
    if backend != "bosonic" and not args and rng.random() < 0.45:
        # (not together with the free parameter: every segment must keep its own use of it)
        # follow-up segments that delete / create modes (only meaningful for child programs:
        # an independent Program(n) cannot follow a program that changed the register)
        k = add_reg_ops(rng, segs, n, max_total=4 if backend == "gaussian" else 3,
                        skip_first=rng.choice([0, 1, 1]))
        if k:
            feat.add("reg-ops")
            child = True
    return {"n": n, "backend": backend, "segs": segs, "child": child, "feat": sorted(feat), "args": args,
            "np_seed": rng.randrange(10 ** 6)}


def compose_patterns(spec):
    """Run the three call patterns; returns dict pattern -> signature (+ 'retarget' flag)."""
    n, backend = spec["n"], spec["backend"]
    out = {}

    changed = []

    def build_all():
        cache = {}
        progs, fps = [], []
        for i, seg in enumerate(spec["segs"]):
            base = sf.Program(n) if (i == 0 or not spec["child"]) else sf.Program(progs[-1])
            progs.append(s_build(base, seg, cache, i))
            fps.append(fingerprint(progs[-1]))
            # building segment i must not change what the user sees of segments 0..i-1
            for j in range(i):
                d = fp_diff(fps[j], fingerprint(progs[j]))
                if d:
                    changed.append(("building", j, i, d))
        return progs, fps

    progs, fps = build_all()
    out["retarget"] = not all(owner_ok(p) for p in progs)
    out["changed"] = changed
    eng = new_engine(backend)
    begins = []
    orig_begin = eng.backend.begin_circuit

    def counting_begin(*a, **k):
        begins.append(1)
        return orig_begin(*a, **k)
    eng.backend.begin_circuit = counting_begin
    args = spec.get("args") or {}
    np.random.seed(spec.get("np_seed", 0))
    out["A"] = attempt(lambda: eng.run(progs, args=dict(args)), backend)
    out["begins"] = len(begins)
    for j, p_ in enumerate(progs):
        d = fp_diff(fps[j], fingerprint(p_))
        if d:
            changed.append(("running", j, len(progs) - 1, d))
    progs2, _ = build_all()
    eng2 = new_engine(backend)

    def seq():
        r = None
        for p in progs2:
            r = eng2.run(p, args=dict(args))
        return r
    np.random.seed(spec.get("np_seed", 0))
    out["B"] = attempt(seq, backend)
    cache = {}
    pc = sf.Program(n)
    for i, seg in enumerate(spec["segs"]):
        s_build(pc, seg, cache, i)
    eng3 = new_engine(backend)
    np.random.seed(spec.get("np_seed", 0))
    out["C"] = attempt(lambda: eng3.run(pc, args=dict(args)), backend)
    return out


def compose_verdict(spec, out):
    """None if the three patterns agree, else (signature, text)."""
    tol = spec_tol(spec)
    if out.get("changed"):
        how, j, i, d = out["changed"][0]
        return ("segments:earlier-segment-changed-by-%s-a-later-one:%s" % (how, d),
                "%s segment %d changed the user-visible state of segment %d (%s): register / num_subsystems / RegRef activity / circuit / op parameters must stay as they were"
                % (how, i, j, d))
    if out["retarget"]:
        return ("params:measured-parameter-retargeted",
                "building the second program re-targeted the first program's measured parameters (q[k].par of two programs is one sympy object)")
    ab = same_sig(out["A"], out["B"], tol)
    ac = same_sig(out["A"], out["C"], tol)
    if ab and ac:
        return None
    feat = spec.get("feat", [])
    if out.get("begins", 1) > 1 and ab and out["A"][0] == "ok" and out["C"][0] == "ok":
        return ("compose:%s:second-segment-restarts-from-vacuum" % spec["backend"],
                "run([p1,p2]) differs from run(p1+p2) and begin_circuit was called %d times during run([p1,p2]): the backend is "
                "re-initialised for every segment (BosonicBackend.run_prog -> init_circuit -> begin_circuit)" % out["begins"])
    cls = "feedforward" if "ff-cross" in feat else "unmeasured-use" if "unmeasured-use" in feat else "plain"
    if not ab:
        return ("compose:%s:one-call-vs-two-calls" % cls, "run([p1,p2]) -> %s but run(p1);run(p2) -> %s" % (brief(out["A"]), brief(out["B"])))
    if out["A"][0] == "err" and out["C"][0] == "ok":
        how = "two-segments-raise"
    elif out["A"][0] == "ok" and out["C"][0] == "err":
        how = "concatenated-raises-two-segments-run"
    elif out["A"][0] == "ok":
        how = "state-differs"
    else:
        how = "different-exceptions"
    return ("compose:%s:%s" % (cls, how), "run([p1,p2]) -> %s, run(p1+p2) -> %s on %s" % (brief(out["A"]), brief(out["C"]), spec["backend"]))


# ---- reset vs fresh
def ms_cmd(rng, n):
    return ["MSgate", [rng.choice([0.3, 0.5, -0.4]), rng.choice([0.0, 0.7]), rng.choice([1.0, 1.5]), rng.choice([1.0, 0.9]), False],
            [rng.randrange(n)], False, {}]


def result_extras(res):
    """Everything a Result reports besides the state: samples and ancilla samples, canonicalised."""
    def canon(d):
        return {int(k): [np.asarray(x, dtype=float).ravel().tolist() for x in v] for k, v in (d or {}).items()}
    sam = np.asarray(res.samples, dtype=float)
    return {"samples": sam.ravel().tolist(), "samples_shape": list(sam.shape), "ancillae": canon(res.ancillae_samples)}


def extras_diff(a, b, tol):
    for key in ("samples_shape", "samples", "ancillae"):
        x, y = a[key], b[key]
        if key == "ancillae":
            if sorted(x) != sorted(y) or any(len(x[k]) != len(y[k]) for k in x):
                return "ancillae_samples (modes / number of recorded outcomes: %s vs %s)" % (
                    {k: len(v) for k, v in x.items()}, {k: len(v) for k, v in y.items()})
            for k in x:
                for u, v in zip(x[k], y[k]):
                    if len(u) != len(v) or not np.allclose(u, v, atol=tol, rtol=0):
                        return "ancillae_samples values of mode %d" % k
        elif key == "samples":
            if len(x) != len(y) or not np.allclose(x, y, atol=tol, rtol=0, equal_nan=True):
                return "samples"
        elif x != y:
            return key
    return None


def gen_reset(rng, backend):
    n = rng.randint(1, 3 if backend != "fock" else 2)
    hist = []
    for _ in range(rng.randint(1, 2)):
        cm = s_random_cmds(rng, n, rng.randint(1, 4), backend, 0)
        if rng.random() < 0.4:
            m = rng.randrange(n)
            cm.append(meas_cmd(rng, m))
            if rng.random() < 0.5:
                cm.append(ff_cmd(rng, n, m))
        if rng.random() < 0.15:
            cm.append(["Dgate", [{"f": "a"}, 0.0], [0], True, {}])   # unbound -> this run raises
        hist.append(cm)
    q = s_random_cmds(rng, n, rng.randint(1, 4), backend, 0)
    if rng.random() < 0.4:
        m = rng.randrange(n)
        q.append(meas_cmd(rng, m))
        q.append(ff_cmd(rng, n, m))
    opts = None
    if backend == "fock" and rng.random() < 0.4:
        opts = {"cutoff_dim": rng.choice([4, 6])}
    if backend == "bosonic" and rng.random() < 0.6:
        # measurement-based squeezing, single-shot map: its ancilla outcomes are reported in Result.ancillae_samples
        for cm in hist + [q] if rng.random() < 0.7 else hist:
            if rng.random() < 0.8:
                cm.insert(rng.randint(0, next((i for i, c in enumerate(cm) if c[0].startswith("Measure")), len(cm))), ms_cmd(rng, n))
    if backend != "bosonic" and rng.random() < 0.4:
        # the history changes the register (the reset must restore the original number of modes)
        add_reg_ops(rng, hist, n, p_del=0.2, p_new=0.15, max_total=4 if backend == "gaussian" else 3)
        if rng.random() < 0.5:
            qq = [q]
            add_reg_ops(rng, qq, n, p_del=0.2, p_new=0.15, max_total=4 if backend == "gaussian" else 3)
            q = qq[0]
    return {"n": n, "backend": backend, "hist": hist, "q": q, "reset_opts": opts, "same_call": rng.random() < 0.3,
            "np_seed": rng.randrange(10 ** 6)}


def reset_verdict(spec):
    n, backend = spec["n"], spec["backend"]
    eng = new_engine(backend)
    progs = []
    if spec["same_call"]:
        prev = None
        for cm in spec["hist"]:
            prev = s_build(sf.Program(n) if prev is None else sf.Program(prev), cm, {}, 0)
            progs.append(prev)
        try:
            eng.run(progs)
        except Exception:  # noqa: BLE001
            pass
    else:
        prev = None
        for cm in spec["hist"]:
            prev = s_build(sf.Program(n) if prev is None else sf.Program(prev), cm, {}, 0)
            progs.append(prev)
            try:
                eng.run(prev)
            except Exception:  # noqa: BLE001
                pass
    try:
        if spec["reset_opts"]:
            eng.reset(dict(spec["reset_opts"]))
        else:
            eng.reset()
    except Exception as e:  # noqa: BLE001
        return ("reset:raises", "reset raised %s" % type(e).__name__)
    if eng.run_progs or eng.samples is not None:
        return ("reset:history-not-cleared", "run_progs=%d samples=%r after reset" % (len(eng.run_progs), eng.samples))
    for p in progs:
        if p in eng.run_progs:
            continue
    extras = {}

    def run_q(e, prog, tag):
        np.random.seed(spec.get("np_seed", 0))       # same draws for both engines
        res = e.run(prog)
        extras[tag] = result_extras(res)
        return res
    q1 = s_build(sf.Program(n), spec["q"], {}, 0)
    a = attempt(lambda: run_q(eng, q1, "a"), backend)
    eng2 = sf.Engine(backend, backend_options={**BACKENDS[backend], **(spec["reset_opts"] or {})})
    q2 = s_build(sf.Program(n), spec["q"], {}, 0)
    b = attempt(lambda: run_q(eng2, q2, "b"), backend)
    if "a" in extras and "b" in extras:
        d = extras_diff(extras["a"], extras["b"], max(spec_tol(spec), 1e-6))
        if d:
            return ("reset:result-differs-from-fresh:" + d.split(" ")[0], "after reset Result.%s differs from a new engine's on %s" % (d, backend))
    if not same_sig(a, b, spec_tol(spec)):
        return ("reset:differs-from-fresh", "after reset -> %s, fresh engine -> %s on %s" % (brief(a), brief(b), backend))
    return None


# ---- user programs untouched
def fingerprint(prog):
    import sympy
    from strawberryfields.parameters import MeasuredParameter, FreeParameter
    ids = {}

    def oid(o):
        return ids.setdefault(id(o), len(ids))

    def par(x):
        if isinstance(x, sympy.Basic):
            own = [prog.reg_refs.get(a.regref.ind) is a.regref for a in sorted(x.atoms(MeasuredParameter), key=str)]
            return ["sym", sympy.srepr(x), own]
        if isinstance(x, np.ndarray):
            return ["arr", x.tolist()]
        return ["num", repr(x)]

    circ = []
    for c in prog.circuit:
        op = c.op
        circ.append({"cmd": oid(c), "op": oid(op), "plist": oid(op.p), "cls": type(op).__name__, "p": [par(x) for x in op.p],
                     "dagger": getattr(op, "dagger", None), "select": repr(getattr(op, "select", None)),
                     "reg": [r.ind for r in c.reg], "regown": [prog.reg_refs.get(r.ind) is r for r in c.reg]})
    return {
        "circuit_id": 0, "circ": circ,
        "regs": sorted((k, r.ind, r.active) for k, r in prog.reg_refs.items()),
        "register": [r.ind for r in prog.register], "num_subsystems": prog.num_subsystems,
        "unused": sorted(prog.unused_indices), "init_unused": sorted(prog.init_unused_indices),
        "init_regs": sorted((k, r.ind, r.active) for k, r in prog.init_reg_refs.items()),
        "free": sorted((k, repr(v.default)) for k, v in prog.free_params.items()),
        "run_options": repr(sorted(prog.run_options.items())), "backend_options": repr(sorted(prog.backend_options.items())),
        "name": prog.name, "target": prog.target, "n": prog.init_num_subsystems,
    }


def fp_diff(a, b):
    for k in a:
        if k == "circ":
            if len(a[k]) != len(b[k]):
                return "circuit-length"
            for x, y in zip(a[k], b[k]):
                for f in x:
                    if x[f] != y[f]:
                        return "op." + f
        elif a[k] != b[k]:
            return k
    return None


def gen_untouched(rng, backend):
    n = rng.randint(1, 3 if backend != "fock" else 2)
    cm = s_random_cmds(rng, n, rng.randint(1, 5), backend, 0)
    feat = set()
    args = {}
    if rng.random() < 0.4:
        m = rng.randrange(n)
        cm.append(meas_cmd(rng, m))
        cm.append(ff_cmd(rng, n, m))
        feat.add("ff")
    fail = None
    r = rng.random()
    if r < 0.25:
        name = rng.choice(["Dgate", "Rgate", "Sgate", "BSgate"] if n > 1 else ["Dgate", "Rgate", "Sgate"])
        nm = 2 if name == "BSgate" else 1
        ps = {"Dgate": [{"f": "a"}, 0.2], "Rgate": [{"f": "a"}], "Sgate": [{"f": "a"}, 0.0], "BSgate": [{"f": "a"}, 0.1]}[name]
        cm.insert(rng.randint(0, len(cm)), [name, ps, rng.sample(range(n), nm), rng.random() < 0.6, {}])
        args = {"a": rng.choice([0.4, -0.3, 0.7])}
        fail = "unbound"
        feat.add("free")
    elif r < 0.33 and n > 1:
        un = rng.randrange(n)
        cm.insert(0, ff_cmd(rng, n, un, dagger=rng.random() < 0.7))     # used before any measurement: raises every time
        fail = "unmeasured"
    elif r < 0.38:
        cm.append(["Dgate", [{"re": 0.3, "im": 0.2}, 0.0], [0], rng.random() < 0.7, {}])   # complex r: _apply raises ValueError
        fail = "complex"
    symbolic = "ff" in feat or fail == "unmeasured"
    if rng.random() < 0.6:
        # keep each group adjacent, and before any measurement so that it acts on a live state
        limit = next((i for i, c in enumerate(cm) if c[0].startswith("Measure")), len(cm))
        anchors = sorted((rng.randint(0, limit) for _ in range(rng.choice([1, 1, 2]))), reverse=True)
        for g, pos in enumerate(anchors):
            grp, fam = merge_group(rng, n, backend, "mg%d" % g)
            cm[pos:pos] = grp
            feat.add("merge:" + fam)
    if backend != "bosonic" and fail != "unmeasured" and rng.random() < 0.3:
        cc = [cm]
        if add_reg_ops(rng, cc, n, p_del=0.15, p_new=0.12, max_total=4 if backend == "gaussian" else 3):
            feat.add("reg-ops")
        cm = cc[0]
    co = rng.choice([None, {"optimize": False}, {"warn_connected": False}, {"optimize": True}, {"optimize": True}])
    if co and co.get("optimize") and symbolic:
        co = {"optimize": False}     # optimising circuits with measured parameters is C03's subject (known defect there)
    return {"n": n, "backend": backend, "cmds": cm, "args": args, "fail": fail, "compile_options": co,
            "precompile": rng.random() < 0.4, "precompile_optimize": (not symbolic) and rng.random() < 0.6,
            "precompile_kwargs": rng.choice([None, None, {"shots": 3}, {"cutoff_dim": 7}, {"shots": 2, "warn_connected": False}]),
            "call_optimize": (not symbolic) and rng.random() < 0.4,
            "sibling": ("ff" in feat or "free" in feat) and rng.random() < 0.4,
            "free_default": rng.choice([None, 0.2, -0.6]) if "free" in feat else None, "feat": sorted(feat)}


def untouched_verdicts(spec):
    """Yields (signature, text) for every way the user's program was altered / did not reproduce."""
    n, backend, tol = spec["n"], spec["backend"], spec_tol(spec)
    out = []
    def set_default(prog, v):
        if v is not None and "a" in prog.free_params:
            prog.free_params["a"].default = v
        return prog

    P = set_default(s_build(sf.Program(n), spec["cmds"], {}, 0), spec.get("free_default"))
    fp0 = fingerprint(P)
    if spec.get("call_optimize"):
        try:
            o1 = P.optimize()
            d = fp_diff(fp0, fingerprint(P))
            if d:
                out.append(("untouched:optimize:" + d, "Program.optimize changed the user's program (%s)" % d))
            o2 = P.optimize()
            d = fp_diff(fingerprint(o1), fingerprint(o2))
            if d:
                out.append(("optimize:twice-differs:" + d, "optimising the same program twice gives different circuits (%s)" % d))
        except Exception as e:  # noqa: BLE001
            out.append(("optimize:raises:" + type(e).__name__, "Program.optimize raised %r" % e))
    if spec["precompile"]:
        copts = {"optimize": True} if spec.get("precompile_optimize") else {}
        copts.update(spec.get("precompile_kwargs") or {})      # run options / backend options handed to compile
        try:
            c1 = P.compile(compiler=backend, **copts)
            d = fp_diff(fp0, fingerprint(P))
            if d:
                out.append(("untouched:compile:" + d, "Program.compile(%s) changed the user's program (%s)" % (copts, d)))
            c2 = P.compile(compiler=backend, **copts)
            d = fp_diff(fingerprint(c1), fingerprint(c2))
            if d and d not in ("op.cmd", "op.op", "op.plist"):
                out.append(("compile:twice-differs:" + d, "compiling the same program twice gives different circuits (%s)" % d))
        except Exception as e:  # noqa: BLE001
            out.append(("compile:raises:" + type(e).__name__, "Program.compile raised %r" % e))
            c1 = None
        if not spec["fail"] and c1 is not None:
            # same compile options on both sides: merged and unmerged gates differ by truncation error on the fock backend
            x = attempt(lambda: new_engine(backend).run(P, args=dict(spec["args"]), compile_options=dict(copts)), backend)
            if d is None and fp_diff(fp0, fingerprint(P)):
                out.append(("untouched:run:" + fp_diff(fp0, fingerprint(P)), "Engine.run(compile_options=%r) changed the user's program" % (copts,)))
            y = attempt(lambda: new_engine(backend).run(c1, args=dict(spec["args"]), shots=1), backend)   # shots handed to compile would otherwise apply
            if x[0] == "ok" and not same_sig(x, y, tol):
                sig = "compile:run-of-compiled-program-raises:" + y[1] if y[0] == "err" else "compile:run-of-compiled-program-differs"
                out.append((sig, "running the program -> %s, running its compiled copy -> %s" % (brief(x), brief(y))))
    raised = False
    if spec["fail"] == "unbound":
        try:
            new_engine(backend).run(P)
        except Exception:  # noqa: BLE001
            raised = True
        d = fp_diff(fp0, fingerprint(P))
        if d:
            out.append(("apply:p0-not-restored-after-exception" if d == "op.p" else "untouched:failed-run:" + d,
                        "a run that raised (unbound free parameter) left the user's program changed (%s)" % d))
    if spec["sibling"]:
        # an unrelated program built from the same text (own default for its free parameter), never run
        sib = set_default(s_build(sf.Program(n), spec["cmds"], {}, 0), 0.9)
        d = fp_diff(fp0, fingerprint(P))
        if d:
            sig = {"op.p": "params:measured-parameter-retargeted", "free": "params:free-parameter-shared-across-programs"}.get(d, "untouched:sibling:" + d)
            out.append((sig, "constructing another program changed this program (%s)" % d))
            return out, fp0
        if spec["args"] and "a" in P.free_params and "a" in sib.free_params and spec.get("free_default") is None:
            # binding a value in one program must not bind the equally named parameter of another one
            sib.free_params["a"].default = None
            x = attempt(lambda: new_engine(backend).run(P, args=dict(spec["args"])), backend)
            y = attempt(lambda: new_engine(backend).run(sib), backend)
            if x[0] == "ok" and y[0] == "ok":
                out.append(("params:free-parameter-shared-across-programs",
                            "after running one program with args=%r an unrelated program with an equally named, unbound free parameter runs instead of raising ParameterError" % (spec["args"],)))
                return out, fp0
    co = None if spec["compile_options"] is None else dict(spec["compile_options"])
    co_before = copy.deepcopy(co)
    a = attempt(lambda: new_engine(backend).run(P, args=dict(spec["args"]), compile_options=co), backend)
    if co != co_before:
        out.append(("run:compile_options-mutated", "Engine.run changed the caller's compile_options dict: %r -> %r" % (co_before, co)))
    d = fp_diff(fp0, fingerprint(P))
    if d and not (raised and d == "op.p"):
        sig = "apply:p0-not-restored-after-exception" if (d == "op.p" and a[0] == "err") else "untouched:run:" + d
        out.append((sig, "Engine.run (outcome %s) changed the user's program (%s)" % (brief(a), d)))
    co2 = None if spec["compile_options"] is None else dict(spec["compile_options"])
    b = attempt(lambda: new_engine(backend).run(P, args=dict(spec["args"]), compile_options=co2), backend)
    if not same_sig(a, b, tol):
        out.append(("rerun:differs" + (":after-exception" if a[0] == "err" else ""), "running the same Program object again: %s then %s (or a different state)" % (brief(a), brief(b))))
    P2 = s_build(sf.Program(n), spec["cmds"], {}, 0)
    co3 = None if spec["compile_options"] is None else dict(spec["compile_options"])
    c = attempt(lambda: new_engine(backend).run(P2, args=dict(spec["args"]), compile_options=co3), backend)
    if not same_sig(b, c, tol):
        out.append(("rerun:differs-from-fresh-program" + (":after-exception" if raised or a[0] == "err" else ""),
                    "used Program object -> %s, freshly built identical program -> %s (or a different state)" % (brief(b), brief(c))))
    if spec["args"] and any(isinstance(x, dict) and "f" in x for c_ in spec["cmds"] for x in c_[1]):
        # binding: the program with free parameters bound through args = the same program with the numbers written in
        def subst(x, args):
            return args[x["f"]] if isinstance(x, dict) and "f" in x else x
        lit = [[c[0], [subst(x, spec["args"]) for x in c[1]], c[2], c[3], c[4]] for c in spec["cmds"]]
        P3 = s_build(sf.Program(n), lit, {}, 0)
        co4 = None if spec["compile_options"] is None else dict(spec["compile_options"])
        e = attempt(lambda: new_engine(backend).run(P3, compile_options=co4), backend)
        if not same_sig(c, e, tol):
            out.append(("bind:args-differ-from-literal-values", "program run with args=%r -> %s, same program with the numbers written in -> %s (or a different state)"
                        % (spec["args"], brief(c), brief(e))))
        # binding again: a second run of the SAME object with other values must use the new values
        args2 = {k: round(-0.5 * v + 0.15, 3) for k, v in spec["args"].items()}
        lit2 = [[c_[0], [subst(x, args2) for x in c_[1]], c_[2], c_[3], c_[4]] for c_ in spec["cmds"]]
        f = attempt(lambda: new_engine(backend).run(P2, args=dict(args2), compile_options=None if co4 is None else dict(co4)), backend)
        g = attempt(lambda: new_engine(backend).run(s_build(sf.Program(n), lit2, {}, 0), compile_options=None if co4 is None else dict(co4)), backend)
        if not same_sig(f, g, tol):
            out.append(("bind:second-run-with-other-args", "re-running a program with args=%r -> %s, the program with those numbers written in -> %s (or a different state)"
                        % (args2, brief(f), brief(g))))
    return out, fp0


# ---- Gate.decompose
DECOMP = {"Xgate": [0.4], "Zgate": [-0.3], "Pgate": [0.5], "MZgate": [0.3, 0.7], "sMZgate": [0.3, 0.7], "S2gate": [0.4, 0.2],
          "CXgate": [0.5], "CZgate": [0.5], "Fouriergate": []}


def dec_seq(seq):
    return [[type(c.op).__name__, [repr(sfgen.spec_of_program(type("X", (), {"circuit": [c]}))[0][1])], [r.ind for r in c.reg], bool(c.op.dagger)] for c in seq]


def decompose_correspondence(ctx):
    """Gate.decompose on the implementation vs the model's decompose_ids (flip every product once, reverse)."""
    prog = sf.Program(2)
    cases = []
    for name, ps in sorted(DECOMP.items()):
        cls = getattr(ops, name)
        nm = cls.ns
        reg = [prog.reg_refs[i] for i in range(nm)]
        g = cls(*ps)
        plain = dec_seq(g.decompose(reg))
        plain2 = dec_seq(g.decompose(reg))
        gh = g.H
        dag = dec_seq(gh.decompose(reg))
        dag2 = dec_seq(gh.decompose(reg))
        cases.append((name, plain, dag))
        if plain != plain2 or dag != dag2:
            ctx.counterexample("decompose:not-repeatable:" + name, "decomposing %s twice gives different sequences" % name,
                               {"check": "decompose", "name": name})
        if g.dagger or not gh.dagger or g.p is not gh.p:
            ctx.counterexample("decompose:changed-the-gate:" + name, "decompose changed the gate object itself", {"check": "decompose", "name": name})
    lines = ["From Coq Require Import List Bool Arith.", "Import ListNotations.", "From SFV Require Import C09.Model.",
             "Definition cases : list (list bool) := " + coq.coq_list([coq.coq_list([coq.coq_bool(c[3]) for c in plain]) for _, plain, _ in cases]) + ".",
             "Eval vm_compute in map (fun d => let r := decompose_ids true d (seq 0 (length d)) in map (fun i => (i, nth i (fst r) false)) (snd r)) cases."]
    ok, vals, raw = ctx.coq_eval("cases_decompose", "\n".join(lines))
    if not ok:
        ctx.obligation("correspondence:decompose", False, raw)
        return
    bad = []
    for (name, plain, dag), mv in zip(cases, vals[0]):
        want = [[plain[i][0], plain[i][1], plain[i][2], bool(f)] for i, f in mv]
        ctx.case({"decompose": name, "plain": plain, "dagger": dag}, nontrivial=len(plain) >= 2, bucket="decompose")
        if want != dag:
            bad.append(name)
            ctx.counterexample("decompose:dagger:" + name,
                               "%s.H decomposes into %s, expected the reversed sequence with every flag flipped once %s" % (name, dag, want),
                               {"check": "decompose", "name": name})
    ctx.traces += len(cases)
    ctx.obligation("correspondence:decompose", not bad, "mismatch for " + ",".join(bad))


# ---- time-domain programs
def tdm_fingerprint(P):
    return {"circuit": [str(c) for c in P.circuit], "rolled": [str(c) for c in (P.rolled_circuit or [])],
            "params": repr(P.tdm_params), "is_unrolled": P.is_unrolled,
            "space_unrolled": P.space_unrolled_circuit is not None,
            "regs": sorted((k, r.ind, r.active) for k, r in P.reg_refs.items()), "num_subsystems": P.num_subsystems,
            "init_num_subsystems": P.init_num_subsystems, "timebins": P.timebins}


def tdm_verdict(rng_seed, spec):
    """A time-domain program run through histories of user-side unroll / space_unroll / roll calls and
    engine runs with varying shots: every run must give the samples a freshly built program gives for
    the same call, and must leave the program as the user left it."""
    def build():
        prog = sf.TDMProgram(N=spec["N"])
        with prog.context(spec["a"], spec["b"]) as (p, q):
            ops.Sgate(spec["r"], 0) | q[-1]
            if spec["N"] >= 2:
                ops.BSgate(p[0]) | (q[-2], q[-1])
            ops.Rgate(p[1]) | q[-1]
            ops.MeasureHomodyne(p[1]) | q[0]
        return prog

    def run(prog, eng, shots, **kw):
        np.random.seed(rng_seed)
        return np.array(eng.run(prog, shots=shots, **kw).samples)

    def prep(prog, how, shots):
        if how == "unroll":
            prog.unroll(shots=shots)
        elif how == "unroll-other-shots-then-roll":
            prog.unroll(shots=shots + 1)
            prog.roll()
        elif how == "space-unroll-then-roll":
            prog.space_unroll(shots=shots)
            prog.roll()
        elif how == "unroll-roll-unroll":
            prog.unroll(shots=shots + 1)
            prog.roll()
            prog.unroll(shots=shots)

    P = build()
    eng = sf.Engine("gaussian")
    for step, (how, shots, reset_first) in enumerate(spec.get("history", [["none", spec["shots"], False], ["none", spec["shots"], True]])):
        prep(P, how, shots)
        fp0 = tdm_fingerprint(P)
        if reset_first:
            eng.reset()
        else:
            eng = sf.Engine("gaussian")
        got = run(P, eng, shots)
        fp1 = tdm_fingerprint(P)
        for k in fp0:
            if fp0[k] != fp1[k]:
                return ("tdm:program-changed-by-run:" + k, "step %d (%s, shots=%d): TDMProgram.%s differs after Engine.run" % (step, how, shots, k))
        # a freshly built program taken through the same user-side calls (and no engine run)
        Q = build()
        hist_ = spec.get("history", [["none", spec["shots"], False], ["none", spec["shots"], True]])
        for how_, shots_, _ in hist_[:step]:
            prep(Q, how_, shots_)
            Q.roll() if spec.get("roll_between", False) else None
        prep(Q, how, shots)
        was_rolled = not Q.is_unrolled
        want = run(Q, sf.Engine("gaussian"), shots)
        if got.shape != want.shape or not np.allclose(got, want, atol=1e-9):
            return ("tdm:rerun-differs-from-fresh-program", "step %d (%s, shots=%d): samples of the re-used program %s differ from a freshly built program's %s"
                    % (step, how, shots, got.shape, want.shape))
        if was_rolled and want.shape[0] != shots:
            return ("tdm:wrong-number-of-shots", "step %d (%s, shots=%d): samples have shape %s" % (step, how, shots, want.shape))
        P.roll() if spec.get("roll_between", False) else None
    return None


def search(ctx):
    rng = ctx.rng
    np.random.seed(ctx.seed)
    # corpus first
    for f in sorted(glob.glob(os.path.join(coq.VERIF, "corpus", "C09-*.json"))):
        d = json.load(open(f)).get("data", {})
        if d.get("check") in ("compose", "reset", "untouched", "tdm", "child-alone"):
            for sig, text in search_eval(d):
                ctx.counterexample(sig, text, d)
    weights = [("gaussian", 0.65), ("fock", 0.2), ("bosonic", 0.15)]

    def pick():
        r = rng.random()
        acc = 0
        for b, w in weights:
            acc += w
            if r < acc:
                return b
        return "gaussian"

    for _ in range(ctx.budget(60, 2400)):
        spec = gen_compose(rng, pick())
        d = {"check": "compose", "spec": spec}
        try:
            out = compose_patterns(spec)
        except Exception as e:  # noqa: BLE001  (building the segments themselves failed)
            ctx.case({"compose": spec}, nontrivial=True, bucket="compose:build-raises")
            ctx.counterexample("segments:building-raises:" + type(e).__name__, "building the program segments raised %r" % e, d)
            continue
        v = compose_verdict(spec, out)
        ctx.case({"compose": spec, "A": brief(out["A"]), "C": brief(out["C"])}, nontrivial=any(len(x) > 0 for x in spec["segs"][1:]),
                 bucket="compose:%s:%s" % (spec["backend"], "+".join(spec["feat"]) or "plain"))
        if v:
            ctx.counterexample(v[0], v[1], d)
    merge_sweep(ctx)
    ff_sweep(ctx)
    child_alone_sweep(ctx)
    for _ in range(ctx.budget(30, 1200)):
        spec = gen_reset(rng, "bosonic" if rng.random() < 0.2 else pick())
        try:
            v = reset_verdict(spec)
        except Exception as e:  # noqa: BLE001
            v = ("reset:session-raises:" + type(e).__name__, "building / resetting raised %r" % e)
        ctx.case({"reset": spec}, nontrivial=True, bucket="reset:" + spec["backend"])
        if v:
            ctx.counterexample(v[0], v[1], {"check": "reset", "spec": spec})
    for _ in range(ctx.budget(100, 2400)):
        spec = gen_untouched(rng, pick())
        try:
            vs, _ = untouched_verdicts(spec)
        except Exception as e:  # noqa: BLE001
            vs = [("untouched:building-raises:" + type(e).__name__, "building the program raised %r" % e)]
        ctx.case({"untouched": spec}, nontrivial=bool(spec["fail"] or spec["precompile"] or spec["sibling"] or
                                                        any("same_as" in c[4] or c[3] for c in spec["cmds"])),
                 bucket="untouched:%s:%s" % (spec["backend"], spec["fail"] or "ok"))
        for ft in spec["feat"]:
            if ft.startswith("merge:"):
                ctx.hist["untouched:" + ft + (":optimized" if (spec.get("call_optimize") or (spec["precompile"] and spec.get("precompile_optimize")) or (spec["compile_options"] or {}).get("optimize")) else "")] = \
                    ctx.hist.get("untouched:" + ft + (":optimized" if (spec.get("call_optimize") or (spec["precompile"] and spec.get("precompile_optimize")) or (spec["compile_options"] or {}).get("optimize")) else ""), 0) + 1
        for sig, text in vs:
            ctx.counterexample(sig, text, {"check": "untouched", "spec": spec})
    for k in range(ctx.budget(8, 60)):
        N = rng.randint(1, 3)
        T = rng.randint(2, 4)
        hows = ["none", "none", "unroll", "unroll-other-shots-then-roll", "space-unroll-then-roll", "unroll-roll-unroll"]
        spec = {"N": N, "a": [round(rng.uniform(0, 1.5), 3) for _ in range(T)], "b": [round(rng.uniform(0, 1.5), 3) for _ in range(T)],
                "r": round(rng.uniform(0.1, 0.8), 3), "shots": rng.randint(1, 2),
                "history": [[rng.choice(hows) if j or k % 2 else "none", rng.randint(1, 3), bool(j and rng.random() < 0.5)] for j in range(rng.randint(2, 3))],
                "roll_between": rng.random() < 0.5}
        try:
            v = tdm_verdict(ctx.seed + k, spec)
        except Exception as e:  # noqa: BLE001
            v = ("tdm:raises:" + type(e).__name__, "TDM session raised %r" % e)
        ctx.case({"tdm": spec}, nontrivial=True, bucket="tdm")
        if v:
            ctx.counterexample(v[0], v[1], {"check": "tdm", "spec": spec, "seed": ctx.seed + k})


def merge_sweep(ctx):
    """Every mergeable family on every backend that accepts it, through every optimising entry point
    (Program.optimize, compile(optimize=True), run(compile_options={'optimize': True}))."""
    rng = ctx.rng
    for backend in BACKENDS:
        n = 2
        for fam in merge_families(n, backend):
            grp, _ = merge_group(rng, n, backend, "mg0", fam=fam)
            cm = [["Squeezed", [0.3, 0.2], [0], False, {"oid": "s0_0"}], ["Coherent", [0.4, 0.1], [1], False, {"oid": "s0_1"}],
                  ["BSgate", [0.6, 0.2], [0, 1], False, {"oid": "s0_2"}]] + grp + [["Rgate", [0.3], [0], False, {"oid": "s0_3"}]]
            spec = {"n": n, "backend": backend, "cmds": cm, "args": {}, "fail": None, "compile_options": {"optimize": True},
                    "precompile": True, "precompile_optimize": True, "call_optimize": True, "sibling": False, "feat": ["merge:" + fam]}
            vs, _ = untouched_verdicts(spec)
            ctx.case({"untouched": spec}, nontrivial=True, bucket="merge-sweep:%s:%s" % (backend, fam))
            for sig, text in vs:
                ctx.counterexample(sig, text, {"check": "untouched", "spec": spec})


def ff_sweep(ctx):
    """Deterministic family: every mode of 1-3 mode registers is measured (some twice, the later value
    counts) and fed forward into the following segment, directly or across an empty middle segment, with
    child and independent follow-up programs."""
    sel = [0.25, -0.5, 0.8]
    case = 0
    for n in (1, 2, 3):
        for k in range(n):
            for variant in range(2):
                order = [(k + 1 + j) % n for j in range(n)]          # mode k is measured last
                seg1 = [["Squeezed", [0.3 + 0.1 * m, 0.2], [m], False, {}] for m in range(n)]
                if variant:
                    seg1 += [["MeasureHomodyne", [0.0], [k], False, {"select": 0.6}], ["Squeezed", [0.25, 0.1], [k], False, {}]]
                seg1 += [["MeasureHomodyne", [0.0], [m], False, {"select": sel[m]}] for m in order]
                tgt = (k + 1) % n
                seg2 = [["Coherent", [0.4, 0.3], [tgt], False, {}], ["Dgate", [{"m": k, "c": 0.5}, 0.3], [tgt], bool(variant), {}],
                        ["Rgate", [{"m": order[0], "c": -0.7}], [tgt], False, {}]]
                segs = [seg1, seg2] if (case % 3) else [seg1, [["Rgate", [0.2], [tgt], False, {}]], seg2]
                spec = {"n": n, "backend": "gaussian", "segs": segs, "child": bool(case % 2), "feat": ["ff-cross", "sweep"], "args": {}, "np_seed": 1}
                case += 1
                out = compose_patterns(spec)
                v = compose_verdict(spec, out)
                ctx.case({"compose": spec, "A": brief(out["A"]), "C": brief(out["C"])}, nontrivial=True, bucket="ff-sweep:n%d" % n)
                if v:
                    ctx.counterexample(v[0], v[1], {"check": "compose", "spec": spec})


def child_alone_verdict(spec):
    """A follow-up program built with sf.Program(parent), run on its own on a new engine, behaves like an
    independent program on the parent's final register (parents that only create modes, so that such an
    independent program exists)."""
    n, k, backend = spec["n"], spec["new"], spec["backend"]
    parent = s_build(sf.Program(n), [["New", [1], [], False, {}] for _ in range(k)] + spec["parent"], {}, 0)
    child = s_build(sf.Program(parent), spec["child"], {}, 1)
    indep = s_build(sf.Program(n + k), spec["child"], {}, 1)
    a = attempt(lambda: new_engine(backend).run(child), backend)
    b = attempt(lambda: new_engine(backend).run(indep), backend)
    if not same_sig(a, b, spec_tol(spec)):
        return ("segments:child-program-alone-differs-from-independent-program",
                "sf.Program(parent) with the parent's %d+%d modes run alone -> %s, sf.Program(%d) with the same circuit -> %s (or a different state)"
                % (n, k, brief(a), n + k, brief(b)))
    return None


def child_alone_sweep(ctx):
    rng = ctx.rng
    for backend in ("gaussian", "fock"):
        for n, k in ((1, 1), (2, 1), (1, 2)):
            cm = [c for c in s_random_cmds(rng, n + k, 4, backend, 1)]
            cm.append(["Dgate", [0.3, 0.2], [n + k - 1], False, {}])
            spec = {"n": n, "new": k, "backend": backend, "parent": s_random_cmds(rng, n, 2, backend, 0), "child": cm}
            try:
                v = child_alone_verdict(spec)
            except Exception as e:  # noqa: BLE001
                v = ("segments:building-raises:" + type(e).__name__, "building parent / child raised %r" % e)
            ctx.case({"child-alone": spec}, nontrivial=True, bucket="child-alone:" + backend)
            if v:
                ctx.counterexample(v[0], v[1], {"check": "child-alone", "spec": spec})


def search_eval(d):
    if d["check"] == "child-alone":
        v = child_alone_verdict(d["spec"])
        return [v] if v else []
    """Re-evaluate one search case; list of (signature, text) violations."""
    if d["check"] == "compose":
        v = compose_verdict(d["spec"], compose_patterns(d["spec"]))
        return [v] if v else []
    if d["check"] == "reset":
        v = reset_verdict(d["spec"])
        return [v] if v else []
    if d["check"] == "untouched":
        return untouched_verdicts(d["spec"])[0]
    if d["check"] == "tdm":
        v = tdm_verdict(d.get("seed", 0), d["spec"])
        return [v] if v else []
    return []


def replay(ctx, data):
    d = data["data"]
    if d.get("check") == "session":
        u = d["session"]
        variant = detect_variant()
        impl = run_impl(u)
        model = run_model(ctx, "replay_engine", [u], variant)
        bad = False
        for k, i in enumerate(impl):
            pv = predicate_on_impl(u, k)
            if pv:
                print("call %d: %s" % (k, pv[1]))
                bad = True
                break
        if model is not None:
            for k, (m, i) in enumerate(zip(model[0], impl)):
                dd = compare_obs(m, i, u)
                print("call %d: outcome impl=%s model=%s%s" % (k, i["err"], m["err"], "" if dd is None else "  DIFF in " + dd))
        return bad
    if d.get("check") == "variant-probe":
        v = detect_variant()
        print("detected variant safe=%s fixed=%s linkok=%s" % v)
        idx = [r[0] for r in REGRESSIONS].index(d["switch"])
        return not v[idx]
    if d.get("check") == "decompose":
        before = len(ctx.issues)
        decompose_correspondence(ctx)
        return len(ctx.issues) > before
    vs = search_eval(d)
    for sig, text in vs:
        print("%s: %s" % (sig, text))
    want = data.get("signature")
    return any(sig == want for sig, _ in vs) if want and vs else bool(vs)
