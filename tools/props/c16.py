"""C16 — state observables are consistent with each other and across representations."""
import glob
import itertools
import json
import math
import os
import string

import numpy as np

from vlib import coq, sfgen

import strawberryfields as sf
from strawberryfields.backends import states as sfstates
from strawberryfields.backends.states import BaseFockState, BaseGaussianState
from strawberryfields.utils import post_processing as pp

PROP = "C16"
LEVEL = "proof"
COQ_TARGETS = ["C16/Model.vo", "C16/Proofs.vo", "C16/ProofsFock.vo", "C16/Exec.vo"]
COQ_DIRS = ["C16"]
PROPERTIES_FILE = "Properties/C16.v"
ALLOWED_AXIOMS = set()
RULE = ("case = (state, method, mode subset and order, arguments).  States: random Gaussian circuits (squeezing, "
        "displacement, beam splitters, loss) on 1-4 modes run on the gaussian, bosonic and fock backends, non-Gaussian "
        "Fock-backend states (Fock preparations, Kerr), arbitrary integer tensors / covariance data handed to the state "
        "classes directly.  Non-trivial = proper, non-prefix mode subset (or non-ascending order) of a state with "
        "non-zero correlation between requested and unrequested modes")
TRUSTED_BASE = [
    "Coq 8.16.1 kernel; vm_compute evaluates the model on generated cases (PrimFloat for Gaussian quantities, Z for Fock tensors)",
    "hand-written model coq/C16/Model.v of BaseGaussianState.{reduced_gaussian,displacement,mean_photon,quad_expectation,"
    "parity_expectation}, BaseBosonicState.quad_expectation (mixture moments), BaseFockState.{all_fock_probs,fock_prob,trace,reduced_dm,mean_photon,diagonal_expectation} (mixed "
    "representation), FockBackend.state axis permutation, reduced_bosonic index selection, post_processing sample statistics; "
    "tied by float / exact-integer correspondence on generated inputs including malformed mode arguments",
    "numpy / scipy / thewalrus (Fock conversions, Wigner functions, determinant/inverse) are observed, not modelled: covered by the "
    "cross-method / cross-representation search only",
    "harness: tools/props/c16.py, tools/vlib/*; tolerances 1e-9 (same representation), 2e-4..2e-3 (Fock truncation vs phase space)",
]
ASSUMPTIONS = [
    "scalars form a field (Section hypothesis field_theory); cos/sin values enter as named inputs with c*c+s*s=1",
    "Fock-truncation error of low-energy Gaussian states at the cutoffs used is below the cross-representation tolerance",
]
MANIFEST_TEXT = (
    "proof (partial). Full theorems (unbounded in mode count, mode lists, cutoff, tensors; scalars any field): "
    "C16_gauss_subset_order, C16_gauss_unsorted_rejected, C16_gauss_displacement_order, C16_gauss_photon, C16_gauss_quad_photon, "
    "C16_fock_prob_all_probs, C16_fock_trace, C16_bosonic_quad_total_variance, C16_fock_marginals, C16_fock_mean_photon_marginal, C16_fock_reduced_labels_single, C16_gauss_parity_subset, C16_gauss_parity_order (model of parity_expectation after "
    "fix 5603fbf). Stated but not proved in Coq "
    "(C16_fock_reduced_labels_statement for >= 2 kept modes, C16_fock_parity_statement): validated each run by exact "
    "integer-tensor correspondence and captured einsum subscripts. Wigner functions, thewalrus Fock conversions, bosonic "
    "observables, fidelities: cross-method / cross-representation search only.")

ALPHA = string.ascii_lowercase
TOL = 1e-9


# ======================================================================================
# helpers

def _close(a, b, tol=TOL):
    a, b = np.asarray(a, dtype=complex), np.asarray(b, dtype=complex)
    if a.shape != b.shape:
        return False
    if a.size == 0:
        return True
    scale = max(1.0, float(np.max(np.abs(a))), float(np.max(np.abs(b))))
    return bool(np.all(np.isfinite(a)) and np.all(np.isfinite(b)) and np.max(np.abs(a - b)) <= tol * scale)


def _err_kind(e):
    if isinstance(e, IndexError):
        return "IndexErr"
    if isinstance(e, ValueError):
        return "ValueErr"
    return type(e).__name__


def _call(fn, *a, **k):
    try:
        return ("Ok", fn(*a, **k))
    except Exception as e:  # noqa: BLE001
        return (_err_kind(e), None)


def _model_res(v):
    """parsed Coq `res` value -> (kind, payload)"""
    if isinstance(v, tuple) and v and v[0] == "Ok":
        return "Ok", (v[1] if len(v) == 2 else v[1:])
    return v, None


def cfl(x):
    return coq.coq_float(float(x))


def cvec(v):
    return coq.coq_list([cfl(x) for x in v])


def cmat(m):
    return coq.coq_list([cvec(r) for r in m])


def cnats(l):
    return coq.coq_list([str(int(x)) for x in l])


def cZs(l):
    return coq.coq_list([coq.coq_Z(int(x)) for x in l])


def gen_modes(rng, n, malformed_ok=True):
    """mode-list argument for an n-mode state: (kind, list)"""
    r = rng.random()
    if n >= 1 and r < 0.25:
        return "single", [rng.randrange(n)]
    if r < 0.35:
        return "full", list(range(n))
    if r < 0.65 or not malformed_ok:
        k = rng.randint(1, n)
        return "subset", sorted(rng.sample(range(n), k))
    if r < 0.78 and n >= 2:
        k = rng.randint(2, n)
        m = rng.sample(range(n), k)
        if m == sorted(m):
            m.reverse()
        return "unsorted", m
    if r < 0.86:
        m = sorted(rng.choice(range(n)) for _ in range(rng.randint(2, n + 1)))
        if len(set(m)) == len(m):
            m[-1] = m[0]
            m.sort()
        return "dup", m
    if r < 0.93:
        k = rng.randint(1, n)
        m = sorted(rng.sample(range(n), k))
        m[-1] = n + rng.randrange(0, 3)
        return "range", m
    return "long", sorted(list(range(n)) + [rng.randrange(n)])


# ======================================================================================
# correspondence 1: BaseGaussianState index / arithmetic methods  (floats)

def _gauss_cases(ctx, count):
    rng = ctx.rng
    cases = []
    for _ in range(count):
        n = rng.choice([1, 2, 2, 3, 3, 4, 5]) if rng.random() < 0.93 else rng.choice([9, 11])
        mu = [round(rng.uniform(-2, 2), 3) for _ in range(2 * n)]
        a = np.array([[round(rng.uniform(-1, 1), 3) for _ in range(2 * n)] for _ in range(2 * n)])
        cov = (a @ a.T + np.eye(2 * n) * 0.5)
        if rng.random() < 0.3:  # not symmetric: the model must still pick the entries the code picks
            cov = cov + np.triu(a, 1) * 0.25
        meth = rng.choice(["reduced_gaussian", "reduced_gaussian", "displacement", "mean_photon", "quad_expectation", "parity"])
        if meth in ("mean_photon", "quad_expectation"):
            kind, modes = "single", [rng.randrange(n + (1 if rng.random() < 0.1 else 0))]
            if modes[0] >= n:
                kind = "range"
        elif meth == "displacement":
            kind, modes = gen_modes(rng, n)
            if rng.random() < 0.4 and n >= 2:
                modes = rng.sample(range(n), rng.randint(1, n))
                kind = "anyorder"
        else:
            kind, modes = gen_modes(rng, n)
        phi = rng.choice([0.0, math.pi / 2, 0.3, -1.1, 2.0, math.pi])
        cases.append({"n": n, "mu": mu, "cov": cov.tolist(), "method": meth, "kind": kind, "modes": modes, "phi": phi})
    return cases


def _gauss_state(c):
    n = c["n"]
    return BaseGaussianState((np.array(c["mu"], dtype=float), np.array(c["cov"], dtype=float)), n)


def _G(mu, cov):
    mu = np.asarray(mu, dtype=float)
    cov = np.asarray(cov, dtype=float)
    return float(np.exp(-0.5 * (mu @ (np.linalg.inv(cov) @ mu))) / np.sqrt(np.linalg.det(cov)))


def _gauss_impl(c):
    st = _gauss_state(c)
    m, modes = c["method"], c["modes"]
    if m == "reduced_gaussian":
        k, v = _call(st.reduced_gaussian, list(modes))
        return (k, None if v is None else (np.array(v[0]).tolist(), np.array(v[1]).tolist()))
    if m == "displacement":
        k, v = _call(st.displacement, list(modes))
        return (k, None if v is None else [[complex(z).real, complex(z).imag] for z in v])
    if m == "mean_photon":
        k, v = _call(st.mean_photon, modes[0])
        return (k, None if v is None else [float(v[0]), float(v[1])])
    if m == "quad_expectation":
        k, v = _call(st.quad_expectation, modes[0], c["phi"])
        return (k, None if v is None else [float(v[0]), float(v[1])])
    k, v = _call(st.parity_expectation, list(modes))
    return (k, None if v is None else float(v))


def _gauss_model_term(c):
    hb = float(sf.hbar)
    st = _gauss_state(c)
    mu, cov, n = cvec(st.means()), cmat(st.cov()), c["n"]
    m, modes = c["method"], cnats(c["modes"])
    if m == "reduced_gaussian":
        return "f_reduced_gaussian %s %s %d %s" % (mu, cov, n, modes)
    if m == "displacement":
        return "f_displacement %s %d %s %s" % (mu, n, cfl(1 / np.sqrt(2 * hb)), modes)
    if m == "mean_photon":
        return "f_mean_photon %s %s %d %s %d" % (mu, cov, n, cfl(hb), c["modes"][0])
    if m == "quad_expectation":
        return "f_quad_expectation %s %s %d %s %s %d" % (mu, cov, n, cfl(np.cos(c["phi"])), cfl(np.sin(c["phi"])), c["modes"][0])
    ms = sorted(c["modes"])
    g = 0.0
    if len(set(ms)) == len(ms) and all(x < n for x in ms):
        idx = ms + [x + n for x in ms]
        g = _G(np.asarray(st.means())[idx], np.asarray(st.cov())[np.ix_(idx, idx)])
    return "f_parity %s %s %d %s %s %s" % (mu, cov, n, cfl(g), cfl(hb / 2), modes)


def _flat(x):
    out = []

    def rec(y):
        if isinstance(y, (list, tuple)):
            for z in y:
                rec(z)
        else:
            out.append(y)
    rec(x)
    return out


def _shape(x):
    if isinstance(x, (list, tuple)):
        return [len(x)] + (_shape(x[0]) if len(x) and isinstance(x[0], (list, tuple)) else [])
    return []


def corr_gauss(ctx):
    cases = _gauss_cases(ctx, ctx.budget(250, 2500))
    impl = [_gauss_impl(c) for c in cases]
    model = []
    for si in range(0, len(cases), 250):
        sh = cases[si:si + 250]
        lines = ["From Coq Require Import List ZArith PrimFloat.", "Import ListNotations.", "From SFV Require Import C16.Model C16.Exec.", "Open Scope nat_scope."]
        for c in sh:
            lines.append("Eval vm_compute in (%s)." % _gauss_model_term(c))
        ok, vals, raw = ctx.coq_eval("cases_gauss_%d" % (si // 250), "\n".join(lines))
        if not ok or len(vals) != len(sh):
            ctx.obligation("correspondence:gauss:shard%d" % (si // 250), False, raw[-2000:])
            return
        model.extend(vals)
    ctx.traces += len(cases)
    for c, (ik, iv), mv in zip(cases, impl, model):
        mk, mp = _model_res(mv)
        nontrivial = c["n"] >= 2 and c["kind"] in ("single", "subset", "unsorted", "anyorder") and c["modes"] != list(range(len(c["modes"])))
        ctx.case({"rep": "gaussian", "method": c["method"], "n": c["n"], "modes": c["modes"], "kind": c["kind"], "impl": ik},
                 nontrivial=nontrivial, bucket="corr-gauss:%s:%s" % (c["method"], c["kind"]))
        agree = (ik == mk)
        if agree and ik == "Ok":
            agree = _shape(iv) == _shape(mp) and _close(_flat(iv), _flat(mp), 1e-9)
        if not agree:
            _gauss_disagreement(ctx, c, (ik, iv), (mk, mp))


def _gauss_predicate(c):
    """Property predicate for one BaseGaussianState call: answer == answer of the independently
    computed reduced state of exactly the requested modes in the requested order.
    Returns None if fine / not decidable, else text."""
    st = _gauss_state(c)
    n, modes = c["n"], c["modes"]
    mu, cov = st.means(), st.cov()
    if any(m >= n for m in modes) or len(set(modes)) != len(modes):
        return None
    idx = list(modes) + [m + n for m in modes]
    rmu, rcov = mu[idx], cov[np.ix_(idx, idx)]
    hb = float(sf.hbar)
    try:
        if c["method"] == "reduced_gaussian":
            if modes != sorted(modes):
                return None
            g = st.reduced_gaussian(list(modes))
            if not (_close(g[0], rmu) and _close(g[1], rcov)):
                return "reduced_gaussian(%s) is not the sub-vector/sub-matrix of the requested modes" % modes
        elif c["method"] == "displacement":
            want = (mu[list(modes)] + 1j * mu[[m + n for m in modes]]) / np.sqrt(2 * hb)
            if not _close(st.displacement(list(modes)), want):
                return "displacement(%s) is not (x_m + i p_m)/sqrt(2 hbar) of the requested modes" % modes
        elif c["method"] == "mean_photon":
            want = (np.trace(rcov) + rmu @ rmu) / (2 * hb) - 0.5
            got = st.mean_photon(modes[0])
            want_var = (np.trace(rcov @ rcov) + 2 * rmu @ rcov @ rmu) / (2 * hb ** 2) - 0.25
            if not (_close(got[0], want) and _close(got[1], want_var)):
                return "mean_photon(%d) differs from the value computed from that mode's means/covariance" % modes[0]
        elif c["method"] == "quad_expectation":
            cc, ss = np.cos(c["phi"]), np.sin(c["phi"])
            want = cc * rmu[0] + ss * rmu[1]
            wv = cc * cc * rcov[0, 0] + cc * ss * (rcov[0, 1] + rcov[1, 0]) + ss * ss * rcov[1, 1]
            got = st.quad_expectation(modes[0], c["phi"])
            if not (_close(got[0], want) and _close(got[1], wv)):
                return "quad_expectation(%d, %s) differs from the rotated first/second moments of that mode" % (modes[0], c["phi"])
        elif c["method"] == "parity":
            want = (hb / 2) ** len(modes) * _G(rmu, rcov)
            got = st.parity_expectation(list(modes))
            if not _close(got, want, 1e-8):
                return "parity_expectation(%s) = %.9g but the parity of the reduced state of those modes is %.9g" % (modes, got, want)
    except Exception as e:  # noqa: BLE001
        return "raised %s: %s" % (type(e).__name__, e)
    return None


def _gauss_disagreement(ctx, c, impl, model):
    data = {"check": "gauss-call", "case": c, "impl": list(impl), "model": [model[0], model[1]]}
    bad = _gauss_predicate(c)
    sig = "gauss.%s:%s" % (c["method"], c["kind"])
    if bad:
        ctx.counterexample(sig, "BaseGaussianState." + bad, data)
    else:
        ctx.disagreement("corr:" + sig, "model %s vs implementation %s for BaseGaussianState.%s(%s) on %d modes" % (
            str(model)[:200], str(impl)[:200], c["method"], c["modes"], c["n"]), data)


# ======================================================================================
# correspondence 2: BaseFockState on exact integer tensors (mixed representation)

def _fock_cases(ctx, count):
    rng = ctx.rng
    cases = []
    for _ in range(count):
        D, N = rng.choice([(2, 1), (3, 1), (2, 2), (3, 2), (2, 3), (3, 3), (2, 4)])
        size = D ** (2 * N)
        re = [rng.randint(-3, 3) for _ in range(size)]
        im = [rng.randint(-3, 3) for _ in range(size)]
        meth = rng.choice(["all_fock_probs", "fock_prob", "trace", "reduced_dm", "reduced_dm", "mean_photon", "diag", "diag", "labels"])
        c = {"D": D, "N": N, "re": re, "im": im, "method": meth, "kind": "-"}
        if meth == "fock_prob":
            r = rng.random()
            nn = [rng.randrange(D) for _ in range(N)]
            if r < 0.15:
                nn.append(0); c["kind"] = "long"
            elif r < 0.3:
                nn[rng.randrange(N)] = D + rng.randrange(2); c["kind"] = "range"
            c["n_idx"] = nn
        elif meth in ("reduced_dm", "labels"):
            c["kind"], c["modes"] = gen_modes(rng, N)
        elif meth == "mean_photon":
            c["modes"] = [rng.randrange(N)]; c["kind"] = "single"
        elif meth == "diag":
            r = rng.random()
            k = rng.randint(1, N)
            m = rng.sample(range(N), k)
            c["kind"] = "subset" if m == sorted(m) else "unsorted"
            if r < 0.12:
                m = m + [m[0]]; c["kind"] = "dup"
            c["modes"] = m
            c["values"] = [rng.randint(-2, 3) for _ in range(D)]
        cases.append(c)
    return cases


def _fock_state(c):
    D, N = c["D"], c["N"]
    arr = (np.array(c["re"], dtype=float) + 1j * np.array(c["im"], dtype=float)).reshape([D] * (2 * N))
    return BaseFockState(arr, N, False, D)


class _EinsumSpy:
    """records the subscripts strings handed to np.einsum by states.py"""

    def __enter__(self):
        self.seen = []
        self.orig = np.einsum

        def spy(*a, **k):
            if a and isinstance(a[0], str):
                self.seen.append(a[0])
            return self.orig(*a, **k)
        sfstates.np.einsum = spy
        return self

    def __exit__(self, *a):
        sfstates.np.einsum = self.orig


def _ints(x):
    a = np.asarray(x)
    return [int(v) for v in np.rint(a.real).reshape(-1)], [int(v) for v in np.rint(np.asarray(a, dtype=complex).imag).reshape(-1)], float(np.max(np.abs(a - np.rint(a.real) - 1j * np.rint(np.asarray(a, dtype=complex).imag)))) if a.size else 0.0


def _fock_impl(c):
    st = _fock_state(c)
    m = c["method"]
    if m == "all_fock_probs":
        k, v = _call(st.all_fock_probs)
    elif m == "fock_prob":
        k, v = _call(st.fock_prob, list(c["n_idx"]))
    elif m == "trace":
        k, v = _call(st.trace)
    elif m == "reduced_dm":
        k, v = _call(st.reduced_dm, list(c["modes"]))
    elif m == "labels":
        with _EinsumSpy() as spy:
            k, v = _call(st.reduced_dm, list(c["modes"]))
        return (k, spy.seen[-1] if spy.seen else None)
    elif m == "mean_photon":
        k, v = _call(st.mean_photon, c["modes"][0])
        v = None if v is None else v[0]
    else:
        k, v = _call(st.diagonal_expectation, list(c["modes"]), np.array(c["values"]))
    if v is None:
        return (k, None)
    re, im, dev = _ints(v)
    if dev > 1e-7:
        return ("NonInteger", None)
    return (k, (re, im))


def _fock_model_terms(c):
    """list of Coq terms (real part, imaginary part)"""
    D, N = c["D"], c["N"]
    m = c["method"]
    out = []
    for part in ("re", "im"):
        data = cZs(c[part])
        if m == "all_fock_probs":
            out.append("z_all_fock_probs %d %d %s" % (D, N, data))
        elif m == "fock_prob":
            out.append("z_fock_prob %d %d %s %s" % (D, N, data, cnats(c["n_idx"])))
        elif m == "trace":
            out.append("z_trace %d %d %s" % (D, N, data))
        elif m == "reduced_dm":
            out.append("z_reduced_dm %d %d %s %s" % (D, N, data, cnats(c["modes"])))
        elif m == "labels":
            out.append("(red_labels %d %s, list_eqb %s (seq 0 %d), negb (sorted_le %s), Nat.ltb %d (length %s), @labels_cover (length %s) (red_labels %d %s))" % (
                N, cnats(c["modes"]), cnats(c["modes"]), N, cnats(c["modes"]), N, cnats(c["modes"]), cnats(c["modes"]), N, cnats(c["modes"])))
            break
        elif m == "mean_photon":
            out.append("z_mean_photon %d %d %s %d" % (D, N, data, c["modes"][0]))
        else:
            out.append("(z_diag_exp %d %d %s %s %s, z_diag_spec %d %d %s %s %s)" % (
                D, N, data, cnats(c["modes"]), cZs(c["values"]), D, N, data, cnats(c["modes"]), cZs(c["values"])))
    return out


REAL_ONLY = {"all_fock_probs", "fock_prob", "trace", "mean_photon", "diag"}


def _labels_string(pairs, k):
    return "".join(ALPHA[a] + ALPHA[b] for a, b in pairs) + "->" + ALPHA[:2 * k]


def corr_fock(ctx):
    cases = _fock_cases(ctx, ctx.budget(220, 2200))
    impl = [_fock_impl(c) for c in cases]
    model = []
    SH = 110
    for si in range(0, len(cases), SH):
        sh = cases[si:si + SH]
        lines = ["From Coq Require Import List ZArith Arith.", "Import ListNotations.", "From SFV Require Import C16.Model C16.Exec.", "Open Scope nat_scope."]
        counts = []
        for c in sh:
            ts = _fock_model_terms(c)
            counts.append(len(ts))
            for t in ts:
                lines.append("Eval vm_compute in (%s)." % t)
        ok, vals, raw = ctx.coq_eval("cases_fock_%d" % (si // SH), "\n".join(lines))
        if not ok or len(vals) != sum(counts):
            ctx.obligation("correspondence:fock:shard%d" % (si // SH), False, raw[-2000:])
            return
        it = iter(vals)
        for cnt in counts:
            model.append([next(it) for _ in range(cnt)])
    ctx.traces += len(cases)
    for c, (ik, iv), mv in zip(cases, impl, model):
        modes = c.get("modes")
        nontrivial = c["N"] >= 2 and modes is not None and c["kind"] in ("single", "subset", "unsorted") and modes != list(range(len(modes)))
        ctx.case({"rep": "fock", "method": c["method"], "D": c["D"], "N": c["N"], "modes": modes, "kind": c["kind"], "impl": ik},
                 nontrivial=nontrivial, bucket="corr-fock:%s:%s" % (c["method"], c["kind"]))
        m = c["method"]
        agree, spec_bad = True, None
        if m == "labels":
            pairs, full, unsorted_, toolong, cover = mv[0]
            if full:
                mk, want = "Ok", None          # shortcut: no einsum for reduced_dm
            elif unsorted_ or toolong or not cover:
                mk, want = "ValueErr", None
            else:
                mk, want = "Ok", _labels_string(pairs, len(modes))
            agree = (ik == mk) and (want is None or iv == want)
        elif m == "diag":
            (mk, mp), spec = _model_res(mv[0][0]), mv[0][1]
            agree = (ik == mk) and (ik != "Ok" or iv[0] == [mp])
            if ik == "Ok" and iv[0] != [spec]:
                spec_bad = "diagonal_expectation(%s, values) = %s but sum_n prod_m values[n_m] p(n) = %s" % (modes, iv[0], spec)
        else:
            mk, mre = ("Ok", mv[0]) if m in ("all_fock_probs", "trace") else _model_res(mv[0])
            agree = (ik == mk)
            if agree and ik == "Ok":
                mre_l = mre if isinstance(mre, list) else [mre]
                agree = iv[0] == mre_l
                if m in REAL_ONLY:
                    pass
                else:
                    _, mim = _model_res(mv[1])
                    agree = agree and iv[1] == (mim if isinstance(mim, list) else [mim])
        data = {"check": "fock-call", "case": c, "impl": [ik, iv], "model": str(mv)[:1500]}
        sig = "fock.%s:%s" % (m, c["kind"])
        if spec_bad:
            ctx.counterexample(sig, "BaseFockState." + spec_bad, data)
        elif not agree:
            bad = _fock_predicate(c)
            if bad:
                ctx.counterexample(sig, "BaseFockState." + bad, data)
            else:
                ctx.disagreement("corr:" + sig, "model %s vs implementation %s for BaseFockState.%s on D=%d N=%d modes=%s" % (
                    str(mv)[:200], str((ik, iv))[:200], m, c["D"], c["N"], modes), data)


def _ref_reduce(rho, N, modes):
    """independent partial trace: keep `modes` (ascending), SF axis convention"""
    keep = sorted(modes)
    cur = rho
    for m in sorted(set(range(N)) - set(keep), reverse=True):
        cur = np.trace(cur, axis1=2 * m, axis2=2 * m + 1)
    return cur


def _ref_probs(rho, N):
    D = rho.shape[0]
    out = np.zeros([D] * N)
    for nn in itertools.product(range(D), repeat=N):
        out[nn] = rho[tuple(x for v in nn for x in (v, v))].real
    return out


def _fock_predicate(c, st=None):
    """property predicate for one BaseFockState call on a mixed-representation state; None if fine"""
    st = st or _fock_state(c)
    rho, N, D = st.dm(), c["N"], c["D"]
    m = c["method"]
    probs = _ref_probs(rho, N)
    try:
        if m == "all_fock_probs":
            if not _close(st.all_fock_probs(), probs):
                return "all_fock_probs()[n] is not the diagonal element dm[n0,n0,n1,n1,..]"
        elif m == "fock_prob":
            nn = c["n_idx"]
            if len(nn) == N and max(nn) < D and not _close(st.fock_prob(list(nn)), probs[tuple(nn)]):
                return "fock_prob(%s) differs from all_fock_probs()[%s]" % (nn, nn)
        elif m == "trace":
            if not _close(st.trace(), probs.sum()):
                return "trace() differs from the sum of all_fock_probs()"
        elif m in ("reduced_dm", "labels"):
            modes = c["modes"]
            if modes == sorted(set(modes)) and all(x < N for x in modes):
                if not _close(st.reduced_dm(list(modes)), _ref_reduce(rho, N, modes)):
                    return "reduced_dm(%s) is not the partial trace over the other modes" % modes
        elif m == "mean_photon":
            k = c["modes"][0]
            want = sum(nn[k] * probs[nn] for nn in itertools.product(range(D), repeat=N))
            if not _close(st.mean_photon(k)[0], want):
                return "mean_photon(%d) differs from sum_n n_k p(n)" % k
    except Exception as e:  # noqa: BLE001
        return "raised %s: %s" % (type(e).__name__, e)
    return None


# ======================================================================================
# correspondence 3: FockBackend.state(modes) axis permutation, bosonic index selection

class _TransposeSpy:
    def __enter__(self):
        from strawberryfields.backends.fockbackend import backend as fb
        self.fb = fb
        self.seen = []
        self.orig = np.transpose

        def spy(a, axes=None):
            self.seen.append(None if axes is None else [int(x) for x in axes])
            return self.orig(a, axes)
        fb.np.transpose = spy
        return self

    def __exit__(self, *a):
        self.fb.np.transpose = self.orig


def corr_axes(ctx):
    rng = ctx.rng
    from strawberryfields.backends.fockbackend.backend import FockBackend
    cases = []
    for _ in range(ctx.budget(40, 300)):
        N = rng.randint(1, 4)
        k = rng.randint(1, N)
        modes = rng.sample(range(N), k)
        cases.append({"N": N, "modes": modes})
    be = {}
    impl = []
    for c in cases:
        N = c["N"]
        if N not in be:
            b = FockBackend()
            b.begin_circuit(N, cutoff_dim=2, pure=True)
            be[N] = b
        with _TransposeSpy() as spy:
            be[N].state(modes=list(c["modes"]))
        impl.append(spy.seen[-1] if spy.seen else list(range(2 * len(c["modes"]))))
    lines = ["From Coq Require Import List Arith.", "Import ListNotations.", "From SFV Require Import C16.Model.", "Open Scope nat_scope.",
             "Eval vm_compute in (map (fun m => (state_axes m, bos_ind m)) %s)." % coq.coq_list([cnats(c["modes"]) for c in cases])]
    ok, vals, raw = ctx.coq_eval("cases_axes", "\n".join(lines))
    if not ok:
        ctx.obligation("correspondence:axes", False, raw[-2000:])
        return
    ctx.traces += len(cases)
    for c, ia, (ma, mb) in zip(cases, impl, vals[0]):
        modes = c["modes"]
        ctx.case({"rep": "fock-backend", "method": "state", "N": c["N"], "modes": modes}, nontrivial=modes != sorted(modes), bucket="corr-axes:" + ("sorted" if modes == sorted(modes) else "unsorted"))
        ib = [int(x) for x in np.sort(np.concatenate([2 * np.array(modes), 2 * np.array(modes) + 1]))]
        if ia != ma:
            ctx.disagreement("corr:fockbackend.state:axes", "FockBackend.state(modes=%s) transposes with axes %s, model says %s" % (modes, ia, ma),
                             {"check": "axes", "case": c, "impl": ia, "model": ma})
        if ib != mb:
            ctx.disagreement("corr:bosonic:ind", "np.sort index selection %s vs model %s" % (ib, mb), {"check": "axes", "case": c})


# ======================================================================================
# correspondence 4: utils/post_processing on integer samples (exact)

def _pp_cases(ctx, count):
    rng = ctx.rng
    out = []
    for _ in range(count):
        nm = rng.randint(1, 4)
        shots = rng.randint(1, 9)
        samples = [[rng.randint(0, 3) for _ in range(nm)] for _ in range(shots)]
        r = rng.random()
        if r < 0.15:
            modes, kind = None, "none"
        elif r < 0.6:
            modes, kind = rng.sample(range(nm), rng.randint(1, nm)), "subset"
        elif r < 0.75:
            modes = [rng.randrange(nm) for _ in range(rng.randint(2, 3))]; kind = "repeat"
        elif r < 0.83:
            modes, kind = [], "empty"
        elif r < 0.92:
            modes, kind = [rng.randrange(nm), nm + rng.randrange(2)], "range"
        else:
            modes, kind = [-1 - rng.randrange(2)], "negative"
        out.append({"samples": samples, "modes": modes, "kind": kind})
    return out


def corr_pp(ctx):
    cases = _pp_cases(ctx, ctx.budget(120, 1200))
    lines = ["From Coq Require Import List ZArith Arith.", "Import ListNotations.", "From SFV Require Import C16.Model.", "Open Scope nat_scope."]
    impl = []
    for c in cases:
        s = np.array(c["samples"])
        shots, nm = s.shape
        ke, e = _call(pp.samples_expectation, s, c["modes"])
        kv, v = _call(pp.samples_variance, s, c["modes"])
        kp, p = _call(pp.all_fock_probs_pnr, s)
        impl.append((ke, e, kv, v, kp, p))
        valid = c["modes"] is None or (len(c["modes"]) > 0 and all(0 <= m < nm for m in c["modes"]))
        c["valid"] = valid
        modes = list(range(nm)) if c["modes"] is None else [m for m in c["modes"] if m >= 0]
        smp = coq.coq_list([cZs(r) for r in c["samples"]])
        lines.append("Eval vm_compute in (samples_sum %s %s, samples_sumsq %s %s, map (pnr_count %s) %s)." % (
            smp, cnats(modes), smp, cnats(modes), smp,
            coq.coq_list([cZs(nn) for nn in itertools.product(range(int(s.max()) + 1), repeat=nm)])))
    ok, vals, raw = ctx.coq_eval("cases_pp", "\n".join(lines))
    if not ok or len(vals) != len(cases):
        ctx.obligation("correspondence:post_processing", False, raw[-2000:])
        return
    ctx.traces += len(cases)
    for c, (ke, e, kv, v, kp, p), (ms, msq, mcnt) in zip(cases, impl, vals):
        shots = len(c["samples"])
        ctx.case({"rep": "samples", "method": "post_processing", "modes": c["modes"], "kind": c["kind"], "shots": shots},
                 nontrivial=c["kind"] in ("subset", "repeat") and c["modes"] != list(range(len(c["modes"]))), bucket="corr-pp:" + c["kind"])
        data = {"check": "pp", "case": c}
        if not c["valid"]:
            if ke != "ValueErr" or kv != "ValueErr":
                ctx.counterexample("pp:invalid-modes-accepted:" + c["kind"], "samples_expectation/variance accepted modes=%s for %d modes (%s/%s)" % (c["modes"], len(c["samples"][0]), ke, kv), data)
            continue
        bad = []
        if ke != "Ok" or abs(e * shots - ms) > 1e-9 * max(1, abs(ms)):
            bad.append("samples_expectation=%s, exact %s/%d" % (e, ms, shots))
        if kv != "Ok" or abs(v * shots * shots - (shots * msq - ms * ms)) > 1e-8 * max(1, abs(shots * msq)):
            bad.append("samples_variance=%s, exact (%d*%s-%s^2)/%d^2" % (v, shots, msq, ms, shots))
        if kp != "Ok" or [int(round(x * shots)) for x in np.asarray(p).reshape(-1)] != list(mcnt) or not _close(np.asarray(p).reshape(-1) * shots, mcnt):
            bad.append("all_fock_probs_pnr differs from the exact outcome counts")
        if bad:
            ctx.counterexample("pp:" + c["kind"], "post_processing: " + "; ".join(bad), data)


# ======================================================================================
# SEARCH: the property's own predicate on the implementation.
#
# Family 1: Gaussian circuits run on the gaussian, bosonic and fock backends; every observable of
#           every representation is compared with an independent reference computed from the
#           (means, cov) of the Gaussian state (cross-method + cross-representation at once).
# Family 2: photon-number-bounded states on the fock backend (exact in the truncated space):
#           every BaseFockState method against references computed from dm(), for the pure
#           representation, its mixed twin and lossy mixed states; backend.state(modes) for all
#           orders.
# Family 3: simulator-level helpers that take `modes` (circuit.fidelity_vacuum / fidelity_coherent)
#           against the state object of exactly those modes.

FOCK_CUTOFF = {1: 14, 2: 10, 3: 7}
HBARS = [2.0, 1.0, 0.5, 1.7, 3.0]


class _Hbar:
    def __init__(self, h):
        self.h = h

    def __enter__(self):
        self.old = sf.hbar
        sf.hbar = self.h

    def __exit__(self, *a):
        sf.hbar = self.old




def gen_gauss_spec(rng, n, lossy):
    cmds = []
    product = rng.random() < 0.2          # some states stay products of single-mode states
    for i in range(n):
        if rng.random() < 0.85:
            # structured angles (0, pi, +-pi/2) next to random ones: exactly vanishing covariance entries
            ph = rng.choice([0.0, math.pi, math.pi / 2, -math.pi / 2]) if rng.random() < 0.3 else round(rng.uniform(-3, 3), 2)
            cmds.append(["Sgate", [round(rng.uniform(0.05, 0.25), 3), ph], [i], False])
        if rng.random() < 0.85:
            cmds.append(["Dgate", [round(rng.uniform(0.05, 0.35), 3), round(rng.uniform(-3, 3), 2)], [i], False])
    if n >= 2 and not product:
        # two-mode gates on pairs in either order (descending targets included)
        pairs = [rng.sample(range(n), 2) for _ in range(rng.randint(1, n))]
        if rng.random() < 0.4:
            a, b = rng.sample(range(n), 2)
            cmds.append(["S2gate", [round(rng.uniform(0.1, 0.22), 3), round(rng.uniform(-3, 3), 2)], [a, b], False])
        for a, b in pairs:
            cmds.append(["BSgate", [round(rng.uniform(0.3, 1.3), 3), round(rng.uniform(-2, 2), 2)], [a, b], False])
    for i in range(n):
        if rng.random() < 0.4:
            cmds.append(["Rgate", [round(rng.uniform(-3, 3), 2)], [i], False])
    if lossy:
        for i in rng.sample(range(n), rng.randint(1, n)):
            cmds.append(["LossChannel", [round(rng.uniform(0.55, 0.95), 2)], [i], False])
    return {"n": n, "cmds": cmds}


def run_spec(spec, backend, cutoff=None):
    prog = sfgen.build_program(spec)
    opts = {"cutoff_dim": cutoff} if backend == "fock" else {}
    eng = sf.Engine(backend, backend_options=opts)
    res = eng.run(prog)
    return eng, res.state


def gen_queries(rng, n, cutoff, with_fock):
    """a list of method calls to evaluate on every representation"""
    qs = []
    subsets = [list(c) for r in range(1, n + 1) for c in itertools.combinations(range(n), r)]
    for k in range(n):
        qs.append({"m": "mean_photon", "mode": k})
        qs.append({"m": "quad_expectation", "mode": k, "phi": rng.choice([0.0, math.pi / 2, 0.7, -1.3, 2.4])})
        qs.append({"m": "squeezing_flags", "mode": k})
        qs.append({"m": "squeezing_truth", "mode": k})
    qs.append({"m": "squeezing", "modes": rng.sample(range(n), rng.randint(1, n))})
    for sub in rng.sample(subsets, min(len(subsets), 4)):
        qs.append({"m": "parity_expectation", "modes": sub})
        qs.append({"m": "reduced_dm", "modes": sub})
        qs.append({"m": "displacement", "modes": sub})
        qs.append({"m": "reduced_state", "modes": sub})
        if len(sub) <= 2:
            qs.append({"m": "number_expectation", "modes": sub})
    if n >= 2:
        sub = rng.sample(range(n), rng.randint(2, n))
        if sub == sorted(sub):
            sub.reverse()
        qs.append({"m": "parity_expectation", "modes": sub})
        qs.append({"m": "displacement", "modes": sub})
        qs.append({"m": "number_expectation", "modes": sub[:2]})
        qs.append({"m": "backend_state", "modes": sub})
        qs.append({"m": "backend_state", "modes": sorted(sub)[:-1] if len(sub) > 1 else sub})
        qs.append({"m": "backend_state", "modes": [rng.randrange(1, n)]})
        qs.append({"m": "backend_state", "modes": [rng.randrange(n)], "as_int": True})
        qs.append({"m": "reduced_dm", "modes": [rng.randrange(n)], "as_int": True})
        if n >= 3:
            qs.append({"m": "backend_state", "modes": sorted(rng.sample(range(1, n), 2))})
    qs.append({"m": "fidelity_vacuum"})
    qs.append({"m": "state_eq", "perturb": rng.choice([["Dgate", [0.05, 0.4]], ["Sgate", [0.05, 0.3]], ["Rgate", [0.2]], None]), "mode": rng.randrange(n)})
    qs.append({"m": "fidelity_coherent", "alpha": [[round(rng.uniform(-0.4, 0.4), 2), round(rng.uniform(-0.4, 0.4), 2)] for _ in range(n)]})
    for _ in range(3):
        nn = [rng.choice([0, 0, 1, 1, 2, 3]) for _ in range(n)]
        if sum(nn) < cutoff - 1:
            qs.append({"m": "fock_prob", "n": nn})
    qs.append({"m": "all_fock_probs"})
    qs.append({"m": "dm"})
    qs.append({"m": "purity"})
    k = rng.randrange(n)
    qs.append({"m": "wigner", "mode": k, "x": [round(-2.5 + 1.25 * i, 3) for i in range(5)], "p": [round(-1.8 + 1.2 * i, 3) for i in range(4)]})
    qs.append({"m": rng.choice(["x_quad_values", "p_quad_values"]), "mode": rng.randrange(n)})
    qs.append({"m": "fidelity", "mode": rng.randrange(n), "alpha": [round(rng.uniform(-0.4, 0.4), 2), round(rng.uniform(-0.4, 0.4), 2)]})
    # second-order polynomial: random symmetric A touching a subset of modes, linear d
    A = np.zeros((2 * n, 2 * n))
    d = np.zeros(2 * n)
    touched = rng.sample(range(n), rng.randint(1, min(n, 2)))
    for _ in range(rng.randint(1, 3)):
        a = rng.choice(touched) + n * rng.randrange(2)
        b = rng.choice(touched) + n * rng.randrange(2)
        v = round(rng.uniform(-1, 1), 2)
        A[a, b] += v
        A[b, a] += v
    for _ in range(rng.randint(0, 2)):
        d[rng.choice(touched) + n * rng.randrange(2)] = round(rng.uniform(-1, 1), 2)
    qs.append({"m": "poly_quad_expectation", "A": A.tolist(), "d": d.tolist(), "k": rng.choice([0, 0.5]), "phi": rng.choice([0.0, 0.0, 0.6])})
    return qs


QUAD_GRID = np.linspace(-7, 7, 141)
REF_EXTRA_TOL = {}


def _coh_ket(alpha, dim):
    from scipy.special import factorial
    nn = np.arange(dim)
    return np.exp(-0.5 * abs(alpha) ** 2) * alpha ** nn / np.sqrt(factorial(nn))


def _gauss_overlap(mu, V, mu2, hb):
    """<alpha|rho|alpha> for Gaussian rho=(mu,V) and a product coherent state with means mu2"""
    nn = len(mu) // 2
    S = V + np.eye(2 * nn) * hb / 2
    dlt = mu - mu2
    return float(hb ** nn * np.exp(-0.5 * dlt @ np.linalg.solve(S, dlt)) / np.sqrt(np.linalg.det(S)))


def ref_from_gauss(mu, cov, n, q, cutoff):
    """independent reference value of query q for the Gaussian state (mu, cov), hbar = sf.hbar"""
    import thewalrus.quantum as twq
    hb = float(sf.hbar)
    m = q["m"]

    def red(modes):
        idx = list(modes) + [x + n for x in modes]
        return mu[idx], cov[np.ix_(idx, idx)]
    if m == "mean_photon":
        rm, rc = red([q["mode"]])
        return [(np.trace(rc) + rm @ rm) / (2 * hb) - 0.5, (np.trace(rc @ rc) + 2 * rm @ rc @ rm) / (2 * hb ** 2) - 0.25]
    if m == "squeezing":
        # (r, sin phi) per mode from the documented formulas; the quadrant of phi is the subject of "squeezing_truth"
        out = []
        for k in q["modes"]:
            rm, rc = red([k])
            v = rc / (hb / 2)
            tr = np.trace(v)
            # after fix dc8c3db the angle is the orientation of the noise ellipse: phi = arctan2(-2 V_xp, V_pp - V_xx) (for a pure
            # mode this equals the former arcsin formula on |phi| <= pi/2; for a mixed reduced mode the arcsin formula was off)
            ph = 0.0 if np.allclose(v, np.eye(2), atol=1e-12, rtol=0) else float(np.arctan2(-2 * v[0, 1], v[1, 1] - v[0, 0]))
            out.append([np.arccosh(max(tr / 2, 1.0)) / 2, float(np.sin(ph))])
        return np.array(out)
    if m == "squeezing_truth":
        rm, rc = red([q["mode"]])
        return rc
    if m == "squeezing_flags":
        rm, rc = red([q["mode"]])
        v = rc / (hb / 2)
        return np.array([float(np.allclose(v, np.eye(2), atol=1e-10, rtol=0)), float(np.any(np.abs(v - np.eye(2)) > 1e-6))])
    if m == "quad_expectation":
        rm, rc = red([q["mode"]])
        c, s = np.cos(q["phi"]), np.sin(q["phi"])
        return [c * rm[0] + s * rm[1], c * c * rc[0, 0] + c * s * (rc[0, 1] + rc[1, 0]) + s * s * rc[1, 1]]
    if m == "displacement":
        ms = q["modes"]
        return (mu[ms] + 1j * mu[[x + n for x in ms]]) / np.sqrt(2 * hb)
    if m == "parity_expectation":
        rm, rc = red(q["modes"])
        return (hb / 2) ** len(q["modes"]) * _G(rm, rc)
    if m == "number_expectation":
        rm, rc = red(q["modes"])
        k = len(q["modes"])
        if k == 1:   # closed form
            return [(np.trace(rc) + rm @ rm) / (2 * hb) - 0.5, (np.trace(rc @ rc) + 2 * rm @ rc @ rm) / (2 * hb ** 2) - 0.25]
        cut = 24
        pr = twq.probabilities(rm, rc, cut, hbar=hb)
        grids = np.meshgrid(*[np.arange(cut)] * k, indexing="ij")
        prod = np.prod(grids, axis=0)
        mean = float(np.sum(prod * pr))
        # the reference is a truncated sum: widen the tolerance by a bound on what the tail can contribute
        tail = max(0.0, 1.0 - float(np.sum(pr)))
        REF_EXTRA_TOL["number_expectation"] = 10 * tail * float(cut) ** (2 * k)
        return [mean, float(np.sum(prod ** 2 * pr)) - mean ** 2]
    if m == "fidelity_vacuum":
        return _gauss_overlap(mu, cov, np.zeros(2 * n), hb)
    if m == "fidelity_coherent":
        al = np.array([complex(a, b) for a, b in q["alpha"]])
        return _gauss_overlap(mu, cov, np.concatenate([al.real, al.imag]) * np.sqrt(2 * hb), hb)
    if m == "fidelity":
        rm, rc = red([q["mode"]])
        al = complex(*q["alpha"])
        return _gauss_overlap(rm, rc, np.array([al.real, al.imag]) * np.sqrt(2 * hb), hb)
    if m == "fock_prob":
        return float(twq.density_matrix_element(mu, cov, q["n"], q["n"], hbar=hb).real)
    if m == "all_fock_probs":
        return np.reshape(twq.probabilities(mu, cov, cutoff, hbar=hb), [cutoff] * n)
    if m == "dm":
        return twq.density_matrix(mu, cov, hbar=hb, normalize=False, cutoff=cutoff)
    if m == "reduced_dm":
        rm, rc = red(q["modes"])
        return twq.density_matrix(rm, rc, hbar=hb, normalize=False, cutoff=cutoff)
    if m == "purity":
        return float((hb / 2) ** n / np.sqrt(np.linalg.det(cov)))
    if m == "wigner":
        rm, rc = red([q["mode"]])
        X, P = np.meshgrid(q["x"], q["p"])
        dv = np.stack([X - rm[0], P - rm[1]], axis=-1)
        ex = np.einsum("...i,ij,...j", dv, np.linalg.inv(rc), dv)
        return np.exp(-0.5 * ex) / (2 * np.pi * np.sqrt(np.linalg.det(rc)))
    if m in ("x_quad_values", "p_quad_values"):
        rm, rc = red([q["mode"]])
        j = 0 if m[0] == "x" else 1
        return np.exp(-0.5 * (QUAD_GRID - rm[j]) ** 2 / rc[j, j]) / np.sqrt(2 * np.pi * rc[j, j])
    if m == "poly_quad_expectation":
        A, d, k, phi = np.array(q["A"]), np.array(q["d"]), q["k"], q["phi"]
        mu2, cov2 = mu, cov
        if phi != 0:
            c, s = np.cos(phi), np.sin(phi)
            R = np.block([[c * np.eye(n), s * np.eye(n)], [-s * np.eye(n), c * np.eye(n)]])   # r -> rot.T r
            mu2, cov2 = R @ mu, R @ cov @ R.T
        mean = float(np.trace(A @ cov2) + mu2 @ A @ mu2 + mu2 @ d + k)
        # variance: exact operator algebra on the Fock representation of the touched modes (independent of the
        # Gaussian class's closed formula and its ordering correction)
        touched = sorted(set(int(i) % n for i in np.nonzero(A)[0]) | set(int(i) % n for i in np.nonzero(d)[0]))
        if not touched or len(touched) > 2:
            return [mean]
        kk = len(touched)
        cut = {1: 16, 2: 11}[kk]
        rm, rc = red(touched)
        rho = twq.density_matrix(rm, rc, hbar=hb, normalize=False, cutoff=cut)
        rows = touched + [t + n for t in touched]
        q2 = {"m": "poly_quad_expectation", "A": A[np.ix_(rows, rows)].tolist(), "d": d[rows].tolist(), "k": k, "phi": phi}
        mv = ref_from_dm(rho, kk, cut, q2)
        tail = max(0.0, 1.0 - float(np.real(np.einsum(rho, [i // 2 for i in range(2 * kk)]))))
        REF_EXTRA_TOL["poly_quad_expectation"] = 1e-5 + 50 * tail * cut ** 4
        return [mean, float(mv[1])]
    return None


def call_query(st, rep, q, cutoff, eng=None):
    """evaluate query q on state object st of representation rep; returns value or raises"""
    m = q["m"]
    kw = {"cutoff": cutoff} if rep != "fock" else {}
    hb = float(sf.hbar)
    if m == "mean_photon":
        return [complex(x).real for x in st.mean_photon(q["mode"], **kw)]
    if m == "quad_expectation":
        return [complex(x).real for x in st.quad_expectation(q["mode"], q["phi"])]
    if m == "displacement":
        return np.asarray(st.displacement(list(q["modes"])))
    if m == "squeezing":
        return np.array([[x[0], np.sin(x[1])] for x in st.squeezing(list(q["modes"]))], dtype=float)
    if m == "squeezing_truth":
        # covariance of the single-mode squeezed state S(r e^{i phi}) with the returned parameters
        r, ph = [float(x) for x in st.squeezing([q["mode"]])[0]]
        c2, s2 = np.cosh(2 * r), np.sinh(2 * r)
        return (hb / 2) * np.array([[c2 - np.cos(ph) * s2, -np.sin(ph) * s2], [-np.sin(ph) * s2, c2 + np.cos(ph) * s2]])
    if m == "squeezing_flags":
        return np.array([float(st.is_coherent(q["mode"])), float(st.is_squeezed(q["mode"]))])
    if m == "parity_expectation":
        v = complex(st.parity_expectation(list(q["modes"])))
        return v
    if m == "number_expectation":
        return [float(x) for x in st.number_expectation(list(q["modes"]))]
    if m == "fidelity_vacuum":
        return complex(st.fidelity_vacuum(**kw))
    if m == "fidelity_coherent":
        return complex(st.fidelity_coherent(np.array([complex(a, b) for a, b in q["alpha"]]), **kw))
    if m == "fidelity":
        al = complex(*q["alpha"])
        if rep == "gaussian":
            other = [np.array([al.real, al.imag]) * np.sqrt(2 * hb), np.eye(2) * hb / 2]
            return complex(st.fidelity(other, q["mode"]))
        return complex(st.fidelity(_coh_ket(al, cutoff), q["mode"]))
    if m == "fock_prob":
        return complex(st.fock_prob(list(q["n"]), **kw))
    if m == "all_fock_probs":
        return np.asarray(st.all_fock_probs(**kw))
    if m == "dm":
        return np.asarray(st.dm(**kw))
    if m == "reduced_dm":
        return np.asarray(st.reduced_dm(q["modes"][0] if q.get("as_int") else list(q["modes"]), **kw))
    if m == "purity":
        if rep == "bosonic":
            return complex(st.purity())
        if rep == "gaussian":
            return 1.0 if st.is_pure else None
        return None
    if m == "wigner":
        return np.asarray(st.wigner(q["mode"], np.array(q["x"]), np.array(q["p"])))
    if m in ("x_quad_values", "p_quad_values"):
        return np.asarray(getattr(st, m)(q["mode"], QUAD_GRID, QUAD_GRID))
    if m == "poly_quad_expectation":
        mv = st.poly_quad_expectation(np.array(q["A"]), np.array(q["d"]), q["k"], q["phi"])
        return [float(mv[0]), float(mv[1])] if rep == "gaussian" else [float(mv[0])]
    raise KeyError(m)


APPLIES = {
    "gaussian": {"state_eq", "squeezing", "squeezing_flags", "squeezing_truth", "mean_photon", "quad_expectation", "displacement", "parity_expectation", "number_expectation", "fidelity_vacuum",
                 "fidelity_coherent", "fidelity", "fock_prob", "all_fock_probs", "dm", "reduced_dm", "purity", "wigner",
                 "x_quad_values", "p_quad_values", "poly_quad_expectation", "reduced_state", "backend_state"},
    "bosonic": {"state_eq", "mean_photon", "quad_expectation", "displacement", "parity_expectation", "fidelity_vacuum", "fidelity_coherent",
                "fock_prob", "dm", "reduced_dm", "purity", "wigner", "x_quad_values", "p_quad_values", "reduced_state", "backend_state"},
    "fock": {"state_eq", "mean_photon", "quad_expectation", "parity_expectation", "number_expectation", "fidelity_vacuum", "fidelity_coherent",
             "fidelity", "fock_prob", "all_fock_probs", "dm", "reduced_dm", "wigner", "x_quad_values", "p_quad_values",
             "poly_quad_expectation", "backend_state"},
}


def _tol(rep, m):
    if rep == "fock":
        # Fock truncation (cutoff 7-14) against exact phase-space values; measured deviations are 5-10x below these
        return {"poly_quad_expectation": 5e-3, "quad_expectation": 8e-3, "mean_photon": 2e-2, "number_expectation": 2e-2, "dm": 6e-3,
                "reduced_dm": 6e-3, "wigner": 3e-3, "x_quad_values": 6e-3, "p_quad_values": 6e-3}.get(m, 5e-4)
    if m in ("x_quad_values", "p_quad_values"):
        return 1e-5
    if m in ("number_expectation", "squeezing", "squeezing_truth"):
        return 1e-6          # arcsin / arccosh are ill-conditioned near |sin phi| = 1 and r = 0
    return 1e-8


def _xxpp_of_bosonic(st):
    """(mu, cov) in xxpp order of a one-weight bosonic state"""
    n = st.num_modes
    perm = [2 * i for i in range(n)] + [2 * i + 1 for i in range(n)]
    return np.real(st.means()[0][perm]), np.real(st.covs()[0][np.ix_(perm, perm)])


def eval_gauss_query(spec, rep, q, cutoff, cache=None, hbar=2.0):
    with _Hbar(hbar):
        return _eval_gauss_query(spec, rep, q, cutoff, cache)


def _eval_gauss_query(spec, rep, q, cutoff, cache=None):
    """Run spec on the gaussian backend (reference data) and on `rep`, evaluate query q.
    Returns (signature, text) if the property's predicate fails, else None."""
    cache = cache if cache is not None else {}
    if "gaussian" not in cache:
        cache["gaussian"] = run_spec(spec, "gaussian")
    if rep not in cache:
        cache[rep] = run_spec(spec, rep, cutoff)
    eng_g, sg = cache["gaussian"]
    eng, st = cache[rep]
    n = spec["n"]
    mu, cov = np.array(sg.means(), dtype=float), np.array(sg.cov(), dtype=float)
    m = q["m"]
    if m not in APPLIES[rep]:
        return None
    hb = float(sf.hbar)
    tol = _tol(rep, m)
    if rep == "fock" and m in ("wigner", "x_quad_values", "p_quad_values") and hb < 2:
        # the grid points are fixed numbers: at a smaller hbar they lie further out in units of sqrt(hbar), where the truncated
        # Fock expansion converges more slowly, and W itself scales with 1/hbar (false alarm of quick seed 51: cutoff 7, hbar = 1)
        tol = tol * (2.0 / hb) ** 2
    if m == "reduced_state":
        ms = q["modes"]
        idx = list(ms) + [x + n for x in ms]
        if rep == "gaussian":
            try:
                rm, rc = st.reduced_gaussian(list(ms))
            except Exception as e:  # noqa: BLE001
                return ("gauss.reduced_gaussian:raises:" + type(e).__name__, "reduced_gaussian(%s) raised %r" % (ms, e))
            if not (_close(rm, mu[idx]) and _close(rc, cov[np.ix_(idx, idx)])):
                return ("gauss.reduced_gaussian:wrong-entries", "reduced_gaussian(%s) is not the sub-vector / sub-matrix of those modes" % ms)
        else:
            try:
                w, rm, rc = st.reduced_bosonic(list(ms))
            except Exception as e:  # noqa: BLE001
                return ("bosonic.reduced_bosonic:raises:" + type(e).__name__, "reduced_bosonic(%s) raised %r" % (ms, e))
            k = len(ms)
            perm = [2 * i for i in range(k)] + [2 * i + 1 for i in range(k)]
            if not (_close(rm[0][perm], mu[idx]) and _close(rc[0][np.ix_(perm, perm)], cov[np.ix_(idx, idx)])):
                return ("bosonic.reduced_bosonic:wrong-entries", "reduced_bosonic(%s) is not the sub-vector / sub-matrix of those modes" % ms)
        return None
    if m == "backend_state":
        return _eval_backend_state(eng, st, rep, n, q["modes"], mu, cov, cutoff, q.get("as_int", False))
    if m == "state_eq":
        # state == other  must say whether the two objects describe the same state
        import copy
        spec2 = dict(spec)
        if q["perturb"] is not None:
            spec2 = {"n": n, "cmds": spec["cmds"] + [[q["perturb"][0], q["perturb"][1], [q["mode"]], False]]}
        other = run_spec(spec2, rep, cutoff)[1]
        mu2, cov2 = [np.array(x, dtype=float) for x in (run_spec(spec2, "gaussian")[1].means(), run_spec(spec2, "gaussian")[1].cov())]
        differ = not (_close(mu, mu2, 1e-7) and _close(cov, cov2, 1e-7))
        try:
            got = bool(st == other), bool(other == st), bool(st == copy.deepcopy(st))
        except Exception as e:  # noqa: BLE001
            return ("%s.__eq__:raises:%s" % (rep, type(e).__name__), "%s state: == raised %r" % (rep, e))
        if not got[2]:
            return ("%s.__eq__:irreflexive" % rep, "%s state: a copy of the state is not == the state" % rep)
        if got[0] != got[1]:
            return ("%s.__eq__:asymmetric" % rep, "%s state: a == b is %s but b == a is %s" % (rep, got[0], got[1]))
        if got[0] == differ:
            return ("%s.__eq__:wrong" % rep, "%s state: == says %s for the states of a program and the same program followed by %s (first/second moments %s)" % (
                rep, got[0], q["perturb"], "differ" if differ else "agree"))
        return None
    if m == "squeezing_truth":
        kk = q["mode"]
        rc1 = cov[np.ix_([kk, kk + n], [kk, kk + n])]
        if abs(np.linalg.det(rc1) - (hb / 2) ** 2) > 1e-9 * (hb / 2) ** 2:
            return None        # (r, phi) describe the mode completely only if its reduced state is pure
    REF_EXTRA_TOL.clear()
    want = ref_from_gauss(mu, cov, n, q, cutoff)
    tol = tol + REF_EXTRA_TOL.get(m, 0.0)
    try:
        got = call_query(st, rep, q, cutoff)
    except NotImplementedError:
        return None
    except Exception as e:  # noqa: BLE001
        if rep == "gaussian" and m == "number_expectation" and len(q["modes"]) > 2:
            return None
        return ("%s.%s:raises:%s" % (rep, m, type(e).__name__), "%s state: %s(%s) raised %r" % (rep, m, _qargs(q), e))
    if got is None:
        return None
    if m == "purity":
        if rep == "gaussian":
            return None if abs(want - 1) < 1e-6 else ("gauss.is_pure:wrong", "is_pure is True but purity computed from cov is %.9g" % want)
        return None if _close(got, want, 1e-7) else ("bosonic.purity:wrong", "purity() = %s, from covariance %.9g" % (got, want))
    got_a = np.asarray(got)
    if m == "poly_quad_expectation":
        ln = min(len(got_a), len(want))
        got_a, want = got_a[:ln], np.asarray(want)[:ln]
    if rep == "gaussian" and m in ("dm", "reduced_dm"):
        # the Gaussian class normalises the truncated state vector on its pure-state path and does not
        # normalise on the mixed path; both conventions are accepted (they differ by the truncated tail mass)
        k = np.asarray(want).ndim // 2
        tr = np.einsum(np.asarray(want), [i // 2 for i in range(2 * k)]).real
        if got_a.shape == np.asarray(want).shape and _close(got_a, want, tol):
            return None
        want = np.asarray(want) / tr
    if got_a.shape != np.asarray(want).shape:
        # known class: Gaussian pure multi-mode dm is returned as a (c^k, c^k) matrix
        if rep == "gaussian" and m in ("dm", "reduced_dm") and got_a.ndim == 2 and got_a.size == np.asarray(want).size:
            k = np.asarray(want).ndim // 2
            alt = got_a.reshape([cutoff] * (2 * k)).transpose([x for i in range(k) for x in (i, k + i)])
            if "modes" in q and len(q["modes"]) < n:
                idx = list(q["modes"]) + [x + n for x in q["modes"]]
                if abs(np.linalg.det(cov[np.ix_(idx, idx)]) - (hb / 2) ** (2 * k)) > 1e-6:
                    return ("gauss.reduced_dm:global-pure-flag-on-mixed-reduction", "Gaussian reduced_dm(%s) of a globally pure state whose reduction to those modes is mixed "
                            "is computed with the pure-state formula (and returned as a %s matrix)" % (q["modes"], got_a.shape))
            if _close(alt, want, 1e-4):
                return ("gauss.%s:pure-multimode-matrix-shape" % m, "Gaussian %s(%s) of a pure state has shape %s (matrix over flattened modes); the Fock and bosonic "
                        "representations and mixed Gaussian states return the %d-axis tensor [c]*%d" % (m, _qargs(q), got_a.shape, 2 * k, 2 * k))
        return ("%s.%s:shape" % (rep, m), "%s state: %s(%s) has shape %s, expected %s" % (rep, m, _qargs(q), got_a.shape, np.asarray(want).shape))
    if _close(got_a, want, tol):
        return None
    txt = "%s state: %s(%s) = %s but the value computed from the Gaussian means/covariance of exactly those modes is %s" % (
        rep, m, _qargs(q), _short(got_a), _short(want))
    return (_classify(rep, m, q, got_a, want, st, sg, mu, cov, n, cutoff), txt)


def _short(a):
    a = np.asarray(a)
    if a.size <= 4:
        return np.array2string(a, precision=8)
    return "array%s max|.|=%.6g" % (a.shape, float(np.max(np.abs(a))))


def _qargs(q):
    return ", ".join("%s=%s" % (k, v if not isinstance(v, list) or len(str(v)) < 60 else "...") for k, v in q.items() if k != "m")


def _classify(rep, m, q, got, want, st, sg, mu, cov, n, cutoff):
    """narrow signature for a mismatch"""
    import thewalrus.quantum as twq
    hb = float(sf.hbar)
    try:
        if rep == "gaussian" and m == "parity_expectation":
            full = (hb / 2) ** len(q["modes"]) * _G(mu, cov)
            if len(q["modes"]) < n and _close(got, full, 1e-8):
                return "gauss.parity_expectation:modes-ignored"
        if rep == "gaussian" and m == "reduced_dm" and sg.is_pure and len(q["modes"]) < n:
            idx = list(q["modes"]) + [x + n for x in q["modes"]]
            rc = cov[np.ix_(idx, idx)]
            if abs(np.linalg.det(rc) - (hb / 2) ** (2 * len(q["modes"]))) > 1e-6:
                return "gauss.reduced_dm:global-pure-flag-on-mixed-reduction"
        if rep == "gaussian" and m in ("squeezing", "squeezing_truth") and np.any(np.isnan(np.asarray(got, dtype=float))):
            if m == "squeezing_truth":
                off = abs(want[0, 0] - want[1, 1]) < 1e-9 * abs(want[0, 0])
            else:
                off = bool(np.any(np.abs(np.abs(np.asarray(want)[:, 1]) - 1) < 1e-9))
            if off:
                return "gauss.squeezing:phi-nan-at-half-pi"
        if rep == "gaussian" and m == "squeezing_truth":
            # hypothesis: r and sin(phi) right, sign of cos(phi) lost (arcsin)
            alt = np.array(got, dtype=float).copy()
            tr = alt[0, 0] + alt[1, 1]
            alt[0, 0], alt[1, 1] = alt[1, 1], alt[0, 0]
            if _close(alt, want, 1e-8) and want[0, 0] > want[1, 1]:
                return "gauss.squeezing:phi-quadrant-lost"
        if rep == "bosonic" and m == "displacement" and q["modes"] != sorted(q["modes"]):
            srt = sorted(q["modes"])
            if _close(got, (mu[srt] + 1j * mu[[x + n for x in srt]]) / np.sqrt(2 * hb), 1e-8):
                return "bosonic.displacement:modes-sorted"
        if rep == "bosonic" and m in ("fock_prob", "dm", "reduced_dm") and (len(q.get("modes", [])) >= 2 or (m != "reduced_dm" and n >= 2)):
            ms = q.get("modes", list(range(n)))
            k = len(ms)
            bm = np.real(st.reduced_bosonic(list(ms))[1][0]) if k < n else np.real(st.means()[0])
            bc = np.real(st.reduced_bosonic(list(ms))[2][0]) if k < n else np.real(st.covs()[0])
            # hypothesis: xpxp-ordered data handed to thewalrus, which expects xxpp
            if m == "fock_prob":
                alt = twq.density_matrix_element(bm, bc, q["n"], q["n"], hbar=hb).real
            else:
                alt = twq.density_matrix(bm, bc, hbar=hb, normalize=False, cutoff=cutoff)
            if _close(got, alt, 1e-8):
                return "bosonic.%s:multimode-xpxp-data-as-xxpp" % m
    except Exception:  # noqa: BLE001
        pass
    kind = ""
    if "modes" in q:
        kind = ":subset" if q["modes"] == sorted(q["modes"]) else ":unsorted"
    return "%s.%s:mismatch%s" % (rep, m, kind)


def _names_bad(sub, modes):
    """mode_names / mode_indices / num_modes of a reduced state must describe the requested modes in order"""
    want = {j: "q[%d]" % m for j, m in enumerate(modes)}
    try:
        if sub.num_modes != len(modes) or dict(sub.mode_names) != want or dict(sub.mode_indices) != {v: k for k, v in want.items()}:
            return "num_modes=%s mode_names=%s, expected %s" % (sub.num_modes, dict(sub.mode_names), want)
    except Exception as e:  # noqa: BLE001
        return "mode_names raised %r" % e
    return None


def _eval_backend_state(eng, st, rep, n, modes, mu, cov, cutoff, as_int=False):
    """backend.state(modes=ms) must describe exactly those modes in that order"""
    idx = list(modes) + [x + n for x in modes]
    want_mu, want_cov = mu[idx], cov[np.ix_(idx, idx)]
    pre = {"gaussian": "gaussianbackend", "bosonic": "bosonicbackend", "fock": "fockbackend"}[rep]
    try:
        sub = eng.backend.state(modes=int(modes[0]) if as_int else list(modes))
    except Exception as e:  # noqa: BLE001
        if as_int:
            return ("%s.state:int-modes-raises" % pre, "%s backend.state(modes=%d) (an int, as documented in BaseBackend.state) raised %r" % (rep, modes[0], e))
        return ("%s.state:raises:%s" % (pre, type(e).__name__), "%s backend.state(modes=%s) raised %r" % (rep, modes, e))
    nb = _names_bad(sub, modes)
    if nb:
        return ("%s.state:mode-names" % pre, "%s backend.state(modes=%s): %s" % (rep, modes, nb))
    k = len(modes)
    if rep == "gaussian":
        if _close(sub.means(), want_mu) and _close(sub.cov(), want_cov):
            return None
        return ("gaussianbackend.state:wrong-modes", "gaussian backend.state(modes=%s) does not hold the means/cov of those modes in that order" % modes)
    if rep == "bosonic":
        gm, gc = _xxpp_of_bosonic(sub)
        if _close(gm, want_mu) and _close(gc, want_cov):
            return None
        sidx = sorted(modes) + [x + n for x in sorted(modes)]
        if modes != sorted(modes) and _close(gm, mu[sidx]) and _close(gc, cov[np.ix_(sidx, sidx)]):
            return ("bosonicbackend.state:modes-sorted", "bosonic backend.state(modes=%s) returns the modes in ascending order %s (mode j of the returned state is not modes[j]; "
                    "mode_names still list the requested order)" % (modes, sorted(modes)))
        return ("bosonicbackend.state:wrong-modes", "bosonic backend.state(modes=%s) does not hold the means/cov of those modes" % modes)
    # fock: compare per-mode photon numbers and the full reduced dm with the Gaussian prediction
    import thewalrus.quantum as twq
    try:
        got = sub.dm()
        mp = [sub.mean_photon(j)[0] for j in range(k)]
    except Exception as e:  # noqa: BLE001
        if sub._pure and np.asarray(sub.data).ndim == 2 * k:
            return ("fockbackend.state:pure-flag-with-density-matrix", "fock backend.state(modes=%s) on a pure circuit state returns a BaseFockState flagged pure whose data is a "
                    "%d-axis density matrix; its methods raise (%s)" % (modes, 2 * k, type(e).__name__))
        return ("fockbackend.state:unusable:" + type(e).__name__, "fock backend.state(modes=%s): methods of the returned state raise %r" % (modes, e))
    want = twq.density_matrix(want_mu, want_cov, hbar=float(sf.hbar), normalize=False, cutoff=cutoff)
    if got.shape == want.shape and _close(got, want, 6e-3):
        return None
    return ("fockbackend.state:wrong-modes" + ("" if modes == sorted(modes) else ":unsorted"),
            "fock backend.state(modes=%s).dm() is not the reduced density matrix of those modes in that order" % modes)


def _correlated(cov, n, modes):
    others = [m for m in range(n) if m not in modes]
    if not others:
        return False
    a = list(modes) + [m + n for m in modes]
    b = others + [m + n for m in others]
    return bool(np.max(np.abs(cov[np.ix_(a, b)])) > 1e-6)


def search_gauss_family(ctx):
    rng = ctx.rng
    ncirc = ctx.budget(9, 70)
    for ci in range(ncirc):
        n = rng.choice([1, 2, 2, 3, 3, 4]) if ci >= 3 else [2, 3, 2][ci]
        lossy = rng.random() < 0.5
        spec = gen_gauss_spec(rng, n, lossy)
        reps = ["gaussian", "bosonic"]
        use_fock = n <= 3 and (n <= 2 or rng.random() < ctx.budget(0.35, 0.5))
        cutoff = FOCK_CUTOFF.get(n, 6)
        if use_fock:
            reps.append("fock")
        if n == 4:
            cutoff = 5
        qs = gen_queries(rng, n, cutoff, use_fock)
        cache = {}
        hbar = 2.0 if ci % 3 == 0 else HBARS[1 + ci % (len(HBARS) - 1)]
        for rep in reps:
            for q in qs:
                if q["m"] not in APPLIES[rep]:
                    continue
                if n == 4 and q["m"] in ("dm", "all_fock_probs"):
                    continue
                r = eval_gauss_query(spec, rep, q, cutoff, cache, hbar)
                sg = cache["gaussian"][1]
                ms = q.get("modes", [q["mode"]] if "mode" in q else None)
                nontriv = ms is not None and n >= 2 and ms != list(range(len(ms))) and len(ms) < n + (ms != sorted(ms)) and _correlated(np.asarray(sg.cov()), n, ms)
                ctx.case({"family": "gauss-circuit", "rep": rep, "n": n, "lossy": lossy, "hbar": hbar, "q": {k: v for k, v in q.items() if k in ("m", "modes", "mode", "n")}},
                         nontrivial=bool(nontriv), bucket="search:%s:%s" % (rep, q["m"]))
                if r:
                    ctx.counterexample(r[0], r[1], {"check": "gauss-query", "spec": spec, "rep": rep, "q": q, "cutoff": cutoff, "hbar": hbar})
        # family 3: simulator-level helpers with a modes argument
        for rep in ("gaussian", "bosonic"):
            eng = cache[rep][0]
            for ms in ([rng.randrange(n)], sorted(rng.sample(range(n), rng.randint(1, n)))):
                r = eval_circuit_fidelity(spec, rep, ms, cache, hbar)
                ctx.case({"family": "circuit-helper", "rep": rep, "n": n, "modes": ms}, nontrivial=n >= 2 and len(ms) < n, bucket="search:%s:circuit.fidelity" % rep)
                if r:
                    ctx.counterexample(r[0], r[1], {"check": "circuit-fidelity", "spec": spec, "rep": rep, "modes": ms, "hbar": hbar})


STRUCTURED_SPECS = [
    {"n": 1, "cmds": []},
    {"n": 1, "cmds": [["Dgate", [0.4, 0.0], [0], False]]},
    {"n": 1, "cmds": [["Sgate", [0.3, 0.0], [0], False]]},
    {"n": 1, "cmds": [["Sgate", [0.3, math.pi], [0], False], ["Dgate", [0.3, math.pi / 2], [0], False]]},
    {"n": 1, "cmds": [["Sgate", [0.3, math.pi / 2], [0], False]]},
    {"n": 1, "cmds": [["Sgate", [-0.25, 0.0], [0], False], ["LossChannel", [0.5], [0], False]]},
    {"n": 2, "cmds": [["Sgate", [0.3, 0.0], [0], False], ["Dgate", [0.3, math.pi], [1], False]]},
    {"n": 2, "cmds": [["Sgate", [0.25, math.pi], [1], False], ["BSgate", [math.pi / 4, 0.0], [1, 0], False]]},
    {"n": 2, "cmds": [["S2gate", [0.25, 0.0], [0, 1], False]]},
    {"n": 3, "cmds": [["Sgate", [0.3, 0.0], [2], False], ["Dgate", [0.3, 0.0], [0], False], ["BSgate", [math.pi / 2, 0.0], [2, 0], False]]},
]


def search_structured_sweep(ctx):
    """deterministic family: vacuum, coherent, axis-aligned squeezing (phi = 0, pi, pi/2), negative r, exact
    50:50 and swap beam splitters, product states - parameter values a random stream rarely hits"""
    rng = ctx.rng
    for si, spec in enumerate(STRUCTURED_SPECS):
        n = spec["n"]
        hbar = [2.0, 1.7, 1.0][si % 3]
        cutoff = FOCK_CUTOFF[n]
        qs = gen_queries(rng, n, cutoff, True)
        cache = {}
        for rep in ("gaussian", "bosonic") + (("fock",) if n == 1 or (ctx.tier != "quick" and n == 2) else ()):
            for q in qs:
                if q["m"] not in APPLIES[rep] or (rep != "gaussian" and q["m"] in ("dm", "x_quad_values", "p_quad_values", "wigner")):
                    continue
                r = eval_gauss_query(spec, rep, q, cutoff, cache, hbar)
                ctx.case({"family": "structured", "rep": rep, "spec": si, "hbar": hbar, "q": {k: v for k, v in q.items() if k in ("m", "modes", "mode", "n")}},
                         nontrivial=n >= 2 and "modes" in q and len(q["modes"]) < n, bucket="search:structured:%s:%s" % (rep, q["m"]))
                if r:
                    ctx.counterexample(r[0], r[1], {"check": "gauss-query", "spec": spec, "rep": rep, "q": q, "cutoff": cutoff, "hbar": hbar})


def eval_circuit_fidelity(spec, rep, ms, cache=None, hbar=2.0):
    with _Hbar(hbar):
        return _eval_circuit_fidelity(spec, rep, ms, cache)


def _eval_circuit_fidelity(spec, rep, ms, cache=None):
    cache = cache if cache is not None else {}
    if rep not in cache:
        cache[rep] = run_spec(spec, rep)
    eng = cache[rep][0]
    n = spec["n"]
    sub = eng.backend.state(modes=list(ms))
    want_v = complex(sub.fidelity_vacuum())
    alpha = np.array([0.1 * (i + 1) - 0.05j * i for i in range(len(ms))])
    want_c = complex(sub.fidelity_coherent(alpha))
    name = {"gaussian": "gaussiancircuit", "bosonic": "bosoniccircuit"}[rep]
    for meth, want, args in (("fidelity_vacuum", want_v, (list(ms),)), ("fidelity_coherent", want_c, (alpha, list(ms)))):
        try:
            got = complex(getattr(eng.backend.circuit, meth)(*args))
        except Exception as e:  # noqa: BLE001
            got = e
        if isinstance(got, Exception) or not _close(got, want, 1e-8):
            sig = "%s.%s:mismatch" % (name, meth)
            if meth == "fidelity_vacuum" and len(ms) < n:
                try:
                    full = complex(eng.backend.circuit.fidelity_vacuum())
                except Exception:  # noqa: BLE001
                    full = None
                if isinstance(got, Exception) or (full is not None and _close(got, full, 1e-9)):
                    sig = "%s.fidelity_vacuum:modes-ignored" % name
            return (sig, "%s backend circuit.%s(modes=%s) = %s but the state object of exactly those modes gives %s" % (rep, meth, ms, got if isinstance(got, Exception) else _short(got), _short(want)))
    return None


# ---------------- family 2: photon-number-bounded Fock states (exact) ----------------------

def gen_fock_spec(rng, n):
    cmds = []
    total = 0
    for i in range(n):
        k = rng.choice([0, 1, 1, 2])
        if total + k > 3:
            k = 0
        total += k
        if k:
            cmds.append(["Fock", [k], [i], False])
    if total == 0:
        cmds.append(["Fock", [1], [rng.randrange(n)], False])
        total = 1
    for _ in range(rng.randint(1, 3)):
        if n >= 2:
            a, b = rng.sample(range(n), 2)
            cmds.append(["BSgate", [round(rng.uniform(0.3, 1.3), 3), round(rng.uniform(-2, 2), 2)], [a, b], False])
        i = rng.randrange(n)
        cmds.append([rng.choice(["Rgate", "Kgate"]), [round(rng.uniform(-2, 2), 2)], [i], False])
    lossy = rng.random() < 0.4
    if lossy:
        cmds.append(["LossChannel", [round(rng.uniform(0.4, 0.9), 2)], [rng.randrange(n)], False])
    return {"n": n, "cmds": cmds}, total + 4, lossy


def _ladder(dim):
    return np.diag(np.sqrt(np.arange(1, dim)), 1)


def _embed(rho1, dim):
    out = np.zeros((dim, dim), dtype=complex)
    c = rho1.shape[0]
    out[:c, :c] = rho1
    return out


def _wigner_ref(rho1, xs, ps, hb):
    """W(x,p) = 1/(pi hbar) sum_n (-1)^n <n| D(-a) rho D(a) |n>, a = (x+ip)/sqrt(2 hbar)"""
    from scipy.linalg import expm
    dim = rho1.shape[0] + 40
    R = _embed(rho1, dim)
    a = _ladder(dim)
    par = (-1.0) ** np.arange(dim)
    out = np.zeros((len(ps), len(xs)))
    for i, p in enumerate(ps):
        for j, x in enumerate(xs):
            al = (x + 1j * p) / np.sqrt(2 * hb)
            Dm = expm(-(al * a.conj().T - np.conj(al) * a))
            out[i, j] = np.real(np.sum(par * np.diag(Dm @ R @ Dm.conj().T))) / (np.pi * hb)
    return out


def ref_from_dm(rho, N, D, q):
    """independent reference for query q from the density matrix rho (SF axis convention)"""
    hb = float(sf.hbar)
    m = q["m"]
    probs = _ref_probs(rho, N)
    grids = np.meshgrid(*[np.arange(D)] * N, indexing="ij")
    if m == "trace":
        return probs.sum()
    if m == "all_fock_probs":
        return probs
    if m == "fock_prob":
        return probs[tuple(q["n"])]
    if m == "dm":
        return rho
    if m == "reduced_dm":
        return _ref_reduce(rho, N, q["modes"])
    if m == "mean_photon":
        k = q["mode"]
        mean = np.sum(grids[k] * probs)
        return [mean, np.sum(grids[k] ** 2 * probs) - mean ** 2]
    if m == "number_expectation":
        prod = np.prod([grids[k] for k in q["modes"]], axis=0)
        mean = np.sum(prod * probs)
        return [mean, np.sum(prod ** 2 * probs) - mean ** 2]
    if m == "parity_expectation":
        sgn = (-1.0) ** np.sum([grids[k] for k in q["modes"]], axis=0)
        return np.sum(sgn * probs)
    if m == "fidelity_vacuum":
        return probs[tuple([0] * N)]
    if m == "fidelity_coherent":
        vec = np.array([1.0 + 0j])
        for a, b in q["alpha"]:
            vec = np.kron(vec, _coh_ket(complex(a, b), D))
        perm = [2 * i for i in range(N)] + [2 * i + 1 for i in range(N)]
        M = rho.transpose(perm).reshape(D ** N, D ** N)
        return np.real(np.conj(vec) @ M @ vec)
    if m == "fidelity":
        r1 = _ref_reduce(rho, N, [q["mode"]])
        v = _coh_ket(complex(*q["alpha"]), D)
        return np.real(np.conj(v) @ r1 @ v)
    if m == "quad_expectation":
        r1 = _embed(_ref_reduce(rho, N, [q["mode"]]), D + 6)
        a = _ladder(D + 6)
        x = np.sqrt(hb / 2) * (a + a.T)
        p = -1j * np.sqrt(hb / 2) * (a - a.T)
        xp = np.cos(q["phi"]) * x + np.sin(q["phi"]) * p
        mean = np.trace(xp @ r1).real
        return [mean, np.trace(xp @ xp @ r1).real - mean ** 2]
    if m == "wigner":
        return _wigner_ref(_ref_reduce(rho, N, [q["mode"]]), q["x"], q["p"], hb)
    if m == "poly_quad_expectation":
        A, d, kc, phi = np.array(q["A"]), np.array(q["d"]), q["k"], q["phi"]
        dim = D + 6
        a = _ladder(dim)
        x_ = np.sqrt(hb / 2) * (a + a.T)
        p_ = -1j * np.sqrt(hb / 2) * (a - a.T)
        # r -> rot.T r : x' = cos x + sin p ; p' = -sin x + cos p   (same convention as the Gaussian class)
        x1 = np.cos(phi) * x_ + np.sin(phi) * p_
        p1 = -np.sin(phi) * x_ + np.cos(phi) * p_
        touched = sorted(set(int(i) % N for i in np.nonzero(A)[0]) | set(int(i) % N for i in np.nonzero(d)[0]))
        if not touched:
            return [kc, 0.0]
        k = len(touched)
        red = _ref_reduce(rho, N, touched)
        perm = [2 * i for i in range(k)] + [2 * i + 1 for i in range(k)]
        big = np.zeros([dim] * (2 * k), dtype=complex)
        big[tuple([slice(0, D)] * (2 * k))] = red
        M = big.transpose(perm).reshape(dim ** k, dim ** k)

        def lift(op, j):
            mats = [np.eye(dim)] * k
            mats[j] = op
            out = np.array([[1.0 + 0j]])
            for mm in mats:
                out = np.kron(out, mm)
            return out
        r = {}
        for j, t in enumerate(touched):
            r[t] = lift(x1, j)
            r[t + N] = lift(p1, j)
        P = kc * np.eye(dim ** k, dtype=complex)
        for i in r:
            P = P + d[i] * r[i]
            for j in r:
                if A[i, j] != 0:
                    P = P + A[i, j] * (r[i] @ r[j] + r[j] @ r[i]) / 2
        mean = np.trace(P @ M).real
        return [mean, np.trace(P @ P @ M).real - mean ** 2]
    return None


FOCK_QUERIES = ["trace", "all_fock_probs", "fock_prob", "dm", "reduced_dm", "mean_photon", "number_expectation", "parity_expectation",
                "fidelity_vacuum", "fidelity_coherent", "fidelity", "quad_expectation", "wigner", "poly_quad_expectation"]


def call_fock_query(st, q, D):
    m = q["m"]
    if m == "trace":
        return st.trace()
    if m == "quad_expectation":
        return [float(x) for x in st.quad_expectation(q["mode"], q["phi"])]
    if m == "mean_photon":
        return [float(x) for x in st.mean_photon(q["mode"])]
    if m == "poly_quad_expectation":
        return [float(x) for x in st.poly_quad_expectation(np.array(q["A"]), np.array(q["d"]), q["k"], q["phi"])]
    return call_query(st, "fock", q, D)


def gen_ket_spec(rng, n, D):
    """a random pure state with at most D-4 photons in total, handed to BaseFockState directly"""
    maxtot = max(1, D - 4)
    re, im = [], []
    for nn in itertools.product(range(D), repeat=n):
        if sum(nn) <= maxtot and rng.random() < 0.7:
            re.append(round(rng.uniform(-1, 1), 3))
            im.append(round(rng.uniform(-1, 1), 3))
        else:
            re.append(0.0)
            im.append(0.0)
    if not any(re):
        re[0] = 1.0
    return {"n": n, "ket": {"re": re, "im": im}, "cmds": []}


def build_fock_state(spec, D, variant):
    """variant: 'native' (what the backend returns / the ket as given), 'mixed-twin' (same state, density-matrix representation)"""
    if "ket" in spec:
        n = spec["n"]
        ket = (np.array(spec["ket"]["re"]) + 1j * np.array(spec["ket"]["im"])).reshape([D] * n)
        ket = ket / np.linalg.norm(ket)
        eng, st = None, BaseFockState(ket, n, True, D)
    else:
        eng, st = run_spec(spec, "fock", D)
    if variant == "mixed-twin":
        st = BaseFockState(np.array(st.dm()), spec["n"], False, D)
    return eng, st


def eval_fock_query(spec, D, variant, q, cache=None):
    cache = cache if cache is not None else {}
    if variant not in cache:
        cache[variant] = build_fock_state(spec, D, variant)
    if "rho" not in cache:
        eng0, st0 = cache.get("native") or build_fock_state(spec, D, "native")
        cache["native"] = (eng0, st0)
        if st0.is_pure:
            ket = np.asarray(st0.ket())
            N = spec["n"]
            rho = np.einsum(ket, [2 * i for i in range(N)], ket.conj(), [2 * i + 1 for i in range(N)], list(range(2 * N)))
        else:
            rho = np.asarray(st0.data)
        cache["rho"] = rho
    eng, st = cache[variant]
    rho, N = cache["rho"], spec["n"]
    m = q["m"]
    if m == "backend_state":
        return _eval_fock_backend_state(eng, rho, N, q["modes"], D)
    want = ref_from_dm(rho, N, D, q)
    try:
        got = call_fock_query(st, q, D)
    except Exception as e:  # noqa: BLE001
        return ("fock.%s:raises:%s" % (m, type(e).__name__), "fock state (%s): %s(%s) raised %r" % (variant, m, _qargs(q), e))
    tol = 1e-6 if m == "wigner" else 1e-9
    if np.asarray(got).shape != np.asarray(want).shape:
        return ("fock.%s:shape" % m, "fock state (%s): %s(%s) has shape %s, expected %s" % (variant, m, _qargs(q), np.asarray(got).shape, np.asarray(want).shape))
    if _close(got, want, tol):
        return None
    kind = ""
    if "modes" in q:
        kind = ":subset" if q["modes"] == sorted(q["modes"]) else ":unsorted"
    rp = "pure" if st.is_pure else "mixed"
    return ("fock.%s:mismatch:%s%s" % (m, rp, kind), "fock state (%s representation): %s(%s) = %s but the value computed from the density matrix is %s" % (
        rp, m, _qargs(q), _short(got), _short(want)))


def _eval_fock_backend_state(eng, rho, N, modes, D):
    k = len(modes)
    srt = sorted(modes)
    red = _ref_reduce(rho, N, srt)
    # axis pair j of the wanted tensor is mode modes[j]
    order = [srt.index(m) for m in modes]
    want = red.transpose([x for j in order for x in (2 * j, 2 * j + 1)])
    try:
        sub = eng.backend.state(modes=list(modes))
    except Exception as e:  # noqa: BLE001
        return ("fockbackend.state:raises:" + type(e).__name__, "fock backend.state(modes=%s) raised %r" % (modes, e))
    nb = _names_bad(sub, modes)
    if nb:
        return ("fockbackend.state:mode-names", "fock backend.state(modes=%s): %s" % (modes, nb))
    try:
        got = sub.dm()
        mp = [sub.mean_photon(j)[0] for j in range(k)]
    except Exception as e:  # noqa: BLE001
        if sub._pure and np.asarray(sub.data).ndim == 2 * k:
            return ("fockbackend.state:pure-flag-with-density-matrix", "fock backend.state(modes=%s) on a pure circuit state returns a BaseFockState flagged pure whose data is a "
                    "%d-axis density matrix; its methods raise (%s)" % (modes, 2 * k, type(e).__name__))
        return ("fockbackend.state:unusable:" + type(e).__name__, "fock backend.state(modes=%s): methods of the returned state raise %r" % (modes, e))
    if np.asarray(got).shape == want.shape and _close(got, want, 1e-9):
        return None
    return ("fockbackend.state:wrong-modes" + ("" if modes == srt else ":unsorted"),
            "fock backend.state(modes=%s).dm() is not the reduced density matrix of those modes in that order" % modes)


def gen_fock_queries(rng, n, D):
    qs = gen_queries(rng, n, D, True)
    qs = [q for q in qs if q["m"] in FOCK_QUERIES or q["m"] == "backend_state"]
    qs.append({"m": "trace"})
    subsets = [list(c) for r in range(1, n + 1) for c in itertools.combinations(range(n), r)]
    for sub in subsets:
        qs.append({"m": "reduced_dm", "modes": sub})
        qs.append({"m": "parity_expectation", "modes": sub})
        qs.append({"m": "number_expectation", "modes": sub})
        if len(sub) < n:
            qs.append({"m": "backend_state", "modes": sub})
    if n >= 2:
        for _ in range(2):
            sub = rng.sample(range(n), rng.randint(2, n))
            qs.append({"m": "number_expectation", "modes": sub})
            qs.append({"m": "parity_expectation", "modes": sub})
            qs.append({"m": "backend_state", "modes": sub})
    for k in range(n):
        qs.append({"m": "fidelity", "mode": k, "alpha": [round(rng.uniform(-0.5, 0.5), 2), round(rng.uniform(-0.5, 0.5), 2)]})
        qs.append({"m": "quad_expectation", "mode": k, "phi": round(rng.uniform(-3, 3), 2)})
    for q in qs:
        if q["m"] == "fock_prob":
            q["n"] = [min(x, D - 1) for x in q["n"]]
        if q["m"] == "wigner":
            q["x"], q["p"] = q["x"][:3], q["p"][:2]
    return qs


def search_fock_family(ctx):
    rng = ctx.rng
    for ci in range(ctx.budget(5, 40)):
        n = rng.choice([1, 2, 2, 3]) if ci >= 2 else [2, 3][ci]
        spec, D, lossy = gen_fock_spec(rng, n)
        if n == 3:
            D = min(D, 6)
        if ci % 2 == 1:
            D = {1: 8, 2: 6, 3: 5}[n]
            spec, lossy = gen_ket_spec(rng, n, D), False
        qs = gen_fock_queries(rng, n, D)
        if "ket" in spec:
            qs = [q for q in qs if q["m"] != "backend_state"]
        cache = {}
        variants = ["native"] + ([] if lossy else ["mixed-twin"])
        for variant in variants:
            for q in qs:
                if q["m"] == "backend_state" and variant != "native":
                    continue
                r = eval_fock_query(spec, D, variant, q, cache)
                ms = q.get("modes", [q["mode"]] if "mode" in q else None)
                nontriv = ms is not None and n >= 2 and ms != list(range(len(ms))) and (len(ms) < n or ms != sorted(ms))
                ctx.case({"family": "fock-bounded", "variant": variant, "n": n, "D": D, "lossy": lossy, "q": {k: v for k, v in q.items() if k in ("m", "modes", "mode", "n")}},
                         nontrivial=bool(nontriv), bucket="search:fock-%s:%s" % (variant, q["m"]))
                if r:
                    ctx.counterexample(r[0], r[1], {"check": "fock-query", "spec": spec, "D": D, "variant": variant, "q": q})


# ---------------- family 4: bosonic multi-component states ------------------------------------
# Cat states (complex and real representation, several amplitudes / parities), GKP states, bosonic
# Fock states, optionally followed by R / S / BS / loss on 1-2 modes.  Every observable the bosonic
# state object offers is compared with (a) the Fock backend on the same program (cutoff from the
# energy, tolerance from the truncated trace) and (b) the moments of the state's own marginal() /
# wigner() (numerical integration), plus Wigner-function identities for parity and fidelities.

def gen_bosonic_spec(rng, n, lossy):
    kind = rng.choice(["cat", "cat", "catreal", "gkp", "fock", "cat-p"])
    small = lossy and n == 2
    cmds = []
    if kind in ("cat", "cat-p", "catreal"):
        a = round(rng.uniform(0.5, 1.0 if small else 1.5), 2)
        phi = round(rng.uniform(-3, 3), 2) if rng.random() < 0.7 else 0.0
        pp = rng.choice([0, 1]) if kind != "cat-p" else rng.choice([0.5, 0.25, 1.3])
        if kind == "catreal":
            cmds.append(["Catstate", [a, phi, rng.choice([0, 1]), "real", 1e-12, 2], [0], False])
        else:
            cmds.append(["Catstate", [a, phi, pp], [0], False])
    elif kind == "gkp":
        eps = round(rng.uniform(0.45 if small else 0.32, 0.6), 2)
        cmds.append(["GKP", [[round(rng.uniform(0, 3.1), 2), round(rng.uniform(0, 6.2), 2)], eps], [0], False])
    else:
        cmds.append(["Fock", [rng.choice([1, 2])], [0], False])
    if n == 2:
        r = rng.random()
        if r < 0.3:
            cmds.append(["Catstate", [round(rng.uniform(0.4, 0.9), 2), round(rng.uniform(-3, 3), 2), rng.choice([0, 1])], [1], False])
        elif r < 0.7:
            cmds.append(["Sgate", [round(rng.uniform(0.05, 0.25), 3), round(rng.uniform(-3, 3), 2)], [1], False])
            cmds.append(["Dgate", [round(rng.uniform(0.05, 0.4), 3), round(rng.uniform(-3, 3), 2)], [1], False])
    if rng.random() < 0.6:
        cmds.append(["Rgate", [round(rng.uniform(-3, 3), 2)], [0], False])
    if rng.random() < 0.4:
        cmds.append(["Sgate", [round(rng.uniform(0.05, 0.2), 3), round(rng.uniform(-3, 3), 2)], [0], False])
    if n == 2:
        a, b = rng.sample(range(2), 2)
        cmds.append(["BSgate", [round(rng.uniform(0.3, 1.3), 3), round(rng.uniform(-2, 2), 2)], [a, b], False])
    if lossy:
        cmds.append(["LossChannel", [round(rng.uniform(0.6, 0.95), 2)], [rng.randrange(n)], False])
    return {"n": n, "cmds": cmds, "kind": kind}


def _bosonic_cutoff(sb, n, lossy):
    """Fock cutoff from the energy of the bosonic state"""
    need = 0
    for k in range(n):
        m, v = [float(np.real(x)) for x in sb.mean_photon(k)]
        need = max(need, m + 7 * np.sqrt(max(v, 0.0)) + 10)
    cap = {1: 48, 2: 26}[n] if not lossy else {1: 40, 2: 15}[n]
    return int(min(cap, max(12, np.ceil(need))))


def _bos_extent(sb, k):
    w, mus, covs = sb.reduced_bosonic([k])
    return float(np.max(np.abs(np.real(mus))) + 9 * np.sqrt(np.max(np.abs(np.real(covs)))) + 1)


def _trapz(y, x):
    return np.trapz(y, x) if hasattr(np, "trapz") else np.trapezoid(y, x)


def gen_bosonic_queries(rng, n):
    qs = []
    for k in range(n):
        for phi in (0.0, math.pi / 2, round(rng.uniform(-3, 3), 2)):
            qs.append({"m": "quad_expectation", "mode": k, "phi": phi})
            qs.append({"m": "marginal_moments", "mode": k, "phi": phi})
        qs.append({"m": "mean_photon", "mode": k})
        qs.append({"m": "wigner_moments", "mode": k, "phi": round(rng.uniform(-3, 3), 2)})
        qs.append({"m": "parity_expectation", "modes": [k]})
        qs.append({"m": "reduced_dm", "modes": [k]})
        qs.append({"m": "displacement", "modes": [k]})
        qs.append({"m": "wigner", "mode": k, "x": [round(-2.4 + 1.2 * i, 3) for i in range(5)], "p": [round(-1.8 + 1.2 * i, 3) for i in range(4)]})
    if n == 2:
        qs.append({"m": "parity_expectation", "modes": [0, 1]})
        qs.append({"m": "parity_expectation", "modes": [1, 0]})
        qs.append({"m": "displacement", "modes": [1, 0]})
    qs.append({"m": "fidelity_vacuum"})
    for _ in range(2):
        qs.append({"m": "fidelity_coherent", "alpha": [[round(rng.uniform(-1.2, 1.2), 2), round(rng.uniform(-1.2, 1.2), 2)] for _ in range(n)]})
    for _ in range(3):
        qs.append({"m": "fock_prob", "n": [rng.choice([0, 1, 2, 3, 4]) for _ in range(n)]})
    qs.append({"m": "purity"})
    qs.append({"m": "state_eq", "variant": rng.choice(["same", "parity", "gate"])})
    return qs


def eval_bosonic_query(spec, q, lossy, cache=None, hbar=2.0):
    with _Hbar(hbar):
        return _eval_bosonic_query(spec, q, lossy, cache)


def _eval_bosonic_query(spec, q, lossy, cache=None):
    """(signature, text) if the property's predicate fails for query q on the bosonic state of spec"""
    cache = cache if cache is not None else {}
    n = spec["n"]
    hb = float(sf.hbar)
    if "bosonic" not in cache:
        cache["bosonic"] = run_spec(spec, "bosonic")
    sb = cache["bosonic"][1]
    if "fock" not in cache:
        c = _bosonic_cutoff(sb, n, lossy)
        cache["cutoff"] = c
        cache["fock"] = run_spec(spec, "fock", c)
        # truncation indicators: lost trace, and population in the top four levels of any mode (preparations that
        # normalise inside the truncated space lose no trace)
        edge = max(float(np.sum(np.real(np.diag(cache["fock"][1].reduced_dm([k])))[c - 4:])) for k in range(n))
        cache["leak"] = min(1e-4, max(0.0, 1.0 - float(cache["fock"][1].trace())) + max(0.0, edge))
    sk, c, leak = cache["fock"][1], cache["cutoff"], cache["leak"]
    m = q["m"]
    approx = any(cm[0] == "Fock" for cm in spec["cmds"])      # bosonic Fock states are a documented approximation (r = 0.05)
    # GKP states are built by different finite-energy approximations on the two backends (truncated sums of Gaussians
    # vs. Fock coefficients valid for small epsilon); measured relative differences up to 7e-4: looser base
    gkp = any(cm[0] == "GKP" for cm in spec["cmds"])
    base = 3e-2 if approx else (2e-3 if gkp else (2e-5 if any(cm[0] == "Catstate" and len(cm[1]) > 3 for cm in spec["cmds"]) else 2e-6))
    # tolerance from the truncated trace: moments can lose up to ~ leak * cutoff^2
    tol_m = base + 40 * leak * c * c
    tol_p = base + 20 * leak
    rc = min(c, 8)
    cplx = bool(np.max(np.abs(np.imag(np.asarray(sb.means(), dtype=complex)))) > 1e-12)

    def bad(sig, txt):
        return ("bosonic.%s:%s" % (m, sig), "bosonic state of %s: %s" % (spec["kind"], txt))
    try:
        if m == "state_eq":
            import copy
            spec2 = {"n": n, "cmds": [list(cm) for cm in spec["cmds"]], "kind": spec["kind"]}
            differ = q["variant"] != "same"
            if q["variant"] == "parity" and spec2["cmds"][0][0] == "Catstate":
                ps = list(spec2["cmds"][0][1])
                ps[2] = ps[2] + 1          # other parity: same means and covariances, different weights
                spec2["cmds"][0][1] = ps
            elif differ:
                spec2["cmds"].append(["Dgate", [0.3, 0.4], [0], False])     # a displacement changes every state
            other = run_spec(spec2, "bosonic")[1]
            got = bool(sb == other), bool(other == sb), bool(sb == copy.deepcopy(sb))
            if not got[2] or got[0] != got[1] or got[0] == differ:
                return bad("wrong", "== with the state of %s program gives %s / %s, with a copy of itself %s" % (
                    "the same" if not differ else "a different (%s)" % q["variant"], got[0], got[1], got[2]))
            return None
        if m == "quad_expectation":
            got = [complex(x) for x in sb.quad_expectation(q["mode"], q["phi"])]
            want = sk.quad_expectation(q["mode"], q["phi"])
            if abs(got[0] - want[0]) > tol_m * max(1, abs(want[0])):
                return bad("mean-vs-fock", "quad_expectation(%d, %s) mean %s, Fock backend %s" % (q["mode"], q["phi"], got[0], want[0]))
            if abs(got[1] - want[1]) > tol_m * max(1, abs(want[1])):
                return bad("variance-vs-fock", "quad_expectation(%d, %s) variance %s, Fock backend %.8g" % (q["mode"], q["phi"], got[1], want[1]))
        elif m == "marginal_moments":
            L = _bos_extent(sb, q["mode"])
            xs = np.linspace(-L, L, 4001)
            mg = np.real(np.asarray(sb.marginal(q["mode"], xs, q["phi"]), dtype=complex))
            nrm = _trapz(mg, xs)
            mean = _trapz(xs * mg, xs)
            var = _trapz(xs * xs * mg, xs) - mean ** 2
            got = [complex(x) for x in sb.quad_expectation(q["mode"], q["phi"])]
            t = 2e-6 * (1 + L * L)
            if abs(nrm - 1) > t:
                return bad("marginal-norm", "marginal(%d, phi=%s) integrates to %.9g" % (q["mode"], q["phi"], nrm))
            if abs(got[0] - mean) > t or abs(got[1] - var) > t:
                return bad("vs-marginal", "quad_expectation(%d, %s) = (%s, %s) but the moments of the state's own marginal() are (%.8g, %.8g)" % (
                    q["mode"], q["phi"], got[0], got[1], mean, var))
        elif m == "wigner_moments":
            L = _bos_extent(sb, q["mode"])
            xs = np.linspace(-L, L, 241)
            W = np.real(np.asarray(sb.wigner(q["mode"], xs, xs), dtype=complex))     # W[ip, ix]
            X, P = np.meshgrid(xs, xs)
            integ = lambda f: _trapz(_trapz(f * W, xs, ) if False else _trapz(f * W, xs), xs)
            nrm = integ(np.ones_like(W))
            cph, sph = np.cos(q["phi"]), np.sin(q["phi"])
            Q = cph * X + sph * P
            mean = integ(Q)
            var = integ(Q * Q) - mean ** 2
            r = (X * X + P * P) / (2 * hb)
            nbar = integ(r) - 0.5
            nvar = integ((r - 0.5) ** 2 - 0.25) - nbar ** 2
            t = 5e-6 * (1 + L ** 4)
            gq = [complex(x) for x in sb.quad_expectation(q["mode"], q["phi"])]
            gn = [complex(x) for x in sb.mean_photon(q["mode"])]
            if abs(nrm - 1) > t:
                return bad("wigner-norm", "wigner(%d) integrates to %.9g" % (q["mode"], nrm))
            if abs(gq[0] - mean) > t or abs(gq[1] - var) > t:
                return bad("quad-vs-wigner", "quad_expectation(%d, %s) = (%s, %s) but the moments of the state's own wigner() are (%.8g, %.8g)" % (
                    q["mode"], q["phi"], gq[0], gq[1], mean, var))
            if abs(gn[0] - nbar) > t or abs(gn[1] - nvar) > t:
                return bad("photon-vs-wigner", "mean_photon(%d) = (%s, %s) but the Wigner function gives (%.8g, %.8g)" % (q["mode"], gn[0], gn[1], nbar, nvar))
            w0 = complex(np.asarray(sb.wigner(q["mode"], np.array([0.0]), np.array([0.0]))).reshape(-1)[0])
            par = complex(sb.parity_expectation([q["mode"]]))
            if abs(par - np.pi * hb * w0) > 1e-8:
                return bad("parity-vs-wigner", "parity_expectation([%d]) = %s but pi*hbar*W(0,0) = %s" % (q["mode"], par, np.pi * hb * w0))
            if n == 1:
                al = complex(0.3, -0.45)
                mu_a = np.array([al.real, al.imag]) * np.sqrt(2 * hb)
                Wa = np.exp(-((X - mu_a[0]) ** 2 + (P - mu_a[1]) ** 2) / hb) / (np.pi * hb)
                ov = 2 * np.pi * hb * _trapz(_trapz(W * Wa, xs), xs)
                fc = complex(sb.fidelity_coherent(np.array([al])))
                if abs(fc - ov) > t:
                    return bad("fidelity-vs-wigner", "fidelity_coherent([%s]) = %s but 2 pi hbar int W W_alpha = %.9g" % (al, fc, ov))
        elif m == "mean_photon":
            got = [complex(x) for x in sb.mean_photon(q["mode"])]
            want = sk.mean_photon(q["mode"])
            if abs(got[0] - want[0]) > tol_m * max(1, abs(want[0])) or abs(got[1] - want[1]) > tol_m * max(1, abs(want[1])) * 2:
                return bad("vs-fock", "mean_photon(%d) = (%s, %s), Fock backend (%.8g, %.8g)" % (q["mode"], got[0], got[1], want[0], want[1]))
        elif m == "parity_expectation":
            got = complex(sb.parity_expectation(list(q["modes"])))
            want = sk.parity_expectation(list(q["modes"]))
            if abs(got - want) > tol_p:
                return bad("vs-fock", "parity_expectation(%s) = %s, Fock backend %.8g" % (q["modes"], got, want))
        elif m == "fidelity_vacuum":
            got, want = complex(sb.fidelity_vacuum()), sk.fidelity_vacuum()
            if abs(got - want) > tol_p:
                return bad("vs-fock", "fidelity_vacuum() = %s, Fock backend %.8g" % (got, want))
        elif m == "fidelity_coherent":
            al = np.array([complex(a, b) for a, b in q["alpha"]])
            got, want = complex(sb.fidelity_coherent(al)), sk.fidelity_coherent(al)
            if abs(got - want) > tol_p:
                return bad("vs-fock", "fidelity_coherent(%s) = %s, Fock backend %.8g" % (list(al), got, want))
        elif m == "fock_prob":
            got, want = complex(sb.fock_prob(list(q["n"]), cutoff=c)), sk.fock_prob(list(q["n"]))
            if abs(got - want) > tol_p:
                if cplx:
                    return bad("complex-means", "fock_prob(%s) = %s, Fock backend %.8g (component means are complex-valued: the interference terms are lost)" % (q["n"], got, want))
                return bad("vs-fock", "fock_prob(%s) = %s, Fock backend %.8g" % (q["n"], got, want))
        elif m == "reduced_dm":
            got = np.asarray(sb.reduced_dm(list(q["modes"]), cutoff=rc))
            want = np.asarray(sk.reduced_dm(list(q["modes"])))[:rc, :rc]
            if got.shape != want.shape or np.max(np.abs(got - want)) > tol_p:
                if cplx and got.shape == want.shape:
                    return bad("complex-means", "reduced_dm(%s) differs from the Fock backend by %.3g (component means are complex-valued: the interference terms are lost)" % (q["modes"], np.max(np.abs(got - want))))
                return bad("vs-fock", "reduced_dm(%s) differs from the Fock backend by %.3g" % (q["modes"], np.max(np.abs(got - want)) if got.shape == want.shape else -1))
        elif m == "displacement":
            got = np.asarray(sb.displacement(list(q["modes"])))
            want = np.array([(sk.quad_expectation(k, 0.0)[0] + 1j * sk.quad_expectation(k, math.pi / 2)[0]) / np.sqrt(2 * hb) for k in q["modes"]])
            if np.max(np.abs(got - want)) > tol_m:
                return bad("vs-fock", "displacement(%s) = %s, Fock backend %s" % (q["modes"], got, want))
        elif m == "wigner":
            got = np.real(np.asarray(sb.wigner(q["mode"], np.array(q["x"]), np.array(q["p"])), dtype=complex))
            want = sk.wigner(q["mode"], np.array(q["x"]), np.array(q["p"]))
            if got.shape != want.shape or np.max(np.abs(got - want)) > tol_p + 5e-6:
                return bad("vs-fock", "wigner(%d) differs from the Fock backend by %.3g" % (q["mode"], np.max(np.abs(got - want)) if got.shape == want.shape else -1))
        elif m == "purity":
            got = complex(sb.purity())
            rho = sk.dm()
            k2 = list(range(0, 2 * n, 2)) + list(range(1, 2 * n, 2))
            M = rho.transpose(k2).reshape(c ** n, c ** n)
            want = float(np.real(np.trace(M @ M)))
            if abs(got - want) > tol_p + 1e-6:
                return bad("vs-fock", "purity() = %s, Fock backend tr(rho^2) = %.8g" % (got, want))
    except NotImplementedError:
        return None
    except Exception as e:  # noqa: BLE001
        return ("bosonic.%s:raises:%s" % (m, type(e).__name__), "bosonic state of %s: %s(%s) raised %r" % (spec["kind"], m, _qargs(q), e))
    return None


def search_bosonic_family(ctx):
    rng = ctx.rng
    for ci in range(ctx.budget(8, 60)):
        n = 1 if ci % 2 == 0 else 2
        lossy = rng.random() < 0.3
        spec = gen_bosonic_spec(rng, n, lossy)
        if ci < 6:    # every preparation kind appears in the quick tier
            while spec["kind"] != ["cat", "gkp", "catreal", "cat-p", "fock", "cat"][ci]:
                spec = gen_bosonic_spec(rng, n, lossy)
        qs = gen_bosonic_queries(rng, n)
        cache = {}
        hbar = 2.0 if ci % 2 == 0 else HBARS[1 + ci % (len(HBARS) - 1)]
        for q in qs:
            r = eval_bosonic_query(spec, q, lossy, cache, hbar)
            ctx.case({"family": "bosonic-multicomponent", "kind": spec["kind"], "n": n, "lossy": lossy, "hbar": hbar, "weights": int(cache["bosonic"][1].num_weights),
                      "cutoff": cache.get("cutoff"), "q": {k: v for k, v in q.items() if k in ("m", "modes", "mode", "phi", "n")}},
                     nontrivial=int(cache["bosonic"][1].num_weights) > 1 and (n == 2 or q["m"] in ("quad_expectation", "marginal_moments", "wigner_moments", "mean_photon")),
                     bucket="search:bosonic-%s:%s" % (spec["kind"], q["m"]))
            if r:
                ctx.counterexample(r[0], r[1], {"check": "bosonic-query", "spec": spec, "q": q, "lossy": lossy, "hbar": hbar})


# ---------------- family 5: observables are pure functions of the state --------------------------
# One state object receives a random history of calls of every method of the state API (repeated,
# in random order); every answer is compared with the answer of a fresh copy of the pristine state
# and with the first answer to the same question, and the state's stored arrays are fingerprinted
# before / after every call.  States: 1-mode and multi-mode objects and backend.state(modes=[k])
# reductions, on all three backends, at several values of hbar.

_STORED = ["_data", "_mu", "_cov", "_alpha", "_mus", "_covs", "_weights"]


def _fingerprint(st):
    out = {}
    for name in _STORED:
        v = getattr(st, name, None)
        if v is None:
            continue
        if isinstance(v, (tuple, list)):
            out[name] = [np.array(x, dtype=complex, copy=True) for x in v]
        else:
            out[name] = [np.array(v, dtype=complex, copy=True)]
    return out


def _fp_diff(a, b):
    for name in a:
        for x, y in zip(a[name], b[name]):
            if x.shape != y.shape or (x.size and np.max(np.abs(x - y)) > 0):
                return name
    return None


def _canon_result(v):
    """turn any API answer into something comparable"""
    if v is None or isinstance(v, (bool, np.bool_, str, int)):
        return ("atom", v if not isinstance(v, np.bool_) else bool(v))
    if isinstance(v, (tuple, list)) and v and isinstance(v[0], (tuple, list, np.ndarray)):
        return ("seq", [_canon_result(x) for x in v])
    try:
        return ("num", np.array(v, dtype=complex))
    except Exception:  # noqa: BLE001
        return ("seq", [_canon_result(x) for x in v])


def _same(a, b, tol=1e-10):
    if a[0] != b[0]:
        return False
    if a[0] == "atom":
        return a[1] == b[1]
    if a[0] == "seq":
        return len(a[1]) == len(b[1]) and all(_same(x, y, tol) for x, y in zip(a[1], b[1]))
    x, y = np.asarray(a[1]), np.asarray(b[1])
    if x.shape != y.shape:
        return False
    nx, ny = np.isnan(x), np.isnan(y)          # the same question may legitimately be answered nan twice
    if not np.array_equal(nx, ny):
        return False
    return _close(np.where(nx, 0, x), np.where(ny, 0, y), tol)


def gen_history(rng, rep, n, pure, length):
    """random call history for an n-mode state object of representation rep"""
    XS, PS = [-1.5, -0.5, 0.5, 1.5], [-1.0, 0.0, 1.0]
    GRID = [round(-4 + 0.8 * i, 2) for i in range(11)]

    def sub(any_order=False, maxlen=None):
        k = rng.randint(1, min(n, maxlen or n))
        m = rng.sample(range(n), k)
        return m if any_order else sorted(m)

    def mk():
        k = rng.randrange(n)
        common = [
            {"m": "mean_photon", "mode": k}, {"m": "quad_expectation", "mode": k, "phi": rng.choice([0.0, 1.1, -0.6, math.pi / 2])},
            {"m": "parity_expectation", "modes": sub(True)}, {"m": "fidelity_vacuum"},
            {"m": "fidelity_coherent", "alpha": [[round(rng.uniform(-0.4, 0.4), 2), round(rng.uniform(-0.4, 0.4), 2)] for _ in range(n)]},
            {"m": "fock_prob", "n": [rng.choice([0, 0, 1, 2]) for _ in range(n)]},
            {"m": "reduced_dm", "modes": [k]}, {"m": "wigner", "mode": k, "x": XS, "p": PS},
            {"m": "x_quad_values", "mode": k, "grid": GRID}, {"m": "p_quad_values", "mode": k, "grid": GRID},
            {"m": "eq"}, {"m": "is_pure"}, {"m": "dm"},
        ]
        if rep == "gaussian":
            A = np.zeros((2 * n, 2 * n))
            a, b = rng.randrange(2 * n), rng.randrange(2 * n)
            A[a, b] += 0.5
            A[b, a] += 0.5
            d = np.zeros(2 * n)
            d[rng.randrange(2 * n)] = 0.7
            extra = [
                {"m": "is_coherent", "mode": k}, {"m": "is_squeezed", "mode": k}, {"m": "squeezing", "modes": rng.choice([None, sub(True)])},
                {"m": "is_coherent", "mode": k}, {"m": "is_squeezed", "mode": k}, {"m": "squeezing", "modes": None},
                {"m": "displacement", "modes": rng.choice([None, sub(True)])}, {"m": "means"}, {"m": "cov"},
                {"m": "reduced_gaussian", "modes": sub()}, {"m": "reduced_gaussian", "modes": list(range(n))},
                {"m": "number_expectation", "modes": sub(True, 2)}, {"m": "all_fock_probs"},
                {"m": "poly_quad_expectation", "A": A.tolist(), "d": d.tolist(), "k": 0.3, "phi": rng.choice([0.0, 0.5])},
                {"m": "fidelity", "mode": k, "alpha": [0.2, -0.1]}, {"m": "ket"},
            ]
        elif rep == "bosonic":
            extra = [
                {"m": "displacement", "modes": rng.choice([None, sub(True)])}, {"m": "means"}, {"m": "covs"}, {"m": "weights"}, {"m": "purity"},
                {"m": "reduced_bosonic", "modes": sub()}, {"m": "reduced_bosonic", "modes": list(range(n))},
                {"m": "marginal", "mode": k, "grid": GRID, "phi": rng.choice([0.0, 0.8])},
            ]
        else:
            A = np.zeros((2 * n, 2 * n))
            a = rng.randrange(2 * n)
            A[a, a] = 1.0
            d = np.zeros(2 * n)
            d[rng.randrange(2 * n)] = 0.7
            extra = [
                {"m": "trace"}, {"m": "all_fock_probs"}, {"m": "ket"}, {"m": "reduced_dm", "modes": sub()},
                {"m": "number_expectation", "modes": sub(True)}, {"m": "fidelity", "mode": k, "alpha": [0.2, -0.1]},
                {"m": "poly_quad_expectation", "A": A.tolist(), "d": d.tolist(), "k": 0.3, "phi": rng.choice([0.0, 0.5])},
            ]
        return rng.choice(common + extra + extra)
    hist = [mk() for _ in range(length)]
    # every question is asked at least twice, the second time after other calls
    return hist + [dict(q) for q in rng.sample(hist, min(len(hist), length // 2))]


def _hist_call(st, rep, q, cutoff, pristine):
    m = q["m"]
    if m in ("x_quad_values", "p_quad_values"):
        g = np.array(q["grid"])
        return getattr(st, m)(q["mode"], g, g)
    if m == "marginal":
        return st.marginal(q["mode"], np.array(q["grid"]), q["phi"])
    if m == "eq":
        return bool(st == pristine)
    if m == "is_pure":
        return bool(st.is_pure)
    if m in ("means", "cov", "covs", "weights", "trace"):
        return getattr(st, m)()
    if m in ("is_coherent", "is_squeezed"):
        return bool(getattr(st, m)(q["mode"]))
    if m == "squeezing":
        return [list(x) for x in (st.squeezing() if q["modes"] is None else st.squeezing(list(q["modes"])))]
    if m == "displacement" and q["modes"] is None:
        return st.displacement()
    if m == "reduced_gaussian":
        return [np.array(x) for x in st.reduced_gaussian(list(q["modes"]))]
    if m == "reduced_bosonic":
        return [np.array(x) for x in st.reduced_bosonic(list(q["modes"]))]
    if m == "ket":
        kw = {} if rep == "fock" else {"cutoff": cutoff}
        v = st.ket(**kw)
        return None if v is None else np.array(v)
    if m == "purity":
        return st.purity()
    if m == "number_expectation":
        return [float(x) for x in st.number_expectation(list(q["modes"]))]
    if m == "poly_quad_expectation":
        return [float(x) for x in st.poly_quad_expectation(np.array(q["A"]), np.array(q["d"]), q["k"], q["phi"])]
    if m == "mean_photon":
        kw = {} if rep == "fock" else {"cutoff": cutoff}
        return [complex(x) for x in st.mean_photon(q["mode"], **kw)]
    if m == "quad_expectation":
        return [complex(x) for x in st.quad_expectation(q["mode"], q["phi"])]
    return call_query(st, rep, q, cutoff)


def build_history_state(spec, rep, hbar, reduce_to, cutoff):
    eng, st = run_spec(spec, rep, cutoff)
    if reduce_to is not None:
        st = eng.backend.state(modes=list(reduce_to))
    return st


def eval_history(spec, rep, hbar, reduce_to, cutoff, history):
    """(signature, text) for the first call whose answer depends on the calls made before it, or that
    changes the state's stored arrays; None if the state object behaves as a pure function."""
    import copy
    pre = {"gaussian": "gauss", "bosonic": "bosonic", "fock": "fock"}[rep]
    with _Hbar(hbar):
        st = build_history_state(spec, rep, hbar, reduce_to, cutoff)
        pristine = copy.deepcopy(st)
        first = {}
        done = []
        for q in history:
            key = json.dumps(q, sort_keys=True)
            fresh = copy.deepcopy(pristine)
            try:
                want = ("ok", _canon_result(_hist_call(fresh, rep, q, cutoff, pristine)))
            except NotImplementedError:
                continue
            except Exception as e:  # noqa: BLE001
                want = ("raise", type(e).__name__)
            before = _fingerprint(st)
            try:
                got = ("ok", _canon_result(_hist_call(st, rep, q, cutoff, pristine)))
            except Exception as e:  # noqa: BLE001
                got = ("raise", type(e).__name__)
            changed = _fp_diff(before, _fingerprint(st))
            desc = "%s state (%d mode%s%s, hbar=%s)" % (rep, st.num_modes, "s" if st.num_modes > 1 else "", "" if reduce_to is None else ", backend.state(modes=%s)" % reduce_to, hbar)
            if changed:
                return ("%s.%s:mutates-state" % (pre, q["m"]), "%s: calling %s(%s) changed the state's stored array %s" % (desc, q["m"], _qargs(q), changed))
            same = got[0] == want[0] and (got[1] == want[1] if got[0] == "raise" else _same(got[1], want[1]))
            if not same:
                return ("%s.%s:depends-on-call-history" % (pre, q["m"]), "%s: %s(%s) after the calls [%s] differs from the answer of a fresh copy of the same state" % (
                    desc, q["m"], _qargs(q), ", ".join(x["m"] for x in done[-8:])))
            if key in first:
                f = first[key]
                if not (f[0] == got[0] and (f[1] == got[1] if got[0] == "raise" else _same(f[1], got[1]))):
                    return ("%s.%s:not-repeatable" % (pre, q["m"]), "%s: %s(%s) answered differently the second time" % (desc, q["m"], _qargs(q)))
            else:
                first[key] = got
            done.append(q)
        if _fp_diff(_fingerprint(pristine), _fingerprint(st)):
            return ("%s.history:state-changed" % pre, "stored arrays differ from the pristine copy after the history")
    return None


def search_history_family(ctx):
    rng = ctx.rng
    nh = ctx.budget(14, 90)
    for ci in range(nh):
        rep = ["gaussian", "gaussian", "bosonic", "fock"][ci % 4]
        hbar = HBARS[ci % len(HBARS)] if ci >= 2 else [1.0, 0.5][ci]
        shape = [("one", 1, None), ("multi", rng.choice([2, 3]), None), ("reduced", rng.choice([2, 3]), "single"), ("one", 1, None), ("reduced", 3, "pair")][ci % 5]
        n = shape[1] if rep != "fock" else min(shape[1], 2)
        lossy = rng.random() < 0.4
        spec = gen_gauss_spec(rng, n, lossy)
        reduce_to = None
        if shape[2] == "single":
            reduce_to = [rng.randrange(n)]
        elif shape[2] == "pair" and n >= 2:
            reduce_to = rng.sample(range(n), 2)
            if rep == "bosonic":
                reduce_to = sorted(reduce_to)
        neff = n if reduce_to is None else len(reduce_to)
        cutoff = {1: 8, 2: 6, 3: 5}[n] if rep == "fock" else 5
        history = gen_history(rng, rep, neff, not lossy, ctx.budget(16, 22))
        r = eval_history(spec, rep, hbar, reduce_to, cutoff, history)
        ctx.case({"family": "call-history", "rep": rep, "n": n, "hbar": hbar, "reduce_to": reduce_to, "calls": [q["m"] for q in history][:12]},
                 nontrivial=hbar != 2.0 or neff == 1, bucket="search:history:%s:%s:hbar=%s" % (rep, shape[0], hbar))
        ctx.evaluations += len(history) - 1
        if r:
            ctx.counterexample(r[0], r[1], {"check": "history", "spec": spec, "rep": rep, "hbar": hbar, "reduce_to": reduce_to, "cutoff": cutoff, "history": history})


def replay_corpus(ctx):
    """known findings / minimised past failures run first"""
    for path in sorted(glob.glob(os.path.join(coq.VERIF, "corpus", "C16-*.json"))):
        try:
            data = json.load(open(path))
        except Exception:  # noqa: BLE001
            continue
        r = _eval_replay(data.get("data", {}))
        ctx.case({"family": "corpus", "file": os.path.basename(path)}, nontrivial=True, bucket="corpus")
        if r:
            ctx.counterexample(r[0], r[1], data.get("data", {}))


def _eval_replay(d):
    chk = d.get("check")
    if chk == "gauss-query":
        return eval_gauss_query(d["spec"], d["rep"], d["q"], d["cutoff"], None, d.get("hbar", 2.0))
    if chk == "circuit-fidelity":
        return eval_circuit_fidelity(d["spec"], d["rep"], d["modes"], None, d.get("hbar", 2.0))
    if chk == "fock-query":
        return eval_fock_query(d["spec"], d["D"], d["variant"], d["q"])
    if chk == "history":
        return eval_history(d["spec"], d["rep"], d["hbar"], d["reduce_to"], d["cutoff"], d["history"])
    if chk == "bosonic-mixture":
        bad = _bosonic_mixture_predicate(d["case"])
        return ("bosonic.quad_expectation:mixture", "BaseBosonicState." + bad) if bad else None
    if chk == "bosonic-query":
        return eval_bosonic_query(d["spec"], d["q"], d["lossy"], None, d.get("hbar", 2.0))
    if chk == "gauss-call":
        bad = _gauss_predicate(d["case"])
        return ("gauss.%s:%s" % (d["case"]["method"], d["case"]["kind"]), bad) if bad else None
    if chk == "fock-call":
        c = d["case"]
        if c["method"] == "diag":
            st = _fock_state(c)
            probs = _ref_probs(st.dm(), c["N"])
            try:
                got = st.diagonal_expectation(list(c["modes"]), np.array(c["values"]))
            except Exception as e:  # noqa: BLE001
                return ("fock.diag:raises", repr(e)) if len(set(c["modes"])) == len(c["modes"]) else None
            vals = np.array(c["values"], dtype=float)
            want = sum(np.prod([vals[nn[m]] for m in c["modes"]]) * probs[nn] for nn in itertools.product(range(c["D"]), repeat=c["N"]))
            return None if _close(got, want) else ("fock.diag:%s" % c["kind"], "diagonal_expectation = %s, expected %s" % (got, want))
        bad = _fock_predicate(c)
        return ("fock.%s:%s" % (c["method"], c["kind"]), bad) if bad else None
    if chk == "pp":
        c = d["case"]
        s = np.array(c["samples"])
        modes = c["modes"]
        nm = s.shape[1]
        valid = modes is None or (len(modes) > 0 and all(0 <= m < nm for m in modes))
        ke, e = _call(pp.samples_expectation, s, modes)
        if not valid:
            return None if ke == "ValueErr" else ("pp:invalid-modes-accepted:" + c["kind"], "accepted invalid modes")
        ms = list(range(nm)) if modes is None else modes
        want = np.mean([np.prod([row[m] for m in ms]) for row in c["samples"]])
        return None if ke == "Ok" and abs(e - want) < 1e-9 else ("pp:" + c["kind"], "samples_expectation=%s expected %s" % (e, want))
    return None


# ======================================================================================
# correspondence 5: BaseBosonicState.quad_expectation on synthetic real-valued mixtures (floats)

def corr_bosonic_quad(ctx):
    from strawberryfields.backends.states import BaseBosonicState
    rng = ctx.rng
    cases = []
    for _ in range(ctx.budget(60, 600)):
        n = rng.choice([1, 1, 2, 3])
        nw = rng.randint(1, 4)
        w = [round(rng.uniform(-0.5, 1.5), 3) for _ in range(nw)]
        w[-1] = round(1.0 - sum(w[:-1]), 6)
        means = [[round(rng.uniform(-2.5, 2.5), 3) for _ in range(2 * n)] for _ in range(nw)]
        covs = []
        for _ in range(nw):
            a = np.array([[round(rng.uniform(-1, 1), 3) for _ in range(2 * n)] for _ in range(2 * n)])
            covs.append((a @ a.T + 0.5 * np.eye(2 * n)).tolist())
        cases.append({"n": n, "w": w, "means": means, "covs": covs, "mode": rng.randrange(n), "phi": rng.choice([0.0, math.pi / 2, 0.4, -1.3, 2.2])})
    impl, lines = [], ["From Coq Require Import List ZArith PrimFloat.", "Import ListNotations.", "From SFV Require Import C16.Model C16.Exec.", "Open Scope nat_scope."]
    for c in cases:
        st = BaseBosonicState((np.array(c["means"]), np.array(c["covs"]), np.array(c["w"])), c["n"], len(c["w"]))
        impl.append([float(np.real(x)) for x in st.quad_expectation(c["mode"], c["phi"])])
        comps = coq.coq_list(["(%s, %s, %s)" % (cfl(wi), cvec(mi), cmat(vi)) for wi, mi, vi in zip(st.weights(), st.means(), st.covs())])
        lines.append("Eval vm_compute in (f_bosonic_quad %s %s %d %s)." % (cfl(np.cos(c["phi"])), cfl(np.sin(c["phi"])), c["mode"], comps))
    ok, vals, raw = ctx.coq_eval("cases_bosonic_quad", "\n".join(lines))
    if not ok or len(vals) != len(cases):
        ctx.obligation("correspondence:bosonic_quad", False, raw[-2000:])
        return
    ctx.traces += len(cases)
    for c, iv, mv in zip(cases, impl, vals):
        spread = len(c["w"]) > 1
        ctx.case({"rep": "bosonic", "method": "quad_expectation", "n": c["n"], "weights": len(c["w"]), "mode": c["mode"], "phi": c["phi"]},
                 nontrivial=spread and (c["n"] >= 2 and c["mode"] > 0 or c["phi"] != 0.0), bucket="corr-bosonic-quad:w%d" % len(c["w"]))
        if _close(iv, list(mv), 1e-9):
            continue
        # property predicate: moments of the state's own marginal()
        data = {"check": "bosonic-mixture", "case": c, "impl": iv, "model": list(mv)}
        bad = _bosonic_mixture_predicate(c)
        if bad:
            ctx.counterexample("bosonic.quad_expectation:mixture", "BaseBosonicState." + bad, data)
        else:
            ctx.disagreement("corr:bosonic.quad_expectation", "model %s vs implementation %s for quad_expectation(%d, %s) of a %d-component mixture" % (
                list(mv), iv, c["mode"], c["phi"], len(c["w"])), data)


def _bosonic_mixture_predicate(c):
    from strawberryfields.backends.states import BaseBosonicState
    st = BaseBosonicState((np.array(c["means"]), np.array(c["covs"]), np.array(c["w"])), c["n"], len(c["w"]))
    L = _bos_extent(st, c["mode"])
    xs = np.linspace(-L, L, 6001)
    mg = np.real(np.asarray(st.marginal(c["mode"], xs, c["phi"]), dtype=complex))
    mean = _trapz(xs * mg, xs)
    var = _trapz(xs * xs * mg, xs) - mean ** 2
    got = [float(np.real(x)) for x in st.quad_expectation(c["mode"], c["phi"])]
    t = 2e-6 * (1 + L * L)
    if abs(got[0] - mean) > t or abs(got[1] - var) > t:
        return "quad_expectation(%d, %s) = (%.9g, %.9g) but the moments of the state's own marginal() are (%.9g, %.9g)" % (c["mode"], c["phi"], got[0], got[1], mean, var)
    return None


def correspondence(ctx):
    corr_gauss(ctx)
    corr_fock(ctx)
    corr_axes(ctx)
    corr_pp(ctx)
    corr_bosonic_quad(ctx)


def search(ctx):
    replay_corpus(ctx)
    search_structured_sweep(ctx)
    search_gauss_family(ctx)
    search_fock_family(ctx)
    search_bosonic_family(ctx)
    search_history_family(ctx)


def replay(ctx, data):
    r = _eval_replay(data.get("data", {}))
    if r:
        print("property predicate fails: [%s] %s" % r)
        return True
    print("property predicate holds on this input")
    return False
