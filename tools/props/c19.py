"""C19 — GBS application helpers are combinatorially exact and structurally sound.

Anchors: strawberryfields/apps/similarity.py, clique.py, subgraph.py, sample.py.

correspondence(): the Gallina models (coq/C19/Similarity.v, Clique.v, Subgraph.v) are run by vm_compute on
generated inputs and compared *exactly* with the implementation, np.random.choice / shuffle replaced by a
recorded oracle (draw d selects a[d mod len a]).
search(): the property's own predicates are evaluated on the implementation with independent references
(exact integer arithmetic, brute-force graph checks, existence of a rule-conforming add/remove order).
"""
import contextlib
import copy
import itertools
import math
from collections import Counter
from fractions import Fraction

import networkx as nx
import numpy as np

from strawberryfields.apps import clique as CL
from strawberryfields.apps import sample as SA
from strawberryfields.apps import similarity as SI
from strawberryfields.apps import subgraph as SG

PROP = "C19"
LEVEL = "proof"
COQ_TARGETS = ["C19/Similarity.vo", "C19/SimilarityProofs.vo", "C19/OrbitsComplete.vo", "C19/SimilarityBounded.vo", "C19/Clique.vo",
               "C19/CliqueProofs.vo", "C19/Subgraph.vo", "C19/SubgraphProofs.vo", "C19/Extra.vo"]
COQ_DIRS = ["C19"]
PROPERTIES_FILE = "Properties/C19.v"
ALLOWED_AXIOMS = set()
RULE = ("cases: (orbit/sample, mode count up to 300), (photon number up to 30, max count 1/2/3/unrestricted, modes up to 300; a "
        "deterministic list straddling 2^53, 2^63, 2^64 on every run plus random shapes up to 2^100), (graph of 1-12 nodes with "
        "arbitrary integer labels and insertion order, seed clique / subgraph, selection mode uniform|degree|integer "
        "weights with ties and negatives, oracle draws), bookkeeping histories of _update_subgraphs_list, search runs; "
        "non-trivial = mode count > 22 (beyond exact doubles), or a graph case with >= 4 nodes in degree/weight mode "
        "or with >= 2 oracle-decided steps, or a multi-step bookkeeping history")
TRUSTED_BASE = [
    "Coq 8.16.1 kernel; vm_compute for evaluating the models on cases and for the bounded completeness sweep",
    "hand-written models coq/C19/{Similarity,Clique,Subgraph}.v tied to /repo by exact correspondence on generated inputs",
    "harness tools/props/c19.py: generators, replacement of np.random.choice/shuffle by a recorded oracle, error kinds "
    "collapsed to ValueError, node sets canonicalised by sorting",
    "networkx (Graph, subgraph views, degree, density) and CPython set iteration order are observed, not modelled: "
    "the degree-table row order of a copied subgraph is read from networkx and handed to the model; Coq-compared "
    "graph cases use labels 0..7 for which CPython iterates integer sets in ascending order",
    "scipy.special.factorial(exact=True) inside orbit_cardinality is taken to be the integer factorial",
]
ASSUMPTIONS = [
    "graphs are networkx.Graph (undirected, self-loops allowed) with integer labels",
    "oracle semantics of np.random.choice: any element can be returned; theorems quantify over all draw lists",
]
MANIFEST_TEXT = (
    "proof (_partial). Models are of the source after the /repo fixes 87b9aa4, 5c60841, eefbefe. Full, unbounded theorems: "
    "orbits soundness and completeness (every yielded list is a partition, n >= 1); conversions (orbit is a partition of the photon number, "
    "permutation invariance, orbit->sample->orbit round trip for every shuffle, sample_to_event spec, event_to_sample lands "
    "in the requested event for every draw); exact multinomial identity of orbit_cardinality, 0 when the orbit is longer "
    "than the mode count; postselect / modes_from_counts / to_subgraphs specs; is_clique <-> all pairs adjacent on every "
    "undirected graph (self-loops allowed); c_0 / c_1 characterisations; selection rule of grow/swap for every draw; "
    "grow = maximal clique containing the input; swap = clique of equal size; clique.search = clique at least as large as "
    "the input; shrink = clique inside the input, removing a minimum-degree (then minimum-weight) node at every step; "
    "resize entries have exactly the requested sizes, cover the range, are nested, growth adds a highest-degree (then "
    "highest-weight) node; _update_subgraphs_list bounded / only offered entries / denser candidate kept / sorted. "
    "orbits(n) yields every partition of n exactly once for every n >= 1 (unbounded). "
    "Bounded (bound in the statement): cardinalities = brute-force counts for <= 6 photons, <= 5 modes. Refuted: orbits(0) (known finding); and, about explicitly named OLD variants only, is_clique "
    "counting self-loops, weight-mode node choice before 5c60841, event_cardinality before 87b9aa4. Not theorems: unbounded "
    "count = multinomial, whole-history statement for subgraph.search, the probabilities inside event_to_sample.")

# ======================================================================================
# oracle for np.random


class Oracle:
    def __init__(self, draws, perm=None):
        self.draws = list(draws)
        self.i = 0
        self.perm = perm
        self.ncalls = 0
        self.weights = []

    def next(self):
        d = self.draws[self.i] if self.i < len(self.draws) else 0
        self.i += 1
        self.ncalls += 1
        return d

    def choice(self, a, size=None, replace=True, p=None):
        if p is not None:
            self.weights.append([float(x) for x in p])     # what the code hands to the generator
        d = self.next()
        arr = np.arange(int(a)) if isinstance(a, (int, np.integer)) else np.asarray(a)
        if p is not None:   # only outcomes of non-zero probability can be drawn
            arr = arr[np.asarray(p) > 0]
        return arr[d % len(arr)]

    def shuffle(self, x):
        perm = self.perm if self.perm is not None else list(range(len(x)))
        vals = [x[i] for i in perm]
        for i, v in enumerate(vals):
            x[i] = v


@contextlib.contextmanager
def patched(oracle):
    oc, os_ = np.random.choice, np.random.shuffle
    np.random.choice, np.random.shuffle = oracle.choice, oracle.shuffle
    try:
        yield oracle
    finally:
        np.random.choice, np.random.shuffle = oc, os_


class Hang(BaseException):
    """raised by the watchdog when an implementation call does not return"""


_LIMIT_ACTIVE = [False]
_HANGS = {}
CALL_LIMIT = 20.0


@contextlib.contextmanager
def time_limit(seconds):
    """watchdog for implementation calls (SIGALRM; outermost limit wins, nested ones are no-ops)"""
    import signal
    import threading
    if _LIMIT_ACTIVE[0] or threading.current_thread() is not threading.main_thread():
        yield
        return

    def handler(signum, frame):
        raise Hang()
    old = signal.signal(signal.SIGALRM, handler)
    signal.setitimer(signal.ITIMER_REAL, seconds)
    _LIMIT_ACTIVE[0] = True
    try:
        yield
    finally:
        signal.setitimer(signal.ITIMER_REAL, 0)
        signal.signal(signal.SIGALRM, old)
        _LIMIT_ACTIVE[0] = False


def call(fn, *args, draws=(), perm=None, **kw):
    """Run fn under the oracle and a watchdog. Returns ("Ok", value) | ("ValueError", msg) | ("Raise", typename, msg)."""
    o = Oracle(draws, perm)
    name = getattr(fn, "__qualname__", "call")
    # none of the helpers may change the lists / dicts it is handed (except the two documented in-place updaters)
    LAST_ORACLE[0] = o
    snap = [copy.deepcopy(a) if isinstance(a, (list, dict)) and name not in IN_PLACE else None for a in args]
    try:
        return _call(fn, name, o, args, kw)
    finally:
        for i, (before, after) in enumerate(zip(snap, args)):
            if before is not None and _canon(before) != _canon(after):
                MUTATED.append((name, i, _canon(before), _canon(after)))


def _canon(x):
    if isinstance(x, (list, tuple)):
        return [_canon(v) for v in x]
    if isinstance(x, dict):
        return sorted((repr(k), _canon(v)) for k, v in x.items())
    if isinstance(x, np.ndarray):
        return ["ndarray", x.tolist()]
    if isinstance(x, np.generic):
        return x.item()
    return x


LAST_ORACLE = [None]
IN_PLACE = {"_update_subgraphs_list", "_update_dict"}
MUTATED = []


def _call(fn, name, o, args, kw):
    if _HANGS.get(name, 0) >= 2:      # circuit breaker: this entry point already failed to return twice
        return ("Raise", "Hang", "not run: %s did not return on two earlier inputs" % name)
    with patched(o):
        try:
            with time_limit(CALL_LIMIT if not _HANGS else 5.0):
                return ("Ok", fn(*args, **kw))
        except ValueError as e:
            return ("ValueError", str(e)[:80])
        except Hang:
            _HANGS[name] = _HANGS.get(name, 0) + 1
            return ("Raise", "Hang", "no result after %.0f s" % CALL_LIMIT)
        except Exception as e:  # noqa: BLE001
            return ("Raise", type(e).__name__, str(e)[:120])


class ImplFailure(Exception):
    pass


def must(fn, *args, **kw):
    """a direct implementation call that is expected to succeed (used while building correspondence cases)"""
    r = call(fn, *args, **kw)
    if r[0] != "Ok":
        raise ImplFailure("%s%r -> %s" % (getattr(fn, "__name__", "call"), args, r))
    return r[1]


# ======================================================================================
# references (independent of the implementation)


def mkgraph(g):
    G = nx.Graph()
    G.add_nodes_from(g["nodes"])
    G.add_edges_from([tuple(e) for e in g["edges"]])
    return G


def adjacency(g):
    a = {n: set() for n in g["nodes"]}
    for u, v in g["edges"]:
        a[u].add(v)
        a[v].add(u)
    return a


def has_loops(g):
    return any(u == v for u, v in g["edges"])


def bf_clique(adj, nodes):
    nodes = list(nodes)
    return all(v in adj[u] for i, u in enumerate(nodes) for v in nodes[i + 1:])


def deg_full(adj, u):
    return len(adj[u] - {u}) + (2 if u in adj[u] else 0)


def deg_in(adj, u, sub):
    return len((adj[u] - {u}) & set(sub)) + (2 if u in adj[u] else 0)


def wmap(g, weights):
    return {n: weights[i] for i, n in enumerate(g["nodes"])}


def exact_orbit_card(orbit, modes):
    s = list(orbit) + [0] * (modes - len(orbit))
    d = math.factorial(modes)
    for c in Counter(s).values():
        d //= math.factorial(c)
    return d


def exact_event_card(k, c, m):
    """coefficient of x^k in (1 + x + ... + x^c)^m, by polynomial DP with Python ints"""
    poly = [1] + [0] * k
    for _ in range(m):
        new = [0] * (k + 1)
        run = 0
        for i in range(k + 1):
            run += poly[i]
            if i - c - 1 >= 0:
                run -= poly[i - c - 1]
            new[i] = run
        poly = new
    return poly[k]


def ref_partitions(n, maxpart=None):
    """all partitions of n as non-increasing lists (independent recursive enumerator)"""
    if maxpart is None:
        maxpart = n
    if n == 0:
        return [[]]
    out = []
    for j in range(min(n, maxpart), 0, -1):
        for rest in ref_partitions(n - j, j):
            out.append([j] + rest)
    return out


def box(d, xs):
    """the node list in the container the case asks for (list by default; tuple / numpy array for integer labels)"""
    kind = d.get("container", "list")
    if kind == "tuple":
        return tuple(xs)
    if kind == "array" and xs and all(isinstance(x, int) for x in xs):
        return np.array(xs)
    return list(xs)


def ns(d):
    """positional node_select argument(s): omitted when the case asks for the documented default ("uniform")"""
    if d["sel"]["mode"] == "uniform" and d.get("dflt"):
        return ()
    return (sel_arg(d["sel"]),)


def sel_arg(sel):
    """JSON sel -> node_select argument"""
    if sel["mode"] == "weight":
        return np.array(sel["w"]) if sel.get("array") else list(sel["w"])
    return sel["mode"]


def exists_order(start, target, allowed_fn, grow):
    """Is there a sequence of single-node additions (grow) / removals leading from start to target such that
    each step picks a node allowed_fn(current) permits?"""
    start, target = frozenset(start), frozenset(target)
    seen = set()

    def rec(cur):
        if cur == target:
            return True
        if cur in seen:
            return False
        seen.add(cur)
        todo = (target - cur) if grow else (cur - target)
        for v in allowed_fn(cur) & todo:
            if rec(cur | {v} if grow else cur - {v}):
                return True
        return False

    return rec(start)


def best(cands, key, largest=True):
    cands = list(cands)
    if not cands:
        return set()
    ks = [key(c) for c in cands]
    b = max(ks) if largest else min(ks)
    return {c for c, k in zip(cands, ks) if k == b}


# ======================================================================================
# predicates on the implementation.  Each returns a list of (signature, what).


def pred_card(d):
    orbit, m = d["orbit"], d["modes"]
    r = call(SI.orbit_cardinality, list(orbit), m)
    if m < len(orbit):
        if r[0] == "ValueError" or (r[0] == "Ok" and r[1] == 0):
            return []
        return [("orbit_cardinality:modes<len(orbit)", "orbit_cardinality(%s, %d) = %s; no sample of %d modes lies in an orbit of %d parts" % (orbit, m, r[1:], m, len(orbit)))]
    e = exact_orbit_card(orbit, m)
    if r[0] != "Ok":
        return [("orbit_cardinality:raises", "orbit_cardinality(%s, %d) raised %s" % (orbit, m, r[1:]))]
    v = r[1]
    try:
        same = (int(v) == e) and (v == e)
    except (OverflowError, ValueError):
        same = False
    if not same:
        sig = "orbit_cardinality:inexact:modes<=170" if m <= 170 else "orbit_cardinality:inexact:modes>170"
        return [(sig, "orbit_cardinality(%s, %d) = %r but the orbit has exactly %d samples" % (orbit, m, v, e))]
    return []


def pred_event_card(d):
    k, c, m = d["photons"], d["maxc"], d["modes"]
    r = call(SI.event_cardinality, k, c, m)
    e = exact_event_card(k, c, m) if k > 0 else 1
    if r[0] != "Ok":
        return [("event_cardinality:raises", "event_cardinality(%d,%d,%d) raised %s" % (k, c, m, r[1:]))]
    v = r[1]
    try:
        same = int(v) == e and v == e
    except (OverflowError, ValueError):
        same = False
    # internal consistency, in exact Python ints: the event is the disjoint union of its admissible orbits
    rs = call(lambda: sum(int(SI.orbit_cardinality(list(o), m)) for o in SI.orbits(k) if max(o) <= c))
    if rs[0] != "Ok":
        return [("orbit_cardinality:raises", "orbit_cardinality raised %r while summing the orbits of event (%d,%d,%d)" % (rs[1:], k, c, m))]
    parts_sum = rs[1]
    if same and parts_sum == e:
        return []
    if not same and parts_sum == e:
        return [("event_cardinality:not-sum-of-orbit-cardinalities",
                 "event_cardinality(%d,%d,%d) = %r, but the exact sum of orbit_cardinality over its orbits is %d = the true count (%d bits): "
                 "the sum is not computed in exact integers" % (k, c, m, v, parts_sum, e.bit_length()))]
    if any(max(orb) <= c and len(orb) > m for orb in ref_partitions(k) if orb):
        exact_terms = sum(exact_orbit_card(orb, m) for orb in ref_partitions(k) if orb and max(orb) <= c and len(orb) <= m)
        if exact_terms == e:
            return [("event_cardinality:orbit-longer-than-modes", "event_cardinality(%d,%d,%d) = %r, exact count %d: orbits with more parts than modes are counted" % (k, c, m, v, e))]
    # attribute to inexact orbit cardinalities when that explains it
    for orb in ref_partitions(k):
        if orb and max(orb) <= c and len(orb) <= m:
            f = pred_card({"orbit": orb, "modes": m})
            if f:
                return [(f[0][0], "event_cardinality(%d,%d,%d) = %r, exact count %d; caused by: %s" % (k, c, m, v, e, f[0][1]))]
    if m > 170 and isinstance(v, float):
        return [("event_cardinality:float-sum:modes>170", "event_cardinality(%d,%d,%d) = %r, exact count %d: the per-orbit cardinalities come back as floats for modes > 170 and their sum is rounded" % (k, c, m, v, e))]
    return [("event_cardinality:wrong-sum", "event_cardinality(%d,%d,%d) = %r, exact count %d" % (k, c, m, v, e))]


class _ProbeState:
    """Stands in for the GBS state.  fock_prob(sample, cutoff) is 1 for a sample the caller is entitled to ask about
    (valid(sample)) with a cutoff above the photon number, 0.25 otherwise, so that an estimator fed with the right
    samples returns exactly its prefactor / the number of patterns.  Every call is recorded."""

    def __init__(self, valid):
        self.valid = valid
        self.calls = []

    def fock_prob(self, sample, cutoff=None, **kw):
        smp = [int(x) for x in sample]
        self.calls.append((tuple(smp), cutoff))
        ok = self.valid(smp) and cutoff is not None and cutoff > sum(smp)
        return 1.0 if ok else 0.25


@contextlib.contextmanager
def probe_state(valid):
    """replace similarity._get_state; yields (state, list of (graph, n_mean, loss) it was asked for)"""
    st = _ProbeState(valid)
    asked = []
    orig = SI._get_state

    def fake(graph, n_mean=5, loss=0.0):
        asked.append((graph, n_mean, loss))
        return st
    SI._get_state = fake
    try:
        yield st, asked
    finally:
        SI._get_state = orig


def in_event(k, c, m):
    return lambda smp: len(smp) == m and sum(smp) == k and (not smp or max(smp) <= c)


def in_orbit(orbit, m):
    o = sorted(orbit, reverse=True)
    return lambda smp: len(smp) == m and sorted([x for x in smp if x], reverse=True) == o


def _close(v, exact):
    try:
        return abs(Fraction(float(v)) - exact) <= Fraction(max(exact, 1), 10 ** 12)
    except (OverflowError, ValueError, TypeError):
        return False


def _asked_ok(asked, G, n_mean, loss):
    return all(a[0] is G and a[1] == n_mean and a[2] == loss for a in asked)


def pred_mc(d):
    """prob_event_mc / prob_orbit_mc: `samples` samples of the event / orbit are drawn, their probabilities (cutoff
    above the photon number) are averaged and scaled by the cardinality: with the probe state the estimate is exactly
    the cardinality; argument guards raise ValueError"""
    k, c, m, S = d["photons"], d["maxc"], d["modes"], d.get("samples", 1)
    n_mean, loss = d.get("n_mean", 5), d.get("loss", 0.0)
    orbit = d.get("orbit")
    G = nx.empty_graph(m)
    if orbit is not None:
        exact = exact_orbit_card(orbit, m) if len(orbit) <= m else 0
        name, valid = "prob_orbit_mc", in_orbit(orbit, m)
        fn = (SI.prob_orbit_mc, G, list(orbit), n_mean, S, loss)
        bad = S < 1 or n_mean < 0 or not 0 <= loss <= 1
    else:
        exact = (exact_event_card(k, c, m) if k > 0 else 1) if (k >= 0 and c >= 0) else 0
        name, valid = "prob_event_mc", in_event(k, c, m)
        fn = (SI.prob_event_mc, G, k, c, n_mean, S, loss)
        bad = S < 1 or n_mean < 0 or not 0 <= loss <= 1 or k < 0 or c < 0
    with probe_state(valid) as (st, asked):
        r = call(*fn, draws=d["draws"], perm=d["perm"])
    if bad:
        return [] if r[0] == "ValueError" else [(name + ":no-error", "%s accepted samples=%r n_mean=%r loss=%r photons=%r max_count=%r: %s" % (name, S, n_mean, loss, k, c, r[:2]))]
    if exact == 0 or exact.bit_length() > 900:
        return []
    if r[0] != "Ok":
        return [(name + ":raises", "%s with a probe state raised %s (cardinality %d)" % (name, r[1:], exact))]
    out = []
    if not _asked_ok(asked, G, n_mean, loss):
        out.append((name + ":state-arguments", "%s built its state from %s instead of (graph, n_mean=%r, loss=%r)" % (name, [a[1:] for a in asked], n_mean, loss)))
    if len(st.calls) != S:
        out.append((name + ":sample-count", "%s(samples=%d) asked for %d sample probabilities" % (name, S, len(st.calls))))
    wrong = [cl for cl in st.calls if not valid(list(cl[0])) or cl[1] is None or cl[1] <= sum(cl[0])]
    if wrong:
        out.append((name + ":wrong-sample", "%s asked for the probability of %s (cutoff %r), which is not a sample of the requested %s with a sufficient cutoff" % (name, list(wrong[0][0]), wrong[0][1], "orbit %s" % orbit if orbit is not None else "event (%d photons, <= %d per mode, %d modes)" % (k, c, m))))
    if not out and not _close(r[1], exact):
        out.append((name + ":prefactor", "%s with a unit-probability state returned %r; its prefactor, the cardinality, is exactly %d (%d bits)" % (name, r[1], exact, exact.bit_length())))
    return out


def pred_pexact(d):
    """prob_orbit_exact / prob_event_exact sum the probabilities of all samples of the orbit / event, each once"""
    k, c, m = d["photons"], d["maxc"], d["modes"]
    n_mean, loss = d.get("n_mean", 5), d.get("loss", 0.0)
    orbit = d.get("orbit")
    G = nx.empty_graph(m)
    bad = n_mean < 0 or not 0 <= loss <= 1
    if orbit is not None:
        exact = exact_orbit_card(orbit, m) if len(orbit) <= m else 0
        name, valid = "prob_orbit_exact", in_orbit(orbit, m)
        fn = (SI.prob_orbit_exact, G, list(orbit), n_mean, loss)
    else:
        exact = exact_event_card(k, c, m) if k > 0 else 1
        name, valid = "prob_event_exact", in_event(k, c, m)
        fn = (SI.prob_event_exact, G, k, c, n_mean, loss)
        bad = bad or k < 0 or c < 0
    with probe_state(valid) as (st, asked):
        r = call(*fn)
    if bad:
        return [] if r[0] == "ValueError" else [(name + ":no-error", "%s accepted n_mean=%r loss=%r photons=%r max_count=%r" % (name, n_mean, loss, k, c))]
    if r[0] != "Ok":
        return [(name + ":raises", "%s raised %s" % (name, r[1:]))]
    out = []
    pats = [cl[0] for cl in st.calls]
    if not _asked_ok(asked, G, n_mean, loss):
        out.append((name + ":state-arguments", "%s built its state from %s instead of (graph, n_mean=%r, loss=%r)" % (name, [a[1:] for a in asked], n_mean, loss)))
    if len(set(pats)) != len(pats):
        out.append((name + ":pattern-twice", "%s adds the probability of a sample twice" % name))
    wrong = [cl for cl in st.calls if not valid(list(cl[0])) or cl[1] is None or cl[1] <= sum(cl[0])]
    if wrong:
        out.append((name + ":wrong-sample", "%s adds the probability of %s (cutoff %r), not a sample of the requested orbit/event" % (name, list(wrong[0][0]), wrong[0][1])))
    if not out and (len(set(pats)) != exact or not _close(r[1], exact)):
        out.append((name + ":incomplete", "%s sums %d sample probabilities (result %r with a unit-probability state); there are exactly %d samples" % (name, len(set(pats)), r[1], exact)))
    return out


def pred_fv(d):
    """feature_vector_orbits / feature_vector_events: one entry per requested orbit / event, in order, exact when
    samples is None and Monte Carlo with that many samples otherwise"""
    m, S = d["modes"], d.get("samples")
    n_mean, loss = d.get("n_mean", 5), d.get("loss", 0.0)
    G = nx.empty_graph(m)
    out = []
    if "orbits" in d:
        items, name = d["orbits"], "feature_vector_orbits"
        exact = [exact_orbit_card(o, m) if len(o) <= m else 0 for o in items]
        valid = lambda smp: any(in_orbit(o, m)(smp) for o in items)  # noqa: E731
        fn, kw = (SI.feature_vector_orbits, G, copy.deepcopy(items), n_mean, S, loss), {}
        bad = len(items) == 0 or any(min(o) < 0 for o in items if o) or n_mean < 0 or not 0 <= loss <= 1
    else:
        items, c, name = d["events"], d["maxc"], "feature_vector_events"
        exact = [(exact_event_card(k, c, m) if k > 0 else 1) if k >= 0 and c >= 0 else 0 for k in items]
        valid = lambda smp: any(in_event(k, c, m)(smp) for k in items)  # noqa: E731
        if c == 2 and d.get("dflt"):
            fn, kw = (SI.feature_vector_events, G, list(items)), {"n_mean": n_mean, "samples": S, "loss": loss}
        else:
            fn, kw = (SI.feature_vector_events, G, list(items), c, n_mean, S, loss), {}
        bad = len(items) == 0 or (items and min(items) < 0) or c < 0 or n_mean < 0 or not 0 <= loss <= 1
    with probe_state(valid) as (st, asked):
        r = call(*fn, draws=d["draws"], perm=d["perm"], **kw)
    if bad:
        return [] if r[0] == "ValueError" else [(name + ":no-error", "%s accepted an invalid request %s" % (name, {kk: vv for kk, vv in d.items() if kk not in ("draws", "perm")}))]
    if any(e == 0 for e in exact):
        return []      # empty orbit / event: the estimators have nothing to draw
    if r[0] != "Ok":
        return [(name + ":raises", "%s raised %s" % (name, r[1:]))]
    vec = list(r[1])
    if not _asked_ok(asked, G, n_mean, loss):
        out.append((name + ":state-arguments", "%s built its state from %s instead of (graph, n_mean=%r, loss=%r)" % (name, sorted(set(a[1:] for a in asked)), n_mean, loss)))
    if len(vec) != len(items) or not all(_close(v, e) for v, e in zip(vec, exact)):
        out.append((name + ":wrong-entries", "%s(%s, samples=%r) with a unit-probability state = %s, the cardinalities are %s" % (name, items, S, vec, exact)))
    want_calls = S * len(items) if S else sum(exact)
    if not out and len(st.calls) != want_calls:
        out.append((name + ":wrong-estimator", "%s(samples=%r) evaluated %d sample probabilities, expected %d (%s)" % (name, S, len(st.calls), want_calls, "Monte Carlo" if S else "exact")))
    return out


def pred_fvs(d):
    """feature_vector_orbits_sampling / feature_vector_events_sampling: relative frequencies among the samples"""
    samples = d["samples"]
    out = []
    n = len(samples)
    arr = (lambda x: [np.array(s0) for s0 in x]) if d.get("as_array") else copy.deepcopy
    if "orbits" in d:
        items = d["orbits"]
        r = call(SI.feature_vector_orbits_sampling, arr(samples), copy.deepcopy(items))
        bad = len(items) == 0 or any(min(o) < 0 for o in items if o)
        name = "feature_vector_orbits_sampling"
        ref = [Fraction(sum(1 for smp in samples if sorted([x for x in smp if x], reverse=True) == list(o)), n) for o in items] if not bad else None
    else:
        items, c = d["events"], d["maxc"]
        if c == 2 and d.get("dflt"):
            r = call(SI.feature_vector_events_sampling, arr(samples), list(items))
        else:
            r = call(SI.feature_vector_events_sampling, arr(samples), list(items), c)
        bad = len(items) == 0 or min(items) < 0 or c < 0
        name = "feature_vector_events_sampling"
        ref = [Fraction(sum(1 for smp in samples if sum(smp) == k and max(smp) <= c), n) for k in items] if not bad else None
    if bad:
        return [] if r[0] == "ValueError" else [(name + ":no-error", "%s accepted an invalid request %s" % (name, items))]
    if r[0] != "Ok":
        if "orbits" in d and any(len(o) == 0 for o in items) and r[0] == "ValueError":
            return [(name + ":empty-orbit", "%s(%s, %s) raised %s: the orbit [] of an all-zero sample (sample_to_orbit([0, 0]) == []) cannot be requested" % (name, samples, items, r[1:]))]
        return [(name + ":raises", "%s raised %s" % (name, r[1:]))]
    vec = list(r[1])
    if len(vec) != len(ref) or any(abs(float(v) - float(e)) > 1e-12 for v, e in zip(vec, ref)):
        out.append((name + ":wrong", "%s(%s, %s%s) = %s, the relative frequencies are %s" % (name, samples, items, "" if "orbits" in d else ", max_count_per_mode=%d" % d["maxc"], vec, [str(x) for x in ref])))
    return out


def pred_orbits(d):
    n = d["photons"]
    r = call(lambda: list(SI.orbits(n)))
    if r[0] != "Ok":
        return [("orbits:raises", "orbits(%d) raised %s" % (n, r[1:]))]
    got = r[1]
    ref = ref_partitions(n)
    out = []
    if n == 0:
        if got != [[]]:
            out.append(("orbits:zero-photons", "orbits(0) yields %r; the only partition of 0 is [] (and sample_to_orbit of an all-zero sample is [])" % (got,)))
        return out
    gs = [tuple(o) for o in got]
    if len(set(gs)) != len(gs):
        out.append(("orbits:duplicates", "orbits(%d) yields a partition twice" % n))
    if any(list(o) != sorted(o, reverse=True) or any(p < 1 for p in o) or sum(o) != n for o in got):
        out.append(("orbits:not-a-partition", "orbits(%d) yields a list that is not a non-increasing positive partition of %d" % (n, n)))
    if set(gs) != {tuple(o) for o in ref}:
        out.append(("orbits:incomplete", "orbits(%d) yields %d distinct lists, there are %d partitions" % (n, len(set(gs)), len(ref))))
    return out


def pred_s2o(d):
    """sample_to_orbit / sample_to_event on one sample"""
    smp, c = d["sample"], d["maxc"]
    arg = np.array(smp) if d.get("as_array") else list(smp)
    r1 = call(SI.sample_to_orbit, arg)
    r2 = call(SI.sample_to_event, arg, c)
    out = []
    if r1[0] != "Ok" or [int(x) for x in r1[1]] != sorted([x for x in smp if x], reverse=True):
        out.append(("sample_to_orbit:wrong", "sample_to_orbit(%s) = %s" % (smp, r1[1:])))
    want = sum(smp) if max(smp) <= c else None
    if r2[0] != "Ok" or (r2[1] is None) != (want is None) or (want is not None and int(r2[1]) != want):
        out.append(("sample_to_event:wrong", "sample_to_event(%s, %d) = %s, expected %r" % (smp, c, r2[1:], want)))
    return out


def pred_convert(d):
    """sample -> orbit/event consistency with the cardinalities, by exhaustive enumeration (small)"""
    k, c, m = d["photons"], d["maxc"], d["modes"]
    out = []
    cnt_orbit = Counter()
    cnt_event = 0
    for s in itertools.product(range(k + 1), repeat=m):
        if sum(s) != k:
            continue
        o = SI.sample_to_orbit(list(s))
        if list(o) != sorted([x for x in s if x], reverse=True):
            out.append(("sample_to_orbit:wrong", "sample_to_orbit(%s) = %s" % (list(s), o)))
        cnt_orbit[tuple(o)] += 1
        ev = SI.sample_to_event(list(s), c)
        if (ev is None) != (max(s) > c) or (ev is not None and ev != k):
            out.append(("sample_to_event:wrong", "sample_to_event(%s, %d) = %r" % (list(s), c, ev)))
        if ev is not None:
            cnt_event += 1
    if k >= 1:
        orbs = [tuple(o) for o in SI.orbits(k)]
        for o in orbs:
            if len(o) <= m:
                v = SI.orbit_cardinality(list(o), m)
                if v != cnt_orbit.get(o, 0):
                    out.append(("orbit_cardinality:count-mismatch", "orbit %s, %d modes: cardinality %r but %d samples map to it" % (list(o), m, v, cnt_orbit.get(o, 0))))
        missing = set(cnt_orbit) - set(orbs)
        if missing:
            out.append(("orbits:incomplete", "samples of %d photons map to orbits %s that orbits() does not list" % (k, sorted(missing)[:3])))
        if c >= 1 and k <= c * m and all(len(o) <= m for o in orbs if max(o) <= c):
            v = SI.event_cardinality(k, c, m)
            if v != cnt_event:
                out.append(("event_cardinality:count-mismatch", "event_cardinality(%d,%d,%d)=%r but %d samples map to the event" % (k, c, m, v, cnt_event)))
    return out[:4]


def pred_o2s(d):
    orbit, m, perm = d["orbit"], d["modes"], d["perm"]
    r = call(SI.orbit_to_sample, list(orbit), m, perm=perm)
    if m < len(orbit):
        return [] if r[0] == "ValueError" else [("orbit_to_sample:no-error", "orbit longer than modes accepted: %s" % (r,))]
    if r[0] != "Ok":
        return [("orbit_to_sample:raises", "orbit_to_sample(%s,%d) raised %s" % (orbit, m, r[1:]))]
    s = list(r[1])
    out = []
    if len(s) != m or SI.sample_to_orbit(s) != sorted(orbit, reverse=True):
        out.append(("orbit_to_sample:roundtrip", "orbit_to_sample(%s,%d) -> %s whose orbit is %s" % (orbit, m, s, SI.sample_to_orbit(s))))
    return out


def pred_e2s(d):
    k, c, m, draws, perm = d["photons"], d["maxc"], d["modes"], d["draws"], d["perm"]
    r = call(SI.event_to_sample, k, c, m, draws=draws, perm=perm)
    if c * m < k or c < 0:
        return [] if r[0] == "ValueError" else [("event_to_sample:no-error", "impossible event accepted: %s" % (r,))]
    if r[0] != "Ok":
        sig = "event_to_sample:orbit-longer-than-modes" if (m < k and r[0] == "ValueError") else "event_to_sample:raises"
        return [(sig, "event_to_sample(%d,%d,%d) raised %s although the event is not empty" % (k, c, m, r[1:]))]
    s = list(r[1])
    if len(s) != m or sum(s) != k or (s and max(s) > c) or SI.sample_to_event(s, c) != k:
        return [("event_to_sample:roundtrip", "event_to_sample(%d,%d,%d) -> %s (event %r)" % (k, c, m, s, SI.sample_to_event(s, c)))]
    # "selected uniformly at random from the event": an orbit must be drawn with probability |orbit| / |event|
    ws = LAST_ORACLE[0].weights if LAST_ORACLE[0] is not None else []
    if ws and k >= 1:
        total = exact_event_card(k, c, m)
        want = sorted(float(Fraction(exact_orbit_card(o, m), total)) for o in ref_partitions(k) if max(o) <= c and len(o) <= m)
        got = sorted(x for x in ws[0] if x > 0)
        if len(got) != len(want) or any(abs(a - b) > 1e-9 for a, b in zip(got, want)):
            return [("event_to_sample:orbit-weights", "event_to_sample(%d,%d,%d) draws its orbit with probabilities %s; uniform sampling of the event needs %s" % (k, c, m, got[:8], want[:8]))]
    return []


def pred_sample(d):
    """postselect / modes_from_counts / to_subgraphs"""
    samples, lo, hi, g = d["samples"], d["lo"], d["hi"], d["graph"]
    out = []
    arr = (lambda x: [np.array(s) for s in x]) if d.get("as_array") else copy.deepcopy
    ps = [list(int(v) for v in s) for s in SA.postselect(arr(samples), lo, hi)]
    if ps != [s for s in samples if lo <= sum(s) <= hi]:
        out.append(("postselect:wrong", "postselect(%s,%d,%d) = %s" % (samples, lo, hi, ps)))
    for s in samples:
        mfc = SA.modes_from_counts(np.array(s) if d.get("as_array") else list(s))
        ref = [i for i, cnt in enumerate(s) for _ in range(cnt)]
        if list(mfc) != ref:
            out.append(("modes_from_counts:wrong", "modes_from_counts(%s) = %s" % (s, mfc)))
    G = mkgraph(g)
    n = len(g["nodes"])
    ok_samples = [s for s in samples if len(s) == n]
    r = call(SA.to_subgraphs, arr(ok_samples), G)
    if r[0] != "Ok":
        out.append(("to_subgraphs:raises", "to_subgraphs raised %s" % (r[1:],)))
    else:
        for s, sub in zip(ok_samples, r[1]):
            ref = sorted(g["nodes"][i] for i, cnt in enumerate(s) if cnt)
            if sorted(sub) != ref or len(set(sub)) != len(sub):
                out.append(("to_subgraphs:wrong-nodes", "to_subgraphs(%s) on nodes %s = %s, clicked nodes are %s" % (s, g["nodes"], sub, ref)))
    return out[:4]


def pred_is_clique(d):
    g, sub = d["graph"], d["sub"]
    G = mkgraph(g)
    adj = adjacency(g)
    r = call(CL.is_clique, G.subgraph(sub))
    if r[0] != "Ok":
        return [("is_clique:raises", "is_clique raised %s" % (r[1:],))]
    truth = bf_clique(adj, set(sub))
    if bool(r[1]) != truth:
        loops = any(u in adj[u] for u in set(sub))
        sig = "is_clique:self-loop" if loops else "is_clique:wrong"
        return [(sig, "is_clique says %s for nodes %s of edges %s; all pairs adjacent: %s" % (bool(r[1]), sorted(set(sub)), g["edges"], truth))]
    return []


def pred_c01(d):
    g, cl = d["graph"], d["clique"]
    G = mkgraph(g)
    adj = adjacency(g)
    out = []
    r0 = call(CL.c_0, list(cl), G)
    r1 = call(CL.c_1, list(cl), G)
    cs = set(cl)
    if not bf_clique(adj, cs):
        for r, nm in ((r0, "c_0"), (r1, "c_1")):
            if r[0] != "ValueError":
                out.append((nm + ":no-error", "%s accepted a non-clique %s" % (nm, cl)))
        return out
    ref0 = sorted(v for v in g["nodes"] if v not in cs and cs <= adj[v])
    ref1 = sorted((next(iter(cs - adj[v])), v) for v in g["nodes"] if v not in cs and len(cs & adj[v]) == len(cs) - 1)
    if r0[0] != "Ok" or sorted(r0[1]) != ref0:
        out.append(("c_0:wrong", "c_0(%s) = %s, expected %s (edges %s)" % (cl, r0, ref0, g["edges"])))
    if r1[0] != "Ok" or sorted(tuple(p) for p in r1[1]) != ref1:
        out.append(("c_1:wrong", "c_1(%s) = %s, expected %s (edges %s)" % (cl, r1, ref1, g["edges"])))
    return out


def _graph_unchanged(G, g):
    return list(G.nodes()) == list(g["nodes"]) and {frozenset(e) for e in G.edges()} == {frozenset(e) for e in g["edges"]}


def _weights_bad(g, sel):
    return sel["mode"] == "weight" and len(sel["w"]) != len(g["nodes"])


def pred_grow(d):
    g, cl, sel, draws = d["graph"], d["clique"], d["sel"], d["draws"]
    G = mkgraph(g)
    adj = adjacency(g)
    arg = box(d, cl)
    r = call(CL.grow, arg, G, *ns(d), draws=draws)
    out = []
    if list(arg) != list(cl) or not _graph_unchanged(G, g):
        out.append(("grow:mutates-input", "grow changed its arguments"))
    cs = set(cl)
    invalid = (not cs <= set(g["nodes"])) or (not bf_clique(adj, cs)) or _weights_bad(g, sel)
    c0 = lambda cur: {v for v in g["nodes"] if v not in cur and cur <= adj[v]}  # noqa: E731
    if invalid:
        if r[0] != "ValueError":
            out.append(("grow:no-error", "invalid input accepted: %s" % (r,)))
        return out
    if sel["mode"] not in ("uniform", "degree", "weight"):
        if c0(cs) and r[0] != "ValueError":
            out.append(("grow:no-error", "unknown node_select accepted"))
        return out
    if r[0] != "Ok":
        return out + [("grow:raises", "grow(%s) raised %s" % (cl, r[1:]))]
    res = list(r[1])
    rs = set(res)
    if res != sorted(rs) or not rs <= set(g["nodes"]):
        out.append(("grow:not-a-node-set", "grow returned %s" % res))
        return out
    if not bf_clique(adj, rs):
        out.append(("grow:not-a-clique", "grow(%s) = %s is not a clique of edges %s" % (cl, res, g["edges"])))
    if not cs <= rs:
        out.append(("grow:drops-input", "grow(%s) = %s does not contain the input" % (cl, res)))
    if c0(rs):
        out.append(("grow:not-maximal", "grow(%s) = %s can still be extended by %s" % (cl, res, sorted(c0(rs)))))
    if not out:
        w = wmap(g, sel["w"]) if sel["mode"] == "weight" else None

        def allowed(cur):
            c = c0(cur)
            if sel["mode"] == "degree":
                return best(c, lambda v: deg_full(adj, v))
            if sel["mode"] == "weight":
                return best(c, lambda v: w[v])
            return c
        if not exists_order(cs, rs, allowed, True):
            out.append(("grow:%s-rule" % sel["mode"], "grow(%s, %s) = %s: no order of additions follows the %s rule (edges %s, weights %s)" % (cl, sel["mode"], res, sel["mode"], g["edges"], sel.get("w"))))
    return out


def pred_swap(d):
    g, cl, sel, draws = d["graph"], d["clique"], d["sel"], d["draws"]
    G = mkgraph(g)
    adj = adjacency(g)
    arg = box(d, cl)
    r = call(CL.swap, arg, G, *ns(d), draws=draws)
    out = []
    if list(arg) != list(cl) or not _graph_unchanged(G, g):
        out.append(("swap:mutates-input", "swap changed its arguments"))
    cs = set(cl)
    invalid = (not cs <= set(g["nodes"])) or (not bf_clique(adj, cs)) or _weights_bad(g, sel)
    c1 = [(next(iter(cs - adj[v])), v) for v in g["nodes"] if v not in cs and len(cs & adj[v]) == len(cs) - 1] if not invalid else []
    if invalid:
        if r[0] != "ValueError":
            out.append(("swap:no-error", "invalid input accepted: %s" % (r,)))
        return out
    if sel["mode"] not in ("uniform", "degree", "weight"):
        if c1 and r[0] != "ValueError":
            out.append(("swap:no-error", "unknown node_select accepted"))
        return out
    if r[0] != "Ok":
        return out + [("swap:raises", "swap(%s) raised %s" % (cl, r[1:]))]
    res = list(r[1])
    rs = set(res)
    if res != sorted(rs) or not rs <= set(g["nodes"]):
        return out + [("swap:not-a-node-set", "swap returned %s" % res)]
    if not bf_clique(adj, rs):
        out.append(("swap:not-a-clique", "swap(%s) = %s is not a clique (edges %s)" % (cl, res, g["edges"])))
    if len(rs) != len(cs):
        out.append(("swap:size-changed", "swap(%s) = %s" % (cl, res)))
    if not c1:
        if rs != cs:
            out.append(("swap:changed-without-candidate", "C_1 is empty but swap(%s) = %s" % (cl, res)))
        return out
    if not out:
        w = wmap(g, sel["w"]) if sel["mode"] == "weight" else None
        if sel["mode"] == "degree":
            ok_in = best([p[1] for p in c1], lambda v: deg_full(adj, v))
        elif sel["mode"] == "weight":
            ok_in = best([p[1] for p in c1], lambda v: w[v])
        else:
            ok_in = {p[1] for p in c1}
        came, left = rs - cs, cs - rs
        if len(came) != 1 or len(left) != 1 or (next(iter(left)), next(iter(came))) not in c1:
            out.append(("swap:not-a-c1-swap", "swap(%s) = %s is not a swap along C_1 = %s" % (cl, res, c1)))
        elif next(iter(came)) not in ok_in:
            out.append(("swap:%s-rule" % sel["mode"], "swap(%s,%s) brought in %s, rule allows %s (weights %s)" % (cl, sel["mode"], sorted(came), sorted(ok_in), sel.get("w"))))
    return out


def pred_shrink(d):
    g, sub, sel, draws = d["graph"], d["sub"], d["sel"], d["draws"]
    G = mkgraph(g)
    adj = adjacency(g)
    arg = box(d, sub)
    r = call(CL.shrink, arg, G, *ns(d), draws=draws)
    out = []
    if list(arg) != list(sub) or not _graph_unchanged(G, g):
        out.append(("shrink:mutates-input", "shrink changed its arguments"))
    ss = set(sub)
    invalid = (not ss <= set(g["nodes"])) or _weights_bad(g, sel)
    if invalid:
        if r[0] != "ValueError":
            out.append(("shrink:no-error", "invalid input accepted: %s" % (r,)))
        return out
    if sel["mode"] not in ("uniform", "weight"):
        if not bf_clique(adj, ss) and r[0] != "ValueError":
            out.append(("shrink:no-error", "unknown node_select accepted"))
        return out
    if r[0] != "Ok":
        return out + [("shrink:raises", "shrink(%s) raised %s" % (sub, r[1:]))]
    res = list(r[1])
    rs = set(res)
    if res != sorted(rs) or not rs <= ss:
        return out + [("shrink:not-a-subset", "shrink(%s) = %s" % (sub, res))]
    if not bf_clique(adj, rs):
        out.append(("shrink:not-a-clique", "shrink(%s) = %s is not a clique (edges %s)" % (sub, res, g["edges"])))
    if bf_clique(adj, ss) and rs != ss:
        out.append(("shrink:shrinks-a-clique", "input %s is already a clique, shrink returned %s" % (sub, res)))
    if not out:
        w = wmap(g, sel["w"]) if sel["mode"] == "weight" else None

        def allowed(cur):
            if bf_clique(adj, cur):
                return set()
            c = best(cur, lambda v: deg_in(adj, v, cur), largest=False)
            if sel["mode"] == "weight":
                c = best(c, lambda v: w[v], largest=False)
            return c
        if not exists_order(ss, rs, allowed, False):
            out.append(("shrink:%s-rule" % sel["mode"], "shrink(%s, %s) = %s: no order of removals always takes a minimum-degree%s node (edges %s, weights %s)" % (sub, sel["mode"], res, " minimum-weight" if w else "", g["edges"], sel.get("w"))))
    return out


def pred_csearch(d):
    g, cl, sel, draws, iters = d["graph"], d["clique"], d["sel"], d["draws"], d["iterations"]
    G = mkgraph(g)
    adj = adjacency(g)
    arg = list(cl)
    r = call(CL.search, arg, G, iters, *ns(d), draws=draws)
    out = []
    if arg != list(cl) or not _graph_unchanged(G, g):
        out.append(("clique.search:mutates-input", "search changed its arguments"))
    cs = set(cl)
    invalid = iters < 1 or (not cs <= set(g["nodes"])) or (not bf_clique(adj, cs)) or _weights_bad(g, sel)
    if invalid:
        if r[0] != "ValueError":
            out.append(("clique.search:no-error", "invalid input accepted: %s" % (r,)))
        return out
    if sel["mode"] not in ("uniform", "degree", "weight"):
        return out if r[0] in ("Ok", "ValueError") else out + [("clique.search:raises", "search raised %s" % (r[1:],))]
    if r[0] != "Ok":
        return out + [("clique.search:raises", "search(%s, iterations=%d) raised %s" % (cl, iters, r[1:]))]
    res = list(r[1])
    rs = set(res)
    if res != sorted(rs) or not rs <= set(g["nodes"]):
        return out + [("clique.search:not-a-node-set", "search returned %s" % res)]
    if not bf_clique(adj, rs):
        out.append(("clique.search:not-a-clique", "search(%s) = %s is not a clique (edges %s)" % (cl, res, g["edges"])))
    if len(rs) < len(cs):
        out.append(("clique.search:smaller", "search(%s) = %s is smaller than its input clique" % (cl, res)))
    if not out:
        # the documented procedure: grow, swap, repeat with the same selection rule until nothing changes or the
        # iterations are used up — replayed with the implementation's own grow / swap on the same oracle stream
        def compose():
            o = Oracle(draws)
            with patched(o):
                cur, it = list(cl), iters
                while True:
                    grown = CL.grow(cur, G, *ns(d))
                    swapped = CL.swap(grown, G, *ns(d))
                    it -= 1
                    if set(grown) == set(swapped) or it == 0:
                        return list(swapped)
                    cur = swapped
        rc = call(compose)
        if rc[0] == "Ok" and sorted(rc[1]) != res:
            out.append(("clique.search:not-grow-swap-iteration", "search(%s, iterations=%d, %s) = %s, but iterating grow and swap with the same rule and random draws gives %s (edges %s, weights %s)" % (cl, iters, sel["mode"], res, sorted(rc[1]), g["edges"], sel.get("w"))))
    return out


def _resize_rules(g, adj, sel):
    w = wmap(g, sel["w"]) if sel["mode"] == "weight" else None

    def allowed_grow(cur):
        c = best([v for v in g["nodes"] if v not in cur], lambda v: deg_in(adj, v, cur))
        return best(c, lambda v: w[v]) if w else c

    def allowed_shrink(cur):
        c = best(cur, lambda v: deg_in(adj, v, cur), largest=False)
        return best(c, lambda v: w[v], largest=False) if w else c
    return allowed_grow, allowed_shrink


def check_resize_result(g, adj, sub, lo, hi, sel, res, tag="resize"):
    out = []
    ss = set(sub)
    k0 = len(ss)
    if not isinstance(res, dict) or sorted(res) != list(range(lo, hi + 1)):
        return [(tag + ":wrong-sizes", "resize(%s,%d,%d) has keys %s" % (sub, lo, hi, sorted(res) if isinstance(res, dict) else res))]
    for k, v in res.items():
        v = list(v)
        if len(v) != k or len(set(v)) != k or not set(v) <= set(g["nodes"]) or v != sorted(v):
            return [(tag + ":not-a-node-set", "resize(%s,%d,%d)[%d] = %s" % (sub, lo, hi, k, v))]
    if k0 in res and set(res[k0]) != ss:
        out.append((tag + ":start-changed", "resize(%s)[%d] = %s" % (sub, k0, res[k0])))
    ag, ash = _resize_rules(g, adj, sel)
    # growth chain: start -> sizes above k0 in increasing order
    cur = ss
    for k in range(max(k0 + 1, lo), hi + 1):
        nxt = set(res[k])
        if not cur <= nxt:
            out.append((tag + ":not-nested", "resize(%s): size %d = %s does not contain the previous %s" % (sub, k, sorted(nxt), sorted(cur))))
            break
        if not exists_order(cur, nxt, ag, True):
            out.append((tag + ":%s-rule-grow" % sel["mode"], "resize(%s,%d,%d,%s): going from %s to %s never adds a node of highest degree%s (edges %s, weights %s)" % (sub, lo, hi, sel["mode"], sorted(cur), sorted(nxt), "/highest weight" if sel["mode"] == "weight" else "", g["edges"], sel.get("w"))))
            break
        cur = nxt
    cur = ss
    for k in range(min(k0 - 1, hi), lo - 1, -1):
        nxt = set(res[k])
        if not nxt <= cur:
            out.append((tag + ":not-nested", "resize(%s): size %d = %s is not inside the previous %s" % (sub, k, sorted(nxt), sorted(cur))))
            break
        if not exists_order(cur, nxt, ash, False):
            out.append((tag + ":%s-rule-shrink" % sel["mode"], "resize(%s,%d,%d,%s): going from %s to %s never removes a node of lowest degree%s (edges %s, weights %s)" % (sub, lo, hi, sel["mode"], sorted(cur), sorted(nxt), "/lowest weight" if sel["mode"] == "weight" else "", g["edges"], sel.get("w"))))
            break
        cur = nxt
    return out


def resize_invalid(g, sub, lo, hi, sel):
    return ((not set(sub) <= set(g["nodes"])) or lo < 1 or hi >= len(g["nodes"]) or hi < lo or _weights_bad(g, sel)
            or sel["mode"] not in ("uniform", "weight"))


def pred_resize(d):
    g, sub, lo, hi, sel, draws = d["graph"], d["sub"], d["lo"], d["hi"], d["sel"], d["draws"]
    G = mkgraph(g)
    adj = adjacency(g)
    arg = box(d, sub)
    r = call(SG.resize, arg, G, lo, hi, *ns(d), draws=draws)
    out = []
    if list(arg) != list(sub) or not _graph_unchanged(G, g):
        out.append(("resize:mutates-input", "resize changed its arguments"))
    if resize_invalid(g, sub, lo, hi, sel):
        if r[0] != "ValueError":
            out.append(("resize:no-error", "invalid input accepted: %s" % (r[:2],)))
        return out
    if r[0] != "Ok":
        return out + [("resize:raises", "resize(%s,%d,%d) raised %s" % (sub, lo, hi, r[1:]))]
    return out + check_resize_result(g, adj, sub, lo, hi, sel, r[1])


def exact_density(adj, sub):
    sub = list(sub)
    n = len(sub)
    if n <= 1:
        return Fraction(0)
    e = sum(1 for i, u in enumerate(sub) for v in sub[i + 1:] if v in adj[u]) + sum(1 for u in sub if u in adj[u])
    return Fraction(2 * e, n * (n - 1))


def pred_search(d):
    g, subs, lo, hi, mc, sel, draws = d["graph"], d["subs"], d["lo"], d["hi"], d["max_count"], d["sel"], d["draws"]
    G = mkgraph(g)
    adj = adjacency(g)
    recorded = []
    orig = SG.resize

    def rec_resize(s, graph, a, b, ns="uniform"):
        r = orig(s, graph, a, b, ns)
        recorded.append((list(s), {k: list(v) for k, v in r.items()}))
        return r
    SG.resize = rec_resize
    try:
        if d.get("dflt") and mc == 10 and sel["mode"] == "uniform":
            r = call(SG.search, copy.deepcopy(subs), G, lo, hi, draws=draws)
        elif d.get("dflt") and mc == 10:
            r = call(SG.search, copy.deepcopy(subs), G, lo, hi, node_select=sel_arg(sel), draws=draws)
        else:
            r = call(SG.search, copy.deepcopy(subs), G, lo, hi, mc, sel_arg(sel), draws=draws)
    finally:
        SG.resize = orig
    out = []
    if not _graph_unchanged(G, g):
        out.append(("search:mutates-input", "search changed the graph"))
    if any(resize_invalid(g, s, lo, hi, sel) for s in subs):
        if r[0] != "ValueError":
            out.append(("search:no-error", "invalid input accepted"))
        return out
    if r[0] != "Ok":
        return out + [("search:raises", "search raised %s" % (r[1:],))]
    dense = r[1]
    if not subs:
        return out if dense == {} else out + [("search:nonempty", "no seeds but result %s" % dense)]
    if sorted(dense) != list(range(lo, hi + 1)):
        return out + [("search:wrong-sizes", "search over sizes %d..%d has keys %s" % (lo, hi, sorted(dense)))]
    for s, res in recorded:
        out += check_resize_result(g, adj, s, lo, hi, sel, res, tag="resize")
    if any(not sig.endswith(("-rule-grow", "-rule-shrink")) for sig, _ in out) or len(recorded) != len(subs):
        return out[:6]
    for k, lst in dense.items():
        cands = {}
        for s, res in recorded:
            cands[tuple(res[k])] = exact_density(adj, res[k])
        seen = set()
        prev = None
        for dens, nodes in lst:
            nodes = list(nodes)
            if len(nodes) != k or len(set(nodes)) != k or not set(nodes) <= set(g["nodes"]):
                out.append(("search:not-a-node-set", "search[%d] holds %s" % (k, nodes)))
                continue
            ex = exact_density(adj, nodes)
            if abs(float(ex) - dens) > 1e-12:
                out.append(("search:wrong-density", "search[%d]: nodes %s reported density %r, exact %s" % (k, nodes, dens, ex)))
            if tuple(sorted(nodes)) in seen:
                out.append(("search:duplicate", "search[%d] lists %s twice" % (k, nodes)))
            seen.add(tuple(sorted(nodes)))
            if tuple(sorted(nodes)) not in cands:
                out.append(("search:unknown-subgraph", "search[%d] lists %s which no resize produced" % (k, nodes)))
            if prev is not None and dens > prev + 1e-15:
                out.append(("search:not-sorted", "search[%d] densities not non-increasing" % k))
            prev = dens
        if mc >= 1:
            if len(lst) != min(mc, len(cands)):
                out.append(("search:wrong-count", "search[%d] keeps %d subgraphs; %d distinct candidates, max_count %d" % (k, len(lst), len(cands), mc)))
            elif lst:
                kept_min = min(exact_density(adj, n) for _, n in lst)
                dropped = [v for c, v in cands.items() if c not in seen]
                if dropped and max(dropped) > kept_min:
                    out.append(("search:drops-denser", "search[%d] dropped a candidate of density %s but kept one of %s" % (k, max(dropped), kept_min)))
    return out[:6]


def pred_update(d):
    """history of _update_subgraphs_list calls: bounded, sorted, duplicate-free, keeps the densest"""
    l0, steps, mc = d["l0"], d["steps"], d["max_count"]
    l = [(n / den, list(nodes)) for (n, den), nodes in l0]
    out = []
    every = {tuple(sorted(set(nodes))): Fraction(n, den) for (n, den), nodes in l0}
    for (nd, nodes), dr in steps:
        t = (nd[0] / nd[1], list(nodes))
        before = [(a, list(b)) for a, b in l]
        r = call(SG._update_subgraphs_list, l, t, mc, draws=[dr])
        if r[0] != "Ok":
            return [("update_list:raises", "_update_subgraphs_list raised %s" % (r[1:],))]
        key = tuple(sorted(set(nodes)))
        every.setdefault(key, Fraction(nd[0], nd[1]))
        keys = [tuple(s) for _, s in l]
        if len(keys) != len(set(keys)):
            out.append(("update_list:duplicate", "list holds a subgraph twice: %s" % l))
        if len(l) > max(mc, len(before)):
            out.append(("update_list:too-long", "list grew to %d > max_count %d" % (len(l), mc)))
        if any(l[i] < l[i + 1] for i in range(len(l) - 1)):
            out.append(("update_list:not-sorted", "list not sorted descending: %s" % l))
        if any(tuple(s) not in every or abs(float(every[tuple(s)]) - dd) > 1e-12 for dd, s in l):
            out.append(("update_list:foreign-entry", "list holds an entry that was never offered: %s" % l))
        bkeys = {tuple(s) for _, s in before}
        if key not in bkeys and len(before) >= mc >= 1 and before and t[0] > min(a for a, _ in before) and key not in set(keys):
            out.append(("update_list:drops-denser", "candidate %s denser than the minimum of %s was not inserted" % (t, before)))
        if key not in bkeys and len(before) < mc and key not in set(keys):
            out.append(("update_list:not-appended", "candidate %s not added to a list shorter than max_count" % (t,)))
        if out:
            break
    return out[:4]


REGRESSION_INPUTS = [
    ("card", {"orbit": [1], "modes": 24}),
    ("card", {"orbit": [1] * 10, "modes": 300}),
    ("card", {"orbit": [2, 1], "modes": 1}),
    ("event_card", {"photons": 5, "maxc": 4, "modes": 2}),
    ("event_card", {"photons": 9, "maxc": 3, "modes": 243}),
    ("e2s", {"photons": 5, "maxc": 4, "modes": 2, "draws": [0, 0], "perm": [0, 1]}),
    ("is_clique", {"graph": {"nodes": [0, 1], "edges": [[0, 0]]}, "sub": [0, 1]}),
    ("is_clique", {"graph": {"nodes": [0, 1, 2], "edges": [[0, 1], [1, 2], [0, 2], [1, 1]]}, "sub": [0, 1, 2]}),
    ("shrink", {"graph": {"nodes": [0, 1, 2, 3], "edges": [[0, 1], [0, 2], [0, 3], [1, 2]]}, "sub": [0, 1, 2, 3],
                "sel": {"mode": "weight", "w": [0, 0, 0, 0]}, "draws": [0, 0, 0, 0]}),
    ("resize", {"graph": {"nodes": [0, 1, 2], "edges": [[1, 2]]}, "sub": [2], "lo": 1, "hi": 2,
                "sel": {"mode": "weight", "w": [1, 1, 0]}, "draws": [0] * 8}),
    ("resize", {"graph": {"nodes": [0, 1, 2], "edges": [[0, 2]]}, "sub": [0, 1, 2], "lo": 1, "hi": 2,
                "sel": {"mode": "weight", "w": [1, 1, 0]}, "draws": [0] * 8}),
]

PREDS = {
    "card": pred_card, "event_card": pred_event_card, "orbits": pred_orbits, "convert": pred_convert,
    "o2s": pred_o2s, "e2s": pred_e2s, "sample": pred_sample, "is_clique": pred_is_clique, "c01": pred_c01,
    "grow": pred_grow, "swap": pred_swap, "shrink": pred_shrink, "resize": pred_resize, "search": pred_search,
    "update": pred_update, "csearch": pred_csearch, "s2o": pred_s2o, "mc": pred_mc, "pexact": pred_pexact, "fv": pred_fv, "fvs": pred_fvs,
}


def run_pred(ctx, kind, data, emit=True):
    try:
        del MUTATED[:]
        try:
            with time_limit(90.0):
                fails = list(PREDS[kind](data))
        except Hang:
            fails = [("%s:hangs" % kind, "the implementation did not return within 90 s on this input")]
        for name, i, before, after in MUTATED[:2]:
            fails.append(("%s:mutates-input" % name, "%s changed its argument #%d from %r to %r" % (name, i, before, after)))
        del MUTATED[:]
    except Exception as e:  # noqa: BLE001 — the implementation returned something the predicate cannot even inspect
        fails = [("%s:malformed-result" % kind, "checking the result failed with %s: %s" % (type(e).__name__, str(e)[:200]))]
    if emit:
        for sig, what in fails:
            ctx.counterexample(sig, what, dict(data, check=kind))
    return fails


# ======================================================================================
# generators


def gen_graph(rng, max_n=8, labels="small", loops=False):
    sizes = [1, 2, 3, 4, 4, 5, 5, 6, 6, 7, 7, 8, 8, 9, 10, 11, 12]
    n = rng.choice([k for k in sizes if k <= max_n])
    kind = rng.random()
    if labels in ("anytype", "anynum") and kind < 0.03:
        n = 0                                        # the empty graph
    if labels == "small":
        pool = list(range(8))
        nodes = sorted(rng.sample(pool, n)) if rng.random() < 0.5 else list(range(n))
    elif labels == "anytype" and kind < 0.15:
        nodes = ["n%d" % i for i in rng.sample(range(0, 30), n)]      # strings: "n10" < "n2"
    elif labels in ("anytype", "anynum") and kind < 0.27:
        nodes = [i + 0.5 for i in rng.sample(range(0, 30), n)]        # non-integer numbers
    else:
        style = rng.random()
        if style < 0.3:
            nodes = list(range(n))
        elif style < 0.6:
            nodes = rng.sample(range(0, 40), n)
        else:
            nodes = rng.sample(range(5, 300), n)
    if rng.random() < 0.6:
        rng.shuffle(nodes)
    p = rng.choice([0.2, 0.4, 0.5, 0.6, 0.75, 0.9, 1.0])
    edges = [[u, v] for i, u in enumerate(nodes) for v in nodes[i + 1:] if rng.random() < p]
    # plant a clique
    if n >= 3 and rng.random() < 0.5:
        kq = rng.randint(2, max(2, n - 1))
        q = rng.sample(nodes, kq)
        have = {frozenset(e) for e in edges}
        for i, u in enumerate(q):
            for v in q[i + 1:]:
                if frozenset((u, v)) not in have:
                    edges.append([u, v])
                    have.add(frozenset((u, v)))
    if loops and n:
        for u in rng.sample(nodes, rng.randint(1, min(2, n))):
            edges.append([u, u])
    rng.shuffle(edges)
    return {"nodes": nodes, "edges": edges}


def fresh_label(g):
    """a label that is not a node of g"""
    if not g["nodes"]:
        return 0
    if isinstance(g["nodes"][0], str):
        return "zz_not_a_node"
    return max(g["nodes"]) + 1


def gen_sel(rng, g, modes=("uniform", "degree", "weight"), bad=0.04):
    m = rng.choice(modes)
    n = len(g["nodes"])
    if rng.random() < bad:
        if rng.random() < 0.5:
            return {"mode": "weight", "w": [rng.randint(0, 3) for _ in range(n + rng.choice([-1, 1, 2]) if n > 1 else 2)]}
        return {"mode": rng.choice(["degrees", "random", "weight "])}
    if m == "weight":
        style = rng.random()
        if style < 0.5:
            w = [rng.randint(0, 2) for _ in range(n)]
        elif style < 0.8:
            w = [rng.randint(-3, 3) for _ in range(n)]
        else:
            w = rng.sample(range(-20, 20), n) if n <= 40 else list(range(n))
        return {"mode": "weight", "w": w, "array": rng.random() < 0.4}
    return {"mode": m}


def gen_draws(rng, k=14):
    return [rng.choice([0, 0, 1, 2, 3, 5, 7, 11]) for _ in range(k)]


def find_clique(rng, g):
    adj = adjacency(g)
    nodes = list(g["nodes"])
    rng.shuffle(nodes)
    cl = []
    size = rng.randint(0, 4)
    for v in nodes:
        if len(cl) >= size:
            break
        if all(v in adj[u] for u in cl):
            cl.append(v)
    return cl


def gen_sub(rng, g, lo=0):
    n = len(g["nodes"])
    k = rng.randint(min(lo, n), n)
    sub = rng.sample(g["nodes"], k)
    if rng.random() < 0.1 and sub:
        sub.append(sub[0])  # duplicate entry
    return sub


def gen_clique_case(rng, kind, max_n, labels):
    g = gen_graph(rng, max_n=max_n, labels=labels, loops=rng.random() < 0.15)
    sel = gen_sel(rng, g, modes=("uniform", "weight") if kind == "shrink" else ("uniform", "degree", "weight"))
    d = {"graph": g, "sel": sel, "draws": gen_draws(rng), "dflt": rng.random() < 0.4, "container": rng.choice(["list", "list", "tuple", "array"])}
    if kind in ("grow", "swap"):
        cl = find_clique(rng, g)
        r = rng.random()
        if r < 0.05:
            cl = gen_sub(rng, g)          # probably not a clique
        elif r < 0.08:
            cl = cl + [fresh_label(g)]  # not a subgraph
        elif r < 0.15 and cl:
            cl = cl + [cl[0]]
        d["clique"] = cl
    else:
        sub = gen_sub(rng, g, lo=2 if rng.random() < 0.8 else 0)
        if rng.random() < 0.03:
            sub = sub + [fresh_label(g)]
        d["sub"] = sub
    return d


def gen_resize_case(rng, max_n, labels):
    g = gen_graph(rng, max_n=max_n, labels=labels, loops=rng.random() < 0.15)
    n = len(g["nodes"])
    sel = gen_sel(rng, g, modes=("uniform", "weight", "weight"))
    sub = gen_sub(rng, g, lo=1)
    r = rng.random()
    if n >= 2 and r < 0.9:
        lo = rng.randint(1, n - 1)
        hi = rng.randint(lo, n - 1)
        if rng.random() < 0.4:
            lo, hi = 1, n - 1
    else:
        lo, hi = rng.randint(0, n + 1), rng.randint(0, n + 1)
    if rng.random() < 0.03:
        sub = sub + [fresh_label(g)]
    return {"graph": g, "sub": sub, "lo": lo, "hi": hi, "sel": sel, "draws": gen_draws(rng, 24), "dflt": rng.random() < 0.4,
            "container": rng.choice(["list", "list", "tuple", "array"])}


def gen_search_case(rng, max_n, labels):
    d = gen_resize_case(rng, max_n, labels)
    g = d["graph"]
    subs = [gen_sub(rng, g, lo=1) for _ in range(rng.randint(0, 6))]
    if rng.random() < 0.5 and subs:
        subs.append(list(subs[0]))
    d.pop("sub")
    d["subs"] = subs
    d["max_count"] = rng.choice([1, 1, 2, 3, 10, 10])
    d["draws"] = gen_draws(rng, 80)
    return d


def gen_update_case(rng):
    dens = [(0, 1), (1, 2), (1, 2), (2, 4), (1, 3), (2, 3), (4, 6), (1, 1), (3, 4), (5, 6), (1, 6)]
    k = rng.randint(1, 3)
    dens_of = {}

    def ent():
        s = sorted(rng.sample(range(6), k))
        dd = dens_of.setdefault(tuple(s), list(rng.choice(dens)))   # density is a function of the node set
        return [list(dd), s]
    l0 = [ent()]
    steps = []
    for _ in range(rng.randint(1, 8)):
        e = ent()
        if rng.random() < 0.2:
            rng.shuffle(e[1])
            e[1] = e[1] + e[1][:1]
        steps.append([e, rng.choice([0, 1, 2, 3])])
    return {"l0": l0, "steps": steps, "max_count": rng.choice([1, 2, 2, 3, 4])}


def gen_orbit(rng, kmax=12):
    k = rng.randint(1, kmax)
    parts = []
    while k > 0:
        p = rng.randint(1, min(k, rng.choice([1, 2, 3, 5, 12])))
        parts.append(p)
        k -= p
    return sorted(parts, reverse=True)


def gen_modes(rng, lo):
    r = rng.random()
    if r < 0.3:
        return rng.randint(lo, lo + 8)
    if r < 0.55:
        return max(lo, rng.randint(18, 40))
    if r < 0.8:
        return max(lo, rng.randint(40, 175))
    return max(lo, rng.randint(165, 300))


def _smallest_m(count, lo, thr, hi=300):
    """smallest mode count m in [lo, hi] with count(m) >= thr (count is monotone in m); None if unreachable"""
    if count(hi) < thr:
        return None
    while lo < hi:
        mid = (lo + hi) // 2
        if count(mid) >= thr:
            hi = mid
        else:
            lo = mid + 1
    return lo


THRESHOLDS = (2 ** 53, 2 ** 63, 2 ** 64)
EVENT_SHAPES = [(12, 1), (16, 1), (20, 1), (14, 2), (18, 2), (24, 2), (15, 3), (22, 3), (28, 4), (12, 12), (20, 20), (30, 30)]
ORBIT_SHAPES = [[1] * 12, [1] * 20, [2] * 8, [3, 2, 2, 1, 1, 1], [5, 4, 3, 2, 1], [2, 2, 2, 2, 1, 1, 1, 1, 1, 1], [7, 7], [4] * 5 + [1] * 9]


def _straddling_events():
    out = [(16, 2, 100), (18, 2, 80), (22, 3, 60), (24, 24, 50), (30, 30, 40), (14, 1, 200), (20, 2, 150)]
    for k, c in EVENT_SHAPES:
        for thr in THRESHOLDS:
            m = _smallest_m(lambda mm: exact_event_card(k, c, mm), max(1, -(-k // c)), thr)
            if m is not None:
                out += [(k, c, m - 1), (k, c, m)]     # just below / at-or-above 2^53, 2^63, 2^64
    return list(dict.fromkeys(out))


def _straddling_orbits():
    out = []
    for o in ORBIT_SHAPES:
        for thr in THRESHOLDS:
            m = _smallest_m(lambda mm: exact_orbit_card(o, mm), len(o), thr)
            if m is not None:
                out += [(o, m - 1), (o, m)]
    return out


LARGE_EVENT_CASES = _straddling_events()
LARGE_ORBIT_CASES = _straddling_orbits()
# the part of the deterministic list that is also evaluated by the Coq model in the quick tier (cost ~1-4 s each)
LARGE_EVENT_COQ_QUICK = [(16, 2, 100), (22, 3, 60), (24, 24, 50), (14, 1, 200), (20, 2, 150), (16, 1, 112), (15, 3, 68), (12, 12, 208)]


def gen_large_event(rng, kmax=30):
    """(photons, max count, modes) whose event has between 2^50 and 2^90 samples"""
    for _ in range(20):
        k = rng.randint(8, kmax)
        c = rng.choice([1, 2, 3, k, rng.randint(1, k)])
        bits = rng.choice([50, 52, 53, 54, 60, 62, 63, 64, 65, 66, 70, 80, 90])
        m = _smallest_m(lambda mm: exact_event_card(k, c, mm), max(1, -(-k // c)), 2 ** bits)
        if m is not None:
            return k, c, min(300, m + rng.choice([0, 0, 1, 2, 5]))
    return 16, 2, 100


def gen_large_orbit(rng, kmax=30):
    for _ in range(20):
        o = gen_orbit(rng, kmax)
        bits = rng.choice([50, 52, 53, 54, 60, 62, 63, 64, 65, 66, 70, 80, 100])
        m = _smallest_m(lambda mm: exact_orbit_card(o, mm), len(o), 2 ** bits)
        if m is not None:
            return o, min(300, m + rng.choice([0, 0, 1, 2, 5]))
    return [1] * 12, 119


def gen_samples(rng, n, cnt):
    return [[rng.choice([0, 0, 0, 1, 1, 2, 3]) for _ in range(n)] for _ in range(cnt)]


# ======================================================================================
# Coq rendering


def L(xs):
    return "[" + "; ".join(str(int(x)) for x in xs) + "]"


def LL(xss):
    return "[" + "; ".join(L(x) for x in xss) + "]"


def E(g):
    return "[" + "; ".join("(%d, %d)" % (u, v) for u, v in g["edges"]) + "]"


def ZL(xs):
    return "[" + "; ".join("(%d)%%Z" % int(x) for x in xs) + "]"


def SEL(sel):
    if sel["mode"] == "uniform":
        return "Uniform"
    if sel["mode"] == "degree":
        return "Degree"
    if sel["mode"] == "weight":
        return "(Weight %s)" % ZL(sel["w"])
    return "Other"


def ENT(e):
    (n, den), nodes = e
    return "((%d, %d), %s)" % (n, den, L(nodes))


HEADER = ("From Coq Require Import List Arith NArith ZArith Bool.\nImport ListNotations.\n"
          "From SFV Require Import C19.Similarity C19.Clique C19.Subgraph.\n")


def table_order(G, sub, as_set):
    """row order of np.array(subgraph.degree) of the copied subgraph — read from networkx"""
    return list(G.subgraph(set(sub) if as_set else sub).copy().nodes())


def canon_res(r):
    """implementation result of a clique routine -> comparable value"""
    if r[0] == "Ok":
        return ("Ok", [int(x) for x in r[1]])
    return (r[0],) if r[0] == "ValueError" else r


def canon_model_res(v):
    if isinstance(v, tuple) and v[0] == "Ok":
        return ("Ok", list(v[1]))
    if v == "Ok":
        return ("Ok", [])
    return ("ValueError",)


def canon_model_rres(v):
    if isinstance(v, tuple) and v[0] == "ROk":
        return ("Ok", {int(k): list(s) for k, s in v[1]})
    if v == "ROk":
        return ("Ok", {})
    return ("ValueError",)


class Batch:
    """cases of one kind: Coq expression text + implementation value + json"""

    def __init__(self):
        self.items = {}

    def add(self, kind, expr, impl, data, cmp=None):
        self.items.setdefault(kind, []).append((expr, impl, data, cmp))


def small_ok(g):
    return all(0 <= v < 8 for v in g["nodes"])


def correspondence(ctx):
    rng = ctx.rng
    B = Batch()
    scale = ctx.budget(2, 24)

    # ---- similarity
    for _ in range(60 * scale):
        m = rng.randint(1, 12)
        s = [rng.choice([0, 0, 1, 1, 2, 3, 5]) for _ in range(m)]
        c = rng.randint(0, 5)
        try:
            impl = (list(must(SI.sample_to_orbit, list(s))), must(SI.sample_to_event, list(s), c))
        except ImplFailure:
            run_pred(ctx, "s2o", {"sample": s, "maxc": c})
            continue
        B.add("orbit", "(sample_to_orbit %s, sample_to_event %s %d)" % (L(s), L(s), c), impl, {"sample": s, "maxc": c})
    for n in range(0, ctx.budget(19, 28)):
        try:
            impl = [list(o) for o in must(lambda nn: list(SI.orbits(nn)), n)]
        except ImplFailure:
            run_pred(ctx, "orbits", {"photons": n})
            continue
        B.add("orbits", "(orbits %d, orbits_finished %d)" % (n, n), impl, {"photons": n})
    for _ in range(70 * scale):
        o = gen_orbit(rng)
        m = gen_modes(rng, len(o))
        B.add("card", "orbit_cardinality %s %d" % (L(o), m), call(SI.orbit_cardinality, list(o), m), {"orbit": o, "modes": m})
    for _ in range(25 * scale):
        k = rng.randint(0, 9)
        c = rng.randint(1, 4)
        m = gen_modes(rng, k)
        B.add("event_card", "event_cardinality %d %d %d" % (k, c, m), call(SI.event_cardinality, k, c, m), {"photons": k, "maxc": c, "modes": m})
    # results around and beyond 2^53 / 2^63 / 2^64: deterministic list + random shapes
    big_orbits = list(LARGE_ORBIT_CASES) + [gen_large_orbit(rng) for _ in range(6 * scale)]
    for o, m in big_orbits:
        B.add("card", "orbit_cardinality %s %d" % (L(o), m), call(SI.orbit_cardinality, list(o), m), {"orbit": list(o), "modes": m})
    big_events = list(LARGE_EVENT_COQ_QUICK if ctx.quick else LARGE_EVENT_CASES) + [gen_large_event(rng, 22) for _ in range(ctx.budget(3, 40))]
    for k, c, m in big_events:
        B.add("event_card", "event_cardinality %d %d %d" % (k, c, m), call(SI.event_cardinality, k, c, m), {"photons": k, "maxc": c, "modes": m})
    for _ in range(25 * scale):
        o = gen_orbit(rng, 8)
        m = rng.randint(max(0, len(o) - 1), len(o) + 6)
        perm = list(range(m))
        rng.shuffle(perm)
        B.add("o2s", "orbit_to_sample %s %d %s" % (L(o), m, L(perm)), call(SI.orbit_to_sample, list(o), m, perm=perm), {"orbit": o, "modes": m, "perm": perm})
    for _ in range(20 * scale):
        k, c = rng.randint(0, 8), rng.randint(0, 4)
        m = rng.randint(1, max(k, 1) + 8)
        perm = list(range(m))
        rng.shuffle(perm)
        dr = gen_draws(rng, 2)
        B.add("e2s", "event_to_sample %d %d %d %d %s" % (k, c, m, dr[0], L(perm)), call(SI.event_to_sample, k, c, m, draws=dr, perm=perm),
              {"photons": k, "maxc": c, "modes": m, "draws": dr, "perm": perm})
    for _ in range(20 * scale):
        g = gen_graph(rng, max_n=8, labels="small" if rng.random() < 0.5 else "any")
        n = len(g["nodes"])
        samples = gen_samples(rng, n, rng.randint(1, 5))
        lo, hi = rng.randint(0, 3), rng.randint(2, 8)
        G = mkgraph(g)
        try:
            impl = (must(SA.postselect, copy.deepcopy(samples), lo, hi), [list(must(SA.modes_from_counts, list(s))) for s in samples],
                    [sorted(x) for x in must(SA.to_subgraphs, copy.deepcopy(samples), G)])
        except (ImplFailure, TypeError):
            if not run_pred(ctx, "sample", {"samples": samples, "lo": lo, "hi": hi, "graph": g}):
                ctx.counterexample("sample:raises", "postselect / modes_from_counts / to_subgraphs failed on %s" % (samples,), {"check": "sample", "samples": samples, "lo": lo, "hi": hi, "graph": g})
            continue
        B.add("sample", "(postselect %s %d %d, map modes_from_counts %s, map (to_subgraph %s) %s)" % (LL(samples), lo, hi, LL(samples), L(g["nodes"]), LL(samples)),
              impl, {"samples": samples, "lo": lo, "hi": hi, "graph": g})

    # ---- clique (labels 0..7: CPython set order is ascending)
    for _ in range(30 * scale):
        g = gen_graph(rng, max_n=8, labels="small", loops=rng.random() < 0.25)
        sub = gen_sub(rng, g)
        G = mkgraph(g)
        B.add("is_clique", "(is_clique (adj_of %s) %s, is_clique_pre_eefbefe (adj_of %s) %s)" % (E(g), L(sorted(set(sub))), E(g), L(sorted(set(sub)))),
              call(lambda: bool(CL.is_clique(G.subgraph(sub))))[1:2], {"graph": g, "sub": sub})
    for _ in range(30 * scale):
        g = gen_graph(rng, max_n=8, labels="small")
        cl = find_clique(rng, g)
        G = mkgraph(g)
        r0, r1 = call(CL.c_0, list(cl), G), call(CL.c_1, list(cl), G)
        if r0[0] == "Ok" and r1[0] == "Ok":
            B.add("c01", "(c_0 (adj_of %s) %s %s, c_1 (adj_of %s) %s %s)" % (E(g), L(g["nodes"]), L(cl), E(g), L(g["nodes"]), L(cl)),
                  (sorted(int(x) for x in r0[1]), [(int(a), int(b)) for a, b in r1[1]]), {"graph": g, "clique": cl})
    for kind, fn in (("grow", CL.grow), ("swap", CL.swap)):
        for _ in range(45 * scale):
            d = gen_clique_case(rng, kind, 8, "small")
            g = d["graph"]
            G = mkgraph(g)
            impl = canon_res(call(fn, list(d["clique"]), G, sel_arg(d["sel"]), draws=d["draws"]))
            okc = all(0 <= v < 4000 for v in d["clique"])
            if okc:
                B.add(kind, "%s (adj_of %s) %s %s %s %s" % (kind, E(g), L(g["nodes"]), SEL(d["sel"]), L(d["clique"]), L(d["draws"])), impl, d)
    for _ in range(30 * scale):
        d = gen_clique_case(rng, "grow", 8, "small")
        d["iterations"] = rng.choice([0, 1, 1, 2, 3, 5, 10])
        d["draws"] = gen_draws(rng, 40)
        g = d["graph"]
        G = mkgraph(g)
        impl = canon_res(call(CL.search, list(d["clique"]), G, d["iterations"], sel_arg(d["sel"]), draws=d["draws"]))
        if all(0 <= v < 4000 for v in d["clique"]):
            B.add("csearch", "csearch (adj_of %s) %s %d %s %s %s" % (E(g), L(g["nodes"]), d["iterations"], SEL(d["sel"]), L(d["clique"]), L(d["draws"])), impl, d)
    for _ in range(60 * scale):
        d = gen_clique_case(rng, "shrink", 8, "small")
        g = d["graph"]
        G = mkgraph(g)
        impl = canon_res(call(CL.shrink, list(d["sub"]), G, sel_arg(d["sel"]), draws=d["draws"]))
        try:
            tbl = table_order(G, d["sub"], False)
        except Exception:  # noqa: BLE001
            tbl = None
        if tbl is None or not set(d["sub"]) <= set(g["nodes"]):
            tbl = list(dict.fromkeys(d["sub"]))
        ex = "(shrink (adj_of {e}) {n} false {s} {t} {dr}, shrink (adj_of {e}) {n} true {s} {t} {dr})".format(
            e=E(g), n=L(g["nodes"]), s=SEL(d["sel"]), t=L(tbl), dr=L(d["draws"]))
        B.add("shrink", ex, impl, dict(d, tbl=tbl))
    for _ in range(70 * scale):
        d = gen_resize_case(rng, 8, "small")
        g = d["graph"]
        G = mkgraph(g)
        r = call(SG.resize, list(d["sub"]), G, d["lo"], d["hi"], sel_arg(d["sel"]), draws=d["draws"])
        impl = ("Ok", {int(k): [int(x) for x in v] for k, v in r[1].items()}) if r[0] == "Ok" else canon_res(r)
        if set(d["sub"]) <= set(g["nodes"]):
            tbl = table_order(G, d["sub"], True)
        else:
            tbl = list(dict.fromkeys(d["sub"]))
        ex = "(resize (adj_of {e}) {n} false {s} {t} {lo} {hi} {dr}, resize (adj_of {e}) {n} true {s} {t} {lo} {hi} {dr})".format(
            e=E(g), n=L(g["nodes"]), s=SEL(d["sel"]), t=L(tbl), lo=d["lo"], hi=d["hi"], dr=L(d["draws"]))
        B.add("resize", ex, impl, dict(d, tbl=tbl))
    for _ in range(40 * scale):
        d = gen_update_case(rng)
        l = [(n / den, list(nodes)) for (n, den), nodes in d["l0"]]
        ok = True
        for (nd, nodes), dr in d["steps"]:
            r = call(SG._update_subgraphs_list, l, (nd[0] / nd[1], list(nodes)), d["max_count"], draws=[dr])
            ok = ok and r[0] == "Ok"
        impl = [(float(a), [int(x) for x in b]) for a, b in l] if ok else ("Raise",)
        steps = "[" + "; ".join("(%s, %d)" % (ENT(e), dr) for e, dr in d["steps"]) + "]"
        ex = "fold_left (fun l td => fst (update_list l (fst td) %d (snd td))) %s [%s]" % (d["max_count"], steps, ENT(d["l0"][0]))
        B.add("update", ex, impl, d)
    for _ in range(20 * scale):
        d = gen_search_case(rng, 7, "small")
        g = d["graph"]
        if any(not set(s) <= set(g["nodes"]) for s in d["subs"]):
            continue
        G = mkgraph(g)
        r = call(SG.search, copy.deepcopy(d["subs"]), G, d["lo"], d["hi"], d["max_count"], sel_arg(d["sel"]), draws=d["draws"])
        impl = ("Ok", {int(k): [(float(a), [int(x) for x in b]) for a, b in v] for k, v in r[1].items()}) if r[0] == "Ok" else canon_res(r)
        tbls = [table_order(G, s, True) for s in d["subs"]]
        ex = "(search_loop (adj_of {e}) {n} false {s} {t} {lo} {hi} {mc} [] {dr}, search_loop (adj_of {e}) {n} true {s} {t} {lo} {hi} {mc} [] {dr})".format(
            e=E(g), n=L(g["nodes"]), s=SEL(d["sel"]), t=LL(tbls), lo=d["lo"], hi=d["hi"], mc=d["max_count"], dr=L(d["draws"]))
        B.add("search", ex, impl, dict(d, tbls=tbls))

    # ---- evaluate the models
    kinds = list(B.items)
    model = {}
    shard = 150
    jobs = []
    for kind in kinds:
        its = B.items[kind]
        for s0 in range(0, len(its), shard):
            jobs.append((kind, s0, its[s0:s0 + shard]))
    for kind, s0, its in jobs:
        text = HEADER + "Eval vm_compute in [\n" + ";\n".join(it[0] for it in its) + "\n]."
        ok, vals, raw = ctx.coq_eval("cases_%s_%d" % (kind, s0), text, timeout=600)
        if not ok or not vals or len(vals[0]) != len(its):
            ctx.obligation("correspondence:%s:shard%d" % (kind, s0), False, raw[-2500:])
            return
        model.setdefault(kind, []).extend(vals[0])
    ctx.traces += sum(len(v) for v in B.items.values())

    pending = []
    old_variant_hits = []
    for kind in kinds:
        for (expr, impl, data, _), mv in zip(B.items[kind], model[kind]):
            nontrivial = False
            agree = None
            pk = kind
            if kind == "orbit":
                mo = (list(mv[0]), mv[1][1] if isinstance(mv[1], tuple) else None)
                agree = (impl[0], impl[1]) == mo
                pk = "s2o"
            elif kind == "orbits":
                agree = impl == [list(o) for o in mv[0]] and mv[1] is True
            elif kind in ("card", "event_card"):
                nontrivial = data["modes"] > 22
                if impl[0] == "Ok":
                    try:
                        agree = int(impl[1]) == mv and impl[1] == mv
                    except (OverflowError, ValueError):
                        agree = False
                else:
                    agree = False
            elif kind in ("o2s", "e2s"):
                mo = ("Ok", list(mv[1])) if isinstance(mv, tuple) else ("ValueError",)
                agree = canon_res(impl) == mo
            elif kind == "sample":
                agree = (impl[0] == [list(x) for x in mv[0]] and impl[1] == [list(x) for x in mv[1]] and impl[2] == [list(x) for x in mv[2]])
            elif kind == "is_clique":
                # mv = (source: self-loops not counted, OLD variant before eefbefe: counted)
                impl = impl[0] if impl and isinstance(impl[0], bool) else impl
                agree = impl == mv[0]
                if not agree and impl == mv[1]:
                    old_variant_hits.append("is_clique counts self-loops again (variant before commit eefbefe)")
                mv = mv[0]
            elif kind == "c01":
                m0, m1 = list(mv[0]), [tuple(p) for p in mv[1]]
                agree = impl[0] == m0 and sorted(impl[1]) == sorted(m1)
                if agree and impl[1] != m1:
                    ctx.notes.append("c_1 enumeration order differs from ascending on %s" % (data["graph"]["nodes"],))
            elif kind in ("grow", "swap", "csearch"):
                nontrivial = len(data["graph"]["nodes"]) >= 4 and data["sel"]["mode"] in ("degree", "weight")
                agree = impl == canon_model_res(mv)
            elif kind == "shrink":
                nontrivial = len(data["graph"]["nodes"]) >= 4 and data["sel"]["mode"] == "weight"
                mb, mf = canon_model_res(mv[0]), canon_model_res(mv[1])
                pending.append((kind, data, impl, mb, mf))
                ctx.case({"kind": kind, **{k: v for k, v in data.items() if k != "draws"}}, nontrivial=nontrivial, bucket="corr-" + kind)
                continue
            elif kind == "resize":
                nontrivial = len(data["graph"]["nodes"]) >= 4 and data["sel"]["mode"] == "weight"
                mb, mf = canon_model_rres(mv[0]), canon_model_rres(mv[1])
                pending.append((kind, data, impl, mb, mf))
                ctx.case({"kind": kind, **{k: v for k, v in data.items() if k != "draws"}}, nontrivial=nontrivial, bucket="corr-" + kind)
                continue
            elif kind == "update":
                nontrivial = len(data["steps"]) >= 2
                mo = [(n / den, list(nodes)) for n, den, nodes in mv]
                agree = impl == mo
            elif kind == "search":
                nontrivial = len(data["subs"]) >= 2

                def cs(v):
                    if v is None:
                        return ("ValueError",)
                    return ("Ok", {int(k): [(n / den, list(nodes)) for n, den, nodes in lst] for k, lst in v[1]})
                mb, mf = cs(mv[0]), cs(mv[1])
                pending.append((kind, data, impl, mb, mf))
                ctx.case({"kind": kind, "graph": data["graph"], "subs": data["subs"], "lo": data["lo"], "hi": data["hi"]}, nontrivial=nontrivial, bucket="corr-" + kind)
                continue
            ctx.case({"kind": kind, **{k: v for k, v in data.items() if k != "draws"}}, nontrivial=nontrivial, bucket="corr-" + kind)
            if not agree:
                fails = run_pred(ctx, pk, data) if pk else []
                if not fails:
                    ctx.disagreement("corr:" + kind, "model %r vs implementation %r" % (mv, impl), dict(data, check=kind, model=repr(mv)[:600], impl=repr(impl)[:600]))

    # shrink / resize / search: the model of record is the `fixed := true` instance; the OLD variant (before commit
    # 5c60841) is evaluated too, only to name a regression
    for kind, data, impl, m_old, m_cur in pending:
        if impl != m_cur:
            fails = run_pred(ctx, kind, data)
            is_old = impl == m_old
            if is_old:
                old_variant_hits.append("%s follows the weight-mode indexing of before commit 5c60841" % kind)
            if not fails:
                ctx.disagreement("corr:" + kind + (":pre5c60841-variant" if is_old else ""),
                                 "model %r vs implementation %r%s" % (m_cur, impl, " (= the OLD pre-5c60841 variant)" if is_old else ""),
                                 dict(data, check=kind, model=repr(m_cur)[:600], impl=repr(impl)[:600]))
    if old_variant_hits:
        ctx.notes.append("REGRESSION to an old variant detected: %s" % sorted(set(old_variant_hits)))
    ctx.extra["old_variant_hits"] = len(old_variant_hits)


# ======================================================================================


def search(ctx):
    rng = ctx.rng
    scale = ctx.budget(2, 24)

    def go(kind, data, nontrivial=False):
        fails = run_pred(ctx, kind, data)
        ctx.case({"kind": kind, **{k: v for k, v in data.items() if k not in ("draws", "perm")}}, nontrivial=nontrivial, bucket="search-" + kind)
        return fails

    # inputs of defects that were repaired in /repo (87b9aa4, 5c60841, eefbefe): must stay repaired
    for kind, data in REGRESSION_INPUTS:
        go(kind, copy.deepcopy(data), True)

    # corpus first: minimised past failures / recorded findings
    import glob
    import json
    import os
    for path in sorted(glob.glob(os.path.join(os.path.dirname(ctx.work.rstrip("/")), "..", "corpus", "C19-*.json"))):
        try:
            dd = json.load(open(path))["data"]
        except (OSError, ValueError, KeyError):
            continue
        if dd.get("check") in PREDS:
            data = {k: v for k, v in dd.items() if k != "check"}
            fails = run_pred(ctx, dd["check"], data)
            ctx.case({"kind": "corpus", "file": os.path.basename(path), "fails": [f[0] for f in fails]}, nontrivial=True, bucket="corpus")

    # cardinalities: exact integers for every mode count
    for _ in range(150 * scale):
        o = gen_orbit(rng)
        m = gen_modes(rng, len(o))
        go("card", {"orbit": o, "modes": m}, m > 22)
        if len(o) >= 2 and rng.random() < 0.15:
            go("card", {"orbit": o, "modes": rng.randint(1, len(o) - 1)})
    for m in (1, 2, 22, 23, 24, 25, 170, 171, 172, 300):
        for o in ([1], [1, 1], [2, 1], [3, 2, 1], [2, 2, 1, 1]):
            if len(o) <= m:
                go("card", {"orbit": o, "modes": m}, m > 22)
    for _ in range(40 * scale):
        k = rng.randint(0, 10)
        c = rng.randint(1, 4)
        m = gen_modes(rng, max(k, 1)) if rng.random() < 0.75 else rng.randint(1, max(1, k))
        go("event_card", {"photons": k, "maxc": c, "modes": m}, m > 22)
    # fixed-width arithmetic breaks around 2^53 (float64), 2^63 (int64), 2^64 (uint64): deterministic list on every
    # run + random shapes; exact Python reference, exact sum over orbits, and the Monte Carlo prefactor
    for o, m in LARGE_ORBIT_CASES:
        go("card", {"orbit": list(o), "modes": m}, True)
    for k, c, m in LARGE_EVENT_CASES:
        go("event_card", {"photons": k, "maxc": c, "modes": m}, True)
    for i, (k, c, m) in enumerate(LARGE_EVENT_CASES):
        if i % ctx.budget(4, 1) == 0 and k <= 24:
            perm = list(range(m))
            rng.shuffle(perm)
            go("mc", {"photons": k, "maxc": c, "modes": m, "samples": rng.choice([1, 3]), "draws": gen_draws(rng, 4), "perm": perm}, True)
    for i, (o, m) in enumerate(LARGE_ORBIT_CASES):
        if i % ctx.budget(3, 1) == 0:
            perm = list(range(m))
            rng.shuffle(perm)
            go("mc", {"photons": sum(o), "maxc": max(o), "modes": m, "orbit": list(o), "samples": rng.choice([1, 3]), "draws": gen_draws(rng, 4), "perm": perm}, True)
    for _ in range(12 * scale):
        o, m = gen_large_orbit(rng)
        go("card", {"orbit": o, "modes": m}, True)
    for _ in range(6 * scale):
        k, c, m = gen_large_event(rng, ctx.budget(24, 30))
        go("event_card", {"photons": k, "maxc": c, "modes": m}, True)
    for _ in range(2 * scale):
        k, c, m = gen_large_event(rng, 20)
        perm = list(range(m))
        rng.shuffle(perm)
        go("mc", {"photons": k, "maxc": c, "modes": m, "samples": rng.choice([1, 2, 5]), "draws": gen_draws(rng, 6), "perm": perm}, True)
    for _ in range(3 * scale):
        k, c, m = rng.randint(1, 8), rng.randint(1, 4), rng.randint(1, 12)
        if c * m >= k:
            perm = list(range(m))
            rng.shuffle(perm)
            go("mc", {"photons": k, "maxc": c, "modes": m, "samples": rng.choice([1, 2, 5]), "draws": gen_draws(rng, 6), "perm": perm})
    for n in range(0, ctx.budget(23, 35)):
        go("orbits", {"photons": n})
    for _ in range(6 * scale):
        k, m = rng.randint(0, 6), rng.randint(1, 5)
        if (k + 1) ** m <= 20000:
            go("convert", {"photons": k, "maxc": rng.randint(1, 4), "modes": m})
    for _ in range(40 * scale):
        o = gen_orbit(rng, 10)
        m = rng.randint(max(0, len(o) - 1), len(o) + 30)
        perm = list(range(m))
        rng.shuffle(perm)
        go("o2s", {"orbit": o, "modes": m, "perm": perm})
    for _ in range(30 * scale):
        k, c, m = rng.randint(0, 9), rng.randint(0, 4), rng.randint(1, 30)
        perm = list(range(m))
        rng.shuffle(perm)
        go("e2s", {"photons": k, "maxc": c, "modes": m, "draws": gen_draws(rng, 2), "perm": perm}, m > 22)
    for _ in range(30 * scale):
        g = gen_graph(rng, max_n=12, labels="anytype")
        n = len(g["nodes"])
        go("sample", {"samples": gen_samples(rng, n, rng.randint(1, 5)) + ([[1] * (n + 1)] if rng.random() < 0.1 else []),
                      "lo": rng.randint(0, 3), "hi": rng.randint(2, 9), "graph": g, "as_array": rng.random() < 0.3})
    for _ in range(20 * scale):
        m = rng.randint(1, 14)
        go("s2o", {"sample": [rng.choice([0, 0, 0, 1, 1, 2, 3, 5, 9]) for _ in range(m)], "maxc": rng.randint(0, 9), "as_array": rng.random() < 0.4})
    # ---- deterministic small sweeps (boundaries of every guard and comparison)
    for k in range(0, 5):
        for m in range(1, 5):
            for c in (1, 2, 3):
                go("convert", {"photons": k, "maxc": c, "modes": m})
    for n in range(1, 7):
        for o in ref_partitions(n):
            for m in (len(o) - 1, len(o), len(o) + 1):
                if m >= 0:
                    go("card", {"orbit": o, "modes": m})
                    go("o2s", {"orbit": o, "modes": m, "perm": list(range(m))[::-1]})
    for k in range(0, 7):
        for c in (-1, 0, 1, 2, 3):
            for m in range(1, 5):
                if abs(c * m - k) <= 1 or c < 0:     # events that are empty, exactly full, or one photon short of full
                    go("e2s", {"photons": k, "maxc": c, "modes": m, "draws": [k + c + m, 1], "perm": list(range(m))[::-1]})
                    if c >= 0:
                        go("event_card", {"photons": k, "maxc": c, "modes": m})
    sweep_samples = [[0, 0, 0], [1, 0, 0], [0, 1, 1], [2, 0, 1], [2, 2, 0], [1, 2, 2], [3, 3, 0], [0, 0, 7]]   # sums 0..7
    g3 = {"nodes": [4, 9, 2], "edges": [[4, 9]]}
    for lo in range(0, 5):
        for hi in range(lo - 1, 8, 2):
            go("sample", {"samples": sweep_samples, "lo": lo, "hi": hi, "graph": g3})
    # ---- estimators observed through a probe state, feature vectors
    for S in (None, 0, 1, 3):
        for n_mean, loss in ((5, 0.0), (1.5, 0.25)):
            base = {"modes": 3, "samples": S, "n_mean": n_mean, "loss": loss, "draws": [0, 1, 2, 3, 4, 5, 6, 7, 8, 9, 10, 11], "perm": [2, 0, 1]}
            go("fv", dict(base, orbits=[[2, 1], [1], [1, 1]]))
            go("fv", dict(base, events=[2, 1, 3], maxc=2, dflt=True))
            go("fv", dict(base, events=[3, 2], maxc=1, dflt=False))
    for S in (1, 2, 5):
        go("mc", {"photons": 3, "maxc": 2, "modes": 4, "samples": S, "n_mean": 2.5, "loss": 0.5, "draws": [3, 1, 4, 1, 5, 9, 2, 6, 5, 3], "perm": [3, 1, 0, 2]})
        go("mc", {"photons": 4, "maxc": 2, "modes": 4, "orbit": [2, 1, 1], "samples": S, "n_mean": 2.5, "loss": 0.5, "draws": [3, 1, 4, 1, 5], "perm": [3, 1, 0, 2]})
    for orbit in ([1], [2, 1], [1, 1, 1], [3]):
        go("pexact", {"photons": sum(orbit), "maxc": max(orbit), "modes": 3, "orbit": orbit, "n_mean": 1.5, "loss": 0.25})
    for k, c in ((0, 1), (2, 1), (2, 2), (3, 1), (3, 2), (4, 1)):
        go("pexact", {"photons": k, "maxc": c, "modes": 3, "n_mean": 1.5, "loss": 0.25})
    for _ in range(8 * scale):
        k, c, m = rng.randint(0, 7), rng.randint(0, 4), rng.randint(1, 9)
        perm = list(range(m))
        rng.shuffle(perm)
        d = {"photons": k, "maxc": c, "modes": m, "samples": rng.choice([1, 2, 3, 7]), "n_mean": rng.choice([5, 3.5, 0, 0.25]),
             "loss": rng.choice([0.0, 0.25, 1, 0.5]), "draws": gen_draws(rng, 8), "perm": perm}
        if rng.random() < 0.4:
            d["orbit"] = gen_orbit(rng, 7)
            d["photons"], d["maxc"] = sum(d["orbit"]), max(d["orbit"])
        r = rng.random()
        if r < 0.25:                      # one invalid argument
            bad = rng.choice(["samples", "n_mean", "loss", "loss2", "photons", "maxc"])
            if bad == "samples":
                d["samples"] = rng.choice([0, -1])
            elif bad == "n_mean":
                d["n_mean"] = -0.5
            elif bad == "loss":
                d["loss"] = 1.5
            elif bad == "loss2":
                d["loss"] = -0.1
            elif bad == "photons" and "orbit" not in d:
                d["photons"] = -1
            elif "orbit" not in d:
                d["maxc"] = -1
        if c * m >= k or "orbit" in d or r < 0.25:
            go("mc", d)
    for _ in range(8 * scale):
        k, c, m = rng.randint(0, 6), rng.randint(0, 3), rng.randint(1, 6)
        d = {"photons": k, "maxc": c, "modes": m, "n_mean": rng.choice([5, 3.5, 0, -1]), "loss": rng.choice([0.0, 0.25, 1, 1.25, -0.5])}
        if rng.random() < 0.5:
            d["orbit"] = gen_orbit(rng, 6)
            d["photons"], d["maxc"] = sum(d["orbit"]), max(d["orbit"])
        go("pexact", d)
    for _ in range(8 * scale):
        m = rng.randint(1, 6)
        perm = list(range(m))
        rng.shuffle(perm)
        d = {"modes": m, "samples": rng.choice([None, None, 0, 1, 3]), "n_mean": rng.choice([5, 2.5, 0]), "loss": rng.choice([0.0, 0.5, 1]),
             "draws": gen_draws(rng, 40), "perm": perm, "dflt": rng.random() < 0.5}
        if rng.random() < 0.5:
            d["orbits"] = [o for o in (gen_orbit(rng, 5) for _ in range(rng.randint(0, 4)))]
            if rng.random() < 0.15 and d["orbits"]:
                d["orbits"][-1] = d["orbits"][-1] + [-1]
        else:
            d["events"] = [rng.randint(0, 6) for _ in range(rng.randint(0, 4))]
            d["maxc"] = rng.choice([1, 2, 2, 3, -1]) if rng.random() < 0.9 else 0
            if rng.random() < 0.15 and d["events"]:
                d["events"][0] = -2
        go("fv", d)
    for _ in range(12 * scale):
        m = rng.randint(1, 6)
        smp = gen_samples(rng, m, rng.randint(1, 12))
        d = {"samples": smp, "dflt": rng.random() < 0.5, "as_array": rng.random() < 0.3}
        if rng.random() < 0.5:
            pool = [sorted([x for x in s0 if x], reverse=True) for s0 in smp] + [gen_orbit(rng, 5) for _ in range(2)]
            d["orbits"] = [rng.choice(pool) for _ in range(rng.randint(0, 5))]
            if rng.random() < 0.1 and d["orbits"]:
                d["orbits"][0] = [1, -1]
        else:
            d["events"] = [rng.choice([sum(s0) for s0 in smp] + [0, 1, 2, 9]) for _ in range(rng.randint(0, 5))]
            d["maxc"] = rng.choice([0, 1, 2, 2, 2, 3, 5, -1])
            if rng.random() < 0.1 and d["events"]:
                d["events"][-1] = -1
        go("fvs", d, len(smp) >= 3)
    # graphs: arbitrary labels, up to 12 nodes
    for _ in range(40 * scale):
        g = gen_graph(rng, max_n=12, labels="anytype", loops=rng.random() < 0.3)
        go("is_clique", {"graph": g, "sub": gen_sub(rng, g)})
    for _ in range(40 * scale):
        g = gen_graph(rng, max_n=12, labels="anytype")
        cl = find_clique(rng, g) if rng.random() < 0.9 else gen_sub(rng, g)
        go("c01", {"graph": g, "clique": cl})
    for kind in ("grow", "swap", "shrink"):
        for _ in range(90 * scale):
            d = gen_clique_case(rng, kind, 12, "anynum" if kind == "shrink" else "anytype")
            go(kind, d, len(d["graph"]["nodes"]) >= 4 and d["sel"]["mode"] in ("degree", "weight"))
    for _ in range(60 * scale):
        d = gen_clique_case(rng, "grow", 12, "anytype")
        d["iterations"] = rng.choice([-1, 0, 1, 1, 2, 3, 6, 20])
        d["draws"] = gen_draws(rng, 60)
        go("csearch", d, len(d["graph"]["nodes"]) >= 4 and d["iterations"] >= 2)
    for _ in range(110 * scale):
        d = gen_resize_case(rng, 12, "anynum")
        go("resize", d, len(d["graph"]["nodes"]) >= 4 and d["sel"]["mode"] == "weight")
    for _ in range(30 * scale):
        d = gen_search_case(rng, 10, "anynum")
        go("search", d, len(d["subs"]) >= 2)
    for _ in range(60 * scale):
        d = gen_update_case(rng)
        go("update", d, len(d["steps"]) >= 2)


def replay(ctx, data):
    d = data["data"]
    kind = d.get("check")
    if kind not in PREDS:
        print("unknown check kind", kind)
        return False
    fails = PREDS[kind](d)
    for sig, what in fails:
        print("  [%s] %s" % (sig, what))
    want = data.get("signature")
    if want and not str(want).startswith("corr:") and fails:
        return any(sig == want for sig, _ in fails) or bool(fails)
    return bool(fails)
