"""Implementation-side drivers and generators for C11 (imported by tools/props/c11.py).

Spec format (plain JSON):  {"N": register size, "cmds": [[name, params, modes, dagger], ...]}
A parameter is a float, or a matrix {"re": [[..]], "im": [[..]]} ("im" optional).
"""
import math
import warnings

warnings.filterwarnings("ignore")
import numpy as np  # noqa: E402

import strawberryfields as sf  # noqa: E402
from strawberryfields import ops  # noqa: E402
from strawberryfields.program_utils import CircuitError  # noqa: E402

# name -> (modes, param kinds).  kinds: a angle, r small real, d magnitude>=0, t transmissivity,
# U<k> unitary kxk, S<k> symplectic 2kx2k, T<k> contraction kxk
GU_PRIMS = {
    "Dgate": (1, ["d", "a"]), "Sgate": (1, ["r", "a"]), "Rgate": (1, ["a"]),
    "BSgate": (2, ["a", "a"]), "MZgate": (2, ["a", "a"]), "sMZgate": (2, ["a", "a"]), "S2gate": (2, ["r", "a"]),
    "Interferometer": (None, ["U"]), "GaussianTransform": (None, ["S"]),
}
GU_DECOMP = {"Xgate": (1, ["r"]), "Zgate": (1, ["r"]), "Pgate": (1, ["r"]), "Fouriergate": (1, []),
             "CXgate": (2, ["r"]), "CZgate": (2, ["r"])}
PASSIVE_PRIMS = {
    "Rgate": (1, ["a"]), "LossChannel": (1, ["t"]), "BSgate": (2, ["a", "a"]), "MZgate": (2, ["a", "a"]),
    "sMZgate": (2, ["a", "a"]), "Interferometer": (None, ["U"]), "PassiveChannel": (None, ["T"]),
}
NONGAUSS = {"Kgate": (1, ["r"]), "Vgate": (1, ["r"]), "CKgate": (2, ["r"])}
GATES_WITH_DAGGER = {"Dgate", "Sgate", "Rgate", "BSgate", "MZgate", "sMZgate", "S2gate", "Xgate", "Zgate", "Pgate",
                     "Fouriergate", "CXgate", "CZgate", "Kgate", "Vgate", "CKgate"}

ANGLES = [0.0, math.pi / 2, math.pi, -math.pi / 2, math.pi / 4, -math.pi, 0.3, -0.7, 1.1, 2.5]


# ---------------------------------------------------------------------------------------
# matrices

def mat_to_json(M):
    M = np.asarray(M)
    d = {"re": [[float(x) for x in row] for row in M.real]}
    if np.iscomplexobj(M):
        d["im"] = [[float(x) for x in row] for row in M.imag]
    return d


def mat_from_json(d):
    M = np.array(d["re"], dtype=float)
    if "im" in d:
        M = M + 1j * np.array(d["im"], dtype=float)
    return M


def _nprng(rng):
    return np.random.RandomState(rng.randrange(2 ** 31))


def rand_unitary(rng, k, kind=None):
    kind = kind or rng.choice(["haar", "haar", "perm", "diag", "real", "ident"])
    g = _nprng(rng)
    if kind == "ident":
        return np.eye(k, dtype=complex)
    if kind == "perm":
        P = np.eye(k)[g.permutation(k)]
        return P.astype(complex)
    if kind == "diag":
        return np.diag(np.exp(1j * g.uniform(-np.pi, np.pi, k)))
    A = g.normal(size=(k, k)) + (0 if kind == "real" else 1j) * g.normal(size=(k, k))
    Q, R = np.linalg.qr(A)
    Q = Q * (np.diag(R) / np.abs(np.diag(R)))
    return Q.astype(complex)


def symp_of_unitary(U):
    return np.block([[U.real, -U.imag], [U.imag, U.real]])


def rand_symplectic(rng, k, passive=False):
    U1 = rand_unitary(rng, k, "haar")
    if passive:
        return symp_of_unitary(U1)
    U2 = rand_unitary(rng, k, rng.choice(["haar", "ident"]))
    r = np.array([rng.choice([0.0, 0.3, -0.4, round(rng.uniform(-0.6, 0.6), 3)]) for _ in range(k)])
    Z = np.diag(np.concatenate([np.exp(-r), np.exp(r)]))
    return symp_of_unitary(U1) @ Z @ symp_of_unitary(U2)


def rand_contraction(rng, k):
    U1 = rand_unitary(rng, k, "haar")
    U2 = rand_unitary(rng, k, rng.choice(["haar", "ident", "perm"]))
    t = np.array([rng.choice([1.0, 0.5, 0.0, round(rng.uniform(0.1, 1.0), 3)]) for _ in range(k)])
    return U1 @ np.diag(np.sqrt(t)) @ U2


# ---------------------------------------------------------------------------------------
# generators

def rand_index_set(rng, max_used=4):
    """(N, used): register size and the (unordered) index set the circuit will live on."""
    k = rng.randint(1, max_used)
    style = rng.choice(["dense0", "gapped", "high", "high", "wrap8", "wrap8", "wrap8"])
    if style == "dense0":
        used = list(range(k))
    elif style == "gapped":
        used = rng.sample(range(0, 8), k)
    elif style == "high":
        used = rng.sample(range(0, 20), k)
    else:
        # sets whose hash (= value mod table size) order differs from numeric order
        big = rng.choice([8, 9, 16, 17, 10, 24])
        pool = [m for m in range(0, 8) if m % 8 > big % 8] or [7]
        used = [big] + rng.sample(pool, min(k - 1, len(pool)))
        if len(used) < 2:
            used.append((big % 8) + 1)
    used = list(dict.fromkeys(used))
    N = max(used) + 1 + rng.choice([0, 0, 1, 3])
    return N, used


def draw_param(rng, kind):
    if kind == "a":
        return rng.choice(ANGLES) if rng.random() < 0.35 else round(rng.uniform(-math.pi, math.pi), 3)
    if kind == "d":
        return rng.choice([0.0, 0.5, 1.0]) if rng.random() < 0.3 else round(rng.uniform(0, 1.2), 3)
    if kind == "t":
        return rng.choice([1.0, 0.5, 0.25, 0.0]) if rng.random() < 0.4 else round(rng.uniform(0.05, 1.0), 3)
    return rng.choice([0.0, 0.5, -0.5, 0.25]) if rng.random() < 0.3 else round(rng.uniform(-0.7, 0.7), 3)


def rand_cmd(rng, used, table, dagger_prob=0.25, max_mat=3, small=False):
    names = [n for n, (m, _) in table.items() if m is None or m <= len(used)]
    name = rng.choice(names)
    nm, kinds = table[name]
    if nm is None:
        nm = rng.randint(1, min(max_mat, len(used)))
    modes = rng.sample(used, nm)
    params = []
    for k in kinds:
        if k == "U":
            params.append(mat_to_json(rand_unitary(rng, nm)))
        elif k == "S":
            params.append(mat_to_json(rand_symplectic(rng, nm, passive=rng.random() < 0.25)))
        elif k == "T":
            params.append(mat_to_json(rand_contraction(rng, nm)))
        else:
            v = draw_param(rng, k)
            if small and k in ("r", "d"):
                v = round(v * 0.2, 4)
            params.append(v)
    dag = name in GATES_WITH_DAGGER and rng.random() < dagger_prob
    return [name, params, modes, bool(dag)]


def rand_circuit(rng, table, max_used=4, max_cmds=8, dagger_prob=0.25, cover=True):
    N, used = rand_index_set(rng, max_used)
    n = rng.randint(1, max_cmds)
    cmds = [rand_cmd(rng, used, table, dagger_prob) for _ in range(n)]
    if cover:
        # make sure every index of the set is really used (so `used` is the circuit's index set)
        seen = {m for c in cmds for m in c[2]}
        one = [nme for nme, (m, _) in table.items() if m == 1]
        for m in used:
            if m not in seen:
                c = rand_cmd(rng, [m], {k: table[k] for k in one}, dagger_prob)
                cmds.insert(rng.randrange(len(cmds) + 1), c)
    return {"N": N, "cmds": cmds}


# ---------------------------------------------------------------------------------------
# building and running

def _param(p):
    if isinstance(p, dict):
        return mat_from_json(p)
    return p


def make_op(name, params, dagger=False):
    op = getattr(ops, name)(*[_param(p) for p in params])
    if dagger:
        op = op.H
    return op


def build_program(spec):
    prog = sf.Program(spec["N"])
    with prog.context as q:
        for name, params, modes, dagger in spec["cmds"]:
            make_op(name, params, dagger) | tuple(q[m] for m in modes)
    return prog


def used_modes_of(cmds):
    return sorted({m for c in cmds for m in c[2]})


def describe_circuit(circuit):
    """Structural view of a compiled circuit: [(class name, [mode indices], dagger)]."""
    return [(c.op.__class__.__name__, [r.ind for r in c.reg], bool(getattr(c.op, "dagger", False))) for c in circuit]


def choi_state(N, probe_modes, op_reg_pairs, r=0.8):
    """Run `op_reg_pairs` ([(op, [mode indices])]) on the gaussian backend after entangling every
    probe mode with a fresh ancilla by two-mode squeezing; returns (means, cov) of the whole register.
    Equality of these for two op lists is equality of the two Gaussian channels on the probe modes
    (Choi-Jamiolkowski), not just of their action on the vacuum."""
    n = len(probe_modes)
    prog = sf.Program(N + n)
    with prog.context as q:
        for k, m in enumerate(probe_modes):
            ops.S2gate(r, 0.0) | (q[m], q[N + k])
        for op, modes in op_reg_pairs:
            op | tuple(q[m] for m in modes)
    eng = sf.Engine("gaussian")
    st = eng.run(prog).state
    return np.array(st.means()), np.array(st.cov())


def channel_from_choi(N, probe_modes, state, r=0.8):
    """(X, Y, d) of the Gaussian channel on probe_modes (in the order given, xxpp) from its Choi state."""
    n = len(probe_modes)
    Nt = N + n
    mu, cov = state
    s = list(probe_modes) + [m + Nt for m in probe_modes]
    a = [N + k for k in range(n)] + [N + k + Nt for k in range(n)]
    ch, sh = math.cosh(2 * r), math.sinh(2 * r)
    Z = np.diag([1.0] * n + [-1.0] * n)
    C0 = sh * Z  # <sys, anc> block of the two-mode squeezed vacua (hbar = 2)
    X = cov[np.ix_(s, a)] @ np.linalg.inv(C0)
    Y = cov[np.ix_(s, s)] - ch * X @ X.T
    return X, Y, mu[s]


_CH_CACHE = {}


def op_channel(name, params, dagger):
    """(X, Y, d) of one source operation on its own modes, as the gaussian backend realises it
    (matrix-parameter operations: from their defining matrix)."""
    if name == "Interferometer":
        X = symp_of_unitary(mat_from_json(params[0]))
        return X, np.zeros_like(X), np.zeros(X.shape[0])
    if name == "GaussianTransform":
        X = mat_from_json(params[0]).real
        return X, np.zeros_like(X), np.zeros(X.shape[0])
    if name == "PassiveChannel":
        X = symp_of_unitary(mat_from_json(params[0]))
        return X, np.eye(X.shape[0]) - X @ X.T, np.zeros(X.shape[0])
    key = (name, repr(params), bool(dagger))
    if key not in _CH_CACHE:
        op = make_op(name, params, dagger)
        k = op.ns
        st = choi_state(k, list(range(k)), [(op, list(range(k)))])
        _CH_CACHE[key] = channel_from_choi(k, list(range(k)), st)
        if len(_CH_CACHE) > 20000:
            _CH_CACHE.clear()
    return _CH_CACHE[key]


def embed(X, slots, n):
    """Embed a 2k x 2k xxpp matrix acting on `slots` (positions in an n-mode xxpp ordering)."""
    k = len(slots)
    E = np.eye(2 * n)
    idx = list(slots) + [s + n for s in slots]
    E[np.ix_(idx, idx)] = X
    return E


def embed_noise(Y, slots, n):
    E = np.zeros((2 * n, 2 * n))
    idx = list(slots) + [s + n for s in slots]
    E[np.ix_(idx, idx)] = Y
    return E


def embed_vec(d, slots, n):
    v = np.zeros(2 * n)
    idx = list(slots) + [s + n for s in slots]
    v[idx] = d
    return v


def source_channel(cmds, modes):
    """Ordered product of the source operations as one Gaussian channel (X, Y, d) on `modes`
    (xxpp in the order of `modes`); every command must act inside `modes`."""
    n = len(modes)
    pos = {m: i for i, m in enumerate(modes)}
    X, Y, d = np.eye(2 * n), np.zeros((2 * n, 2 * n)), np.zeros(2 * n)
    for name, params, ms, dag in cmds:
        Xo, Yo, do = op_channel(name, params, dag)
        sl = [pos[m] for m in ms]
        E = embed(Xo, sl, n)
        X, Y, d = E @ X, E @ Y @ E.T + embed_noise(Yo, sl, n), E @ d + embed_vec(do, sl, n)
    return X, Y, d


def compiled_channel(circuit, modes):
    """Channel (X, Y, d) on `modes` of a compiled circuit made of GaussianTransform / Dgate /
    PassiveChannel / Interferometer commands, read off the matrix parameters and registers."""
    cmds = []
    for c in circuit:
        name = c.op.__class__.__name__
        ms = [r.ind for r in c.reg]
        if name in ("GaussianTransform", "PassiveChannel", "Interferometer"):
            cmds.append([name, [mat_to_json(np.asarray(c.op.p[0]))], ms, False])
        else:
            cmds.append([name, [float(p) for p in c.op.p], ms, bool(getattr(c.op, "dagger", False))])
    return source_channel(cmds, modes)


def channels_close(a, b, tol=1e-7):
    return all(np.allclose(x, y, atol=tol, rtol=0) for x, y in zip(a, b))


def channel_dist(a, b):
    return float(max(np.max(np.abs(x - y)) if x.size else 0.0 for x, y in zip(a, b)))


def pairs_of_circuit(circuit):
    return [(c.op, [r.ind for r in c.reg]) for c in circuit]


def states_close(a, b, tol=1e-6):
    return bool(np.allclose(a[0], b[0], atol=tol, rtol=0) and np.allclose(a[1], b[1], atol=tol, rtol=0))


def state_dist(a, b):
    return float(max(np.max(np.abs(a[0] - b[0])), np.max(np.abs(a[1] - b[1]))))


def compile_prog(prog, compiler):
    """-> ("ok", compiled) | ("circuit-error", msg) | ("crash", ExceptionTypeName, msg)"""
    try:
        with warnings.catch_warnings():
            warnings.simplefilter("ignore")
            c = prog.compile(compiler=compiler)
        return ("ok", c)
    except CircuitError as e:
        return ("circuit-error", str(e))
    except Exception as e:  # anything else is not an allowed outcome
        return ("crash", type(e).__name__, str(e))
