"""Implementation-side drivers and generators for C11 (imported by tools/props/c11.py).

Spec format (plain JSON):  {"N": register size, "cmds": [[name, params, modes, dagger], ...]}
A parameter is a float, or a matrix {"re": [[..]], "im": [[..]]} ("im" optional).
"""
import math
import warnings

warnings.filterwarnings("ignore")
import numpy as np  # noqa: E402

import strawberryfields as sf  # noqa: E402
from strawberryfields import ops  # noqa: E402
from strawberryfields.program_utils import CircuitError  # noqa: E402

# name -> (modes, param kinds).  kinds: a angle, r small real, d magnitude>=0, t transmissivity,
# U<k> unitary kxk, S<k> symplectic 2kx2k, T<k> contraction kxk
GU_PRIMS = {
    "Dgate": (1, ["d", "a"]), "Sgate": (1, ["r", "a"]), "Rgate": (1, ["a"]),
    "BSgate": (2, ["a", "a"]), "MZgate": (2, ["a", "a"]), "sMZgate": (2, ["a", "a"]), "S2gate": (2, ["r", "a"]),
    "Interferometer": (None, ["U"]), "GaussianTransform": (None, ["S"]),
}
GU_DECOMP = {"Xgate": (1, ["r"]), "Zgate": (1, ["r"]), "Pgate": (1, ["r"]), "Fouriergate": (1, []),
             "CXgate": (2, ["r"]), "CZgate": (2, ["r"]), "GraphEmbed": (None, ["A"])}
PASSIVE_PRIMS = {
    "Rgate": (1, ["a"]), "LossChannel": (1, ["t"]), "BSgate": (2, ["a", "a"]), "MZgate": (2, ["a", "a"]),
    "sMZgate": (2, ["a", "a"]), "Interferometer": (None, ["U"]), "PassiveChannel": (None, ["T"]),
}
NONGAUSS = {"Kgate": (1, ["r"]), "Vgate": (1, ["r"]), "CKgate": (2, ["r"])}
# the other operations gaussian_merge accepts and must leave in place: measurements and the Ket preparation
OPAQUE = {"MeasureFock": (None, []), "MeasureHomodyne": (1, ["a"]), "Ket": (1, ["K"])}
NONGAUSS_ALL = {**NONGAUSS, **OPAQUE}
GATES_WITH_DAGGER = {"Dgate", "Sgate", "Rgate", "BSgate", "MZgate", "sMZgate", "S2gate", "Xgate", "Zgate", "Pgate",
                     "Fouriergate", "CXgate", "CZgate", "Kgate", "Vgate", "CKgate"}

ANGLES = [0.0, math.pi / 2, math.pi, -math.pi / 2, math.pi / 4, -math.pi, 0.3, -0.7, 1.1, 2.5]


# ---------------------------------------------------------------------------------------
# matrices

def mat_to_json(M):
    M = np.asarray(M)
    d = {"re": [[float(x) for x in row] for row in M.real]}
    if np.iscomplexobj(M):
        d["im"] = [[float(x) for x in row] for row in M.imag]
    return d


def mat_from_json(d):
    M = np.array(d["re"], dtype=float)
    if "im" in d:
        M = M + 1j * np.array(d["im"], dtype=float)
    return M


def _nprng(rng):
    return np.random.RandomState(rng.randrange(2 ** 31))


def rand_unitary(rng, k, kind=None):
    kind = kind or rng.choice(["haar", "haar", "perm", "diag", "real", "ident"])
    g = _nprng(rng)
    if kind == "ident":
        return np.eye(k, dtype=complex)
    if kind == "perm":
        P = np.eye(k)[g.permutation(k)]
        return P.astype(complex)
    if kind == "diag":
        return np.diag(np.exp(1j * g.uniform(-np.pi, np.pi, k)))
    A = g.normal(size=(k, k)) + (0 if kind == "real" else 1j) * g.normal(size=(k, k))
    Q, R = np.linalg.qr(A)
    Q = Q * (np.diag(R) / np.abs(np.diag(R)))
    return Q.astype(complex)


def symp_of_unitary(U):
    return np.block([[U.real, -U.imag], [U.imag, U.real]])


def rand_symplectic(rng, k, passive=False):
    U1 = rand_unitary(rng, k, "haar")
    if passive:
        return symp_of_unitary(U1)
    U2 = rand_unitary(rng, k, rng.choice(["haar", "ident"]))
    r = np.array([rng.choice([0.0, 0.3, -0.4, round(rng.uniform(-0.6, 0.6), 3)]) for _ in range(k)])
    Z = np.diag(np.concatenate([np.exp(-r), np.exp(r)]))
    return symp_of_unitary(U1) @ Z @ symp_of_unitary(U2)


def rand_contraction(rng, k):
    U1 = rand_unitary(rng, k, "haar")
    U2 = rand_unitary(rng, k, rng.choice(["haar", "ident", "perm"]))
    t = np.array([rng.choice([1.0, 0.5, 0.0, round(rng.uniform(0.1, 1.0), 3)]) for _ in range(k)])
    return U1 @ np.diag(np.sqrt(t)) @ U2


# ---------------------------------------------------------------------------------------
# generators

def rand_index_set(rng, max_used=4):
    """(N, used): register size and the (unordered) index set the circuit will live on."""
    k = rng.randint(1, max_used)
    style = rng.choice(["dense0", "gapped", "high", "high", "wrap8", "wrap8", "wrap8"])
    if style == "dense0":
        used = list(range(k))
    elif style == "gapped":
        used = rng.sample(range(0, max(8, k + 3)), k)
    elif style == "high":
        used = rng.sample(range(0, max(20, 2 * k)), k)
    else:
        # sets whose hash (= value mod table size) order differs from numeric order
        big = rng.choice([8, 9, 16, 17, 10, 24])
        pool = [m for m in range(0, 8) if m % 8 > big % 8] or [7]
        used = [big] + rng.sample(pool, min(k - 1, len(pool)))
        if len(used) < k:
            used += rng.sample([m for m in range(25, 25 + 2 * k)], k - len(used))
        if len(used) < 2:
            used.append((big % 8) + 1)
    used = list(dict.fromkeys(used))
    N = max(used) + 1 + rng.choice([0, 0, 1, 3])
    return N, used


# (kept well above 1e-5: both compilers drop a net symplectic that np.allclose's default rtol=1e-5 calls the identity)
TINY = [1e-3, -2e-3, 4e-4, 2e-3]


def draw_param(rng, kind):
    if kind in ("a", "r", "d") and rng.random() < 0.07:
        # near-identity gates: must not be swallowed by a too generous "is it the identity" test
        v = rng.choice(TINY)
        return abs(v) if kind == "d" else v
    if kind == "a":
        return rng.choice(ANGLES) if rng.random() < 0.35 else round(rng.uniform(-math.pi, math.pi), 3)
    if kind == "d":
        return rng.choice([0.0, 0.5, 1.0]) if rng.random() < 0.3 else round(rng.uniform(0, 1.2), 3)
    if kind == "t":
        return rng.choice([1.0, 0.5, 0.25, 0.0]) if rng.random() < 0.4 else round(rng.uniform(0.05, 1.0), 3)
    return rng.choice([0.0, 0.5, -0.5, 0.25]) if rng.random() < 0.3 else round(rng.uniform(-0.7, 0.7), 3)


def rand_cmd(rng, used, table, dagger_prob=0.25, max_mat=3, small=False):
    names = [n for n, (m, _) in table.items() if m is None or m <= len(used)]
    name = rng.choice(names)
    nm, kinds = table[name]
    if nm is None:
        nm = rng.randint(1, min(max_mat, len(used)))
    modes = rng.sample(used, nm)
    params = []
    for k in kinds:
        if k == "U":
            params.append(mat_to_json(rand_unitary(rng, nm)))
        elif k == "S":
            params.append(mat_to_json(rand_symplectic(rng, nm, passive=rng.random() < 0.25)))
        elif k == "T":
            params.append(mat_to_json(rand_contraction(rng, nm)))
        elif k == "A":
            g_ = _nprng(rng)
            Q_, _r = np.linalg.qr(g_.normal(size=(nm, nm)))
            lam_ = g_.uniform(0.2, 0.8, size=nm) * g_.choice([-1.0, 1.0], size=nm)
            A_ = Q_ @ np.diag(lam_) @ Q_.T  # symmetric, well conditioned (GraphEmbed rejects tiny singular values)
            params.append(mat_to_json((A_ + A_.T) / 2))
        elif k == "K":
            g_ = _nprng(rng)
            v_ = g_.normal(size=4) + 1j * g_.normal(size=4)
            v_ = v_ / np.linalg.norm(v_)
            params.append({"vec_re": [float(x) for x in v_.real], "vec_im": [float(x) for x in v_.imag]})
        else:
            v = draw_param(rng, k)
            if small and k in ("r", "d"):
                v = round(v * 0.2, 4)
            params.append(v)
    dag = name in GATES_WITH_DAGGER and rng.random() < dagger_prob
    return [name, params, modes, bool(dag)]


def rand_circuit(rng, table, max_used=4, max_cmds=8, dagger_prob=0.25, cover=True):
    N, used = rand_index_set(rng, max_used)
    n = rng.randint(1, max_cmds)
    cmds = [rand_cmd(rng, used, table, dagger_prob) for _ in range(n)]
    if cover:
        # make sure every index of the set is really used (so `used` is the circuit's index set)
        seen = {m for c in cmds for m in c[2]}
        one = [nme for nme, (m, _) in table.items() if m == 1]
        for m in used:
            if m not in seen:
                c = rand_cmd(rng, [m], {k: table[k] for k in one}, dagger_prob)
                cmds.insert(rng.randrange(len(cmds) + 1), c)
    return {"N": N, "cmds": cmds}


# ---------------------------------------------------------------------------------------
# building and running

def _param(p):
    if isinstance(p, dict) and "vec_re" in p:
        return np.array(p["vec_re"]) + 1j * np.array(p["vec_im"])
    if isinstance(p, dict):
        return mat_from_json(p)
    return p


def _pkey(p):
    """hashable, rounding-stable key of a parameter"""
    if isinstance(p, dict):
        return json.dumps({k: np.round(np.array(v, dtype=float), 9).tolist() for k, v in p.items()}, sort_keys=True)
    return round(float(p), 12)


def make_op(name, params, dagger=False):
    op = getattr(ops, name)(*[_param(p) for p in params])
    if dagger:
        op = op.H
    return op


def build_program(spec):
    prog = sf.Program(spec["N"])
    with prog.context as q:
        for name, params, modes, dagger in spec["cmds"]:
            make_op(name, params, dagger) | tuple(q[m] for m in modes)
    return prog


def used_modes_of(cmds):
    return sorted({m for c in cmds for m in c[2]})


def describe_circuit(circuit):
    """Structural view of a compiled circuit: [(class name, [mode indices], dagger)]."""
    return [(c.op.__class__.__name__, [r.ind for r in c.reg], bool(getattr(c.op, "dagger", False))) for c in circuit]


def choi_state(N, probe_modes, op_reg_pairs, r=0.8):
    """Run `op_reg_pairs` ([(op, [mode indices])]) on the gaussian backend after entangling every
    probe mode with a fresh ancilla by two-mode squeezing; returns (means, cov) of the whole register.
    Equality of these for two op lists is equality of the two Gaussian channels on the probe modes
    (Choi-Jamiolkowski), not just of their action on the vacuum."""
    n = len(probe_modes)
    prog = sf.Program(N + n)
    with prog.context as q:
        for k, m in enumerate(probe_modes):
            ops.S2gate(r, 0.0) | (q[m], q[N + k])
        for op, modes in op_reg_pairs:
            op | tuple(q[m] for m in modes)
    eng = sf.Engine("gaussian")
    st = eng.run(prog).state
    return np.array(st.means()), np.array(st.cov())


def channel_from_choi(N, probe_modes, state, r=0.8):
    """(X, Y, d) of the Gaussian channel on probe_modes (in the order given, xxpp) from its Choi state."""
    n = len(probe_modes)
    Nt = N + n
    mu, cov = state
    s = list(probe_modes) + [m + Nt for m in probe_modes]
    a = [N + k for k in range(n)] + [N + k + Nt for k in range(n)]
    ch, sh = math.cosh(2 * r), math.sinh(2 * r)
    Z = np.diag([1.0] * n + [-1.0] * n)
    C0 = sh * Z  # <sys, anc> block of the two-mode squeezed vacua (hbar = 2)
    X = cov[np.ix_(s, a)] @ np.linalg.inv(C0)
    Y = cov[np.ix_(s, s)] - ch * X @ X.T
    return X, Y, mu[s]


_CH_CACHE = {}


def op_channel(name, params, dagger):
    """(X, Y, d) of one source operation on its own modes, as the gaussian backend realises it
    (matrix-parameter operations: from their defining matrix)."""
    if name == "Interferometer":
        X = symp_of_unitary(mat_from_json(params[0]))
        return X, np.zeros_like(X), np.zeros(X.shape[0])
    if name == "GaussianTransform":
        X = mat_from_json(params[0]).real
        return X, np.zeros_like(X), np.zeros(X.shape[0])
    if name == "PassiveChannel":
        X = symp_of_unitary(mat_from_json(params[0]))
        return X, np.eye(X.shape[0]) - X @ X.T, np.zeros(X.shape[0])
    key = (name, repr(params), bool(dagger))
    if key not in _CH_CACHE:
        op = make_op(name, params, dagger)
        k = op.ns
        st = choi_state(k, list(range(k)), [(op, list(range(k)))])
        _CH_CACHE[key] = channel_from_choi(k, list(range(k)), st)
        if len(_CH_CACHE) > 20000:
            _CH_CACHE.clear()
    return _CH_CACHE[key]


def embed(X, slots, n):
    """Embed a 2k x 2k xxpp matrix acting on `slots` (positions in an n-mode xxpp ordering)."""
    k = len(slots)
    E = np.eye(2 * n)
    idx = list(slots) + [s + n for s in slots]
    E[np.ix_(idx, idx)] = X
    return E


def embed_noise(Y, slots, n):
    E = np.zeros((2 * n, 2 * n))
    idx = list(slots) + [s + n for s in slots]
    E[np.ix_(idx, idx)] = Y
    return E


def embed_vec(d, slots, n):
    v = np.zeros(2 * n)
    idx = list(slots) + [s + n for s in slots]
    v[idx] = d
    return v


def source_channel(cmds, modes):
    """Ordered product of the source operations as one Gaussian channel (X, Y, d) on `modes`
    (xxpp in the order of `modes`); every command must act inside `modes`."""
    n = len(modes)
    pos = {m: i for i, m in enumerate(modes)}
    X, Y, d = np.eye(2 * n), np.zeros((2 * n, 2 * n)), np.zeros(2 * n)
    for name, params, ms, dag in cmds:
        Xo, Yo, do = op_channel(name, params, dag)
        sl = [pos[m] for m in ms]
        E = embed(Xo, sl, n)
        X, Y, d = E @ X, E @ Y @ E.T + embed_noise(Yo, sl, n), E @ d + embed_vec(do, sl, n)
    return X, Y, d


def compiled_channel(circuit, modes):
    """Channel (X, Y, d) on `modes` of a compiled circuit made of GaussianTransform / Dgate /
    PassiveChannel / Interferometer commands, read off the matrix parameters and registers."""
    cmds = []
    for c in circuit:
        name = c.op.__class__.__name__
        ms = [r.ind for r in c.reg]
        if name in ("GaussianTransform", "PassiveChannel", "Interferometer"):
            cmds.append([name, [mat_to_json(np.asarray(c.op.p[0]))], ms, False])
        else:
            cmds.append([name, [float(p) for p in c.op.p], ms, bool(getattr(c.op, "dagger", False))])
    return source_channel(cmds, modes)


def channels_close(a, b, tol=1e-7):
    return all(np.allclose(x, y, atol=tol, rtol=0) for x, y in zip(a, b))


def channel_dist(a, b):
    return float(max(np.max(np.abs(x - y)) if x.size else 0.0 for x, y in zip(a, b)))


def pairs_of_circuit(circuit):
    return [(c.op, [r.ind for r in c.reg]) for c in circuit]


def states_close(a, b, tol=1e-6):
    return bool(np.allclose(a[0], b[0], atol=tol, rtol=0) and np.allclose(a[1], b[1], atol=tol, rtol=0))


def state_dist(a, b):
    return float(max(np.max(np.abs(a[0] - b[0])), np.max(np.abs(a[1] - b[1]))))


def compile_prog(prog, compiler, **opts):
    """-> ("ok", compiled) | ("circuit-error", msg) | ("crash", ExceptionTypeName, msg)"""
    try:
        with warnings.catch_warnings():
            warnings.simplefilter("ignore")
            c = prog.compile(compiler=compiler, **opts)
        return ("ok", c)
    except CircuitError as e:
        return ("circuit-error", str(e))
    except Exception as e:  # anything else is not an allowed outcome
        return ("crash", type(e).__name__, str(e))


# =======================================================================================
# The check
# =======================================================================================
import hashlib  # noqa: E402
import os  # noqa: E402
import json  # noqa: E402
import random as _random  # noqa: E402
import traceback  # noqa: E402

from vlib import coq  # noqa: E402
from strawberryfields.compilers import compiler_db  # noqa: E402
from strawberryfields.parameters import par_evaluate  # noqa: E402

PROP = "C11"
LEVEL = "proof"
COQ_TARGETS = ["C11/Lin.vo", "C11/LinProofs.vo", "C11/Model.vo", "C11/Proofs.vo", "C11/Merge.vo"]
COQ_DIRS = ["C11"]
PROPERTIES_FILE = "Properties/C11.v"
ALLOWED_AXIOMS = set()

GU_KIND = {"Dgate": 0, "Rgate": 1, "Sgate": 2, "S2gate": 3, "BSgate": 4, "MZgate": 5, "sMZgate": 6,
           "Interferometer": 7, "GaussianTransform": 8}
PA_KIND = {"Rgate": 1, "LossChannel": 2, "BSgate": 4, "MZgate": 5, "sMZgate": 6, "Interferometer": 7, "PassiveChannel": 8}


def set_order(seq_modes):
    """The enumeration `list(set(...))` that both compilers compute, on the same insertion sequence."""
    return list(set([m for ms in seq_modes for m in ms]))


def spec_of_circuit(circuit):
    out = []
    for c in circuit:
        name = c.op.__class__.__name__
        ms = [r.ind for r in c.reg]
        ps = []
        for v in par_evaluate(c.op.p):
            if isinstance(v, np.ndarray) and v.ndim == 2:
                ps.append(mat_to_json(v))
            elif isinstance(v, np.ndarray) and v.ndim == 1:
                ps.append({"vec_re": [float(x) for x in v.real], "vec_im": [float(x) for x in v.imag]})
            else:
                ps.append(float(v))
        out.append([name, ps, ms, bool(getattr(c.op, "dagger", False))])
    return out


def gu_model_cmd(c):
    """Primitive values for one decomposed command, computed the way gaussian_unitary.py / thewalrus do."""
    name, ps, ms, dag = c
    k = GU_KIND[name]
    prims, gx, gy = [], [], []
    if name == "Dgate":
        e = np.exp(1j * ps[1])
        prims = [ps[0], e.real, e.imag]
    elif name == "Rgate":
        prims = [np.cos(ps[0]), np.sin(ps[0])]
    elif name in ("Sgate", "S2gate"):
        prims = [np.cosh(ps[0]), np.sinh(ps[0]), np.cos(ps[1]), np.sin(ps[1])]
    elif name == "BSgate":
        prims = [np.cos(ps[0]), np.sin(ps[0]), np.cos(ps[1]), np.sin(ps[1])]
    elif name == "MZgate":
        v, u = np.exp(1j * ps[0]), np.exp(1j * ps[1])
        prims = [v.real, v.imag, u.real, u.imag]
    elif name == "sMZgate":
        es = np.exp(1j * (ps[0] + ps[1]) / 2)
        dl = (ps[0] - ps[1]) / 2
        prims = [es.real, es.imag, np.sin(dl), np.cos(dl)]
    elif name == "Interferometer":
        U = mat_from_json(ps[0])
        gx, gy = U.real.tolist(), (U.imag.tolist() if np.iscomplexobj(U) else np.zeros(U.shape).tolist())
    elif name == "GaussianTransform":
        gx = mat_from_json(ps[0]).real.tolist()
    return {"k": k, "p": [float(x) for x in prims], "x": gx, "y": gy, "m": ms, "d": dag}


def pa_model_cmd(c):
    name, ps, ms, dag = c
    k = PA_KIND[name]
    prims, U = [], []
    if name == "Rgate":
        e = np.exp(1j * ps[0])
        prims = [e.real, e.imag]
    elif name == "LossChannel":
        prims = [np.sqrt(ps[0])]
    elif name == "BSgate":
        prims = [np.cos(ps[0]), np.sin(ps[0]), np.cos(ps[1]), np.sin(ps[1])]
    elif name == "MZgate":
        v, u = np.exp(1j * ps[0]), np.exp(1j * ps[1])
        prims = [v.real, v.imag, u.real, u.imag]
    elif name == "sMZgate":
        es = np.exp(1j * (ps[0] + ps[1]) / 2)
        dl = (ps[0] - ps[1]) / 2
        prims = [es.real, es.imag, np.sin(dl), np.cos(dl)]
    else:
        M = mat_from_json(ps[0]).astype(complex)
        U = [[(float(z.real), float(z.imag)) for z in row] for row in M]
    return {"k": k, "p": [float(x) for x in prims], "u": U, "m": ms, "d": dag}


def _fl(x):
    return coq.coq_float(x)


def _fmat(M):
    return coq.coq_list([coq.coq_list(row, _fl) for row in M])


def enc_gu(c):
    return "mkGU float %d %s %s %s %s %s" % (c["k"], coq.coq_list(c["p"], _fl), _fmat(c["x"]), _fmat(c["y"]),
                                           coq.coq_list(c["m"], str), coq.coq_bool(c["d"]))


def enc_pa(c):
    u = coq.coq_list([coq.coq_list(["(%s, %s)" % (_fl(a), _fl(b)) for a, b in row]) for row in c["u"]])
    return "mkPA float %d %s %s %s %s" % (c["k"], coq.coq_list(c["p"], _fl), u, coq.coq_list(c["m"], str), coq.coq_bool(c["d"]))


COQ_HEADER = """From Coq Require Import List ZArith Floats Bool.
Import ListNotations.
From SFV Require Import C11.Lin C11.Model.
Open Scope float_scope.
Definition gu := gu_compile float 0 1 PrimFloat.add PrimFloat.mul PrimFloat.sub PrimFloat.opp 2 0.5.
Definition pa := pa_compile float 0 1 PrimFloat.add PrimFloat.mul PrimFloat.sub PrimFloat.opp 0.5.
Definition rmat := rowop_mat float PrimFloat.add PrimFloat.mul.
Definition rvec := rowop_vec float 0 PrimFloat.add PrimFloat.mul.
Definition CF := (float * float)%type.
Definition crmat := rowop_mat CF (cadd float PrimFloat.add) (cmul float PrimFloat.add PrimFloat.mul PrimFloat.sub).
Close Scope float_scope.
"""


def model_eval(ctx, name, kind, cases):
    """cases: [(enum, [model cmds])]; returns list of model outputs or None on failure."""
    enc = enc_gu if kind == "gu" else enc_pa
    ty = "gu_cmd float" if kind == "gu" else "pa_cmd float"
    items = ["(%s, %s)" % (coq.coq_list(en, str), coq.coq_list([enc(c) for c in cs], lambda s: "(%s)" % s)) for en, cs in cases]
    text = COQ_HEADER + "Definition cases : list (list nat * list (%s)) := [\n%s].\n" % (ty, ";\n".join(items))
    text += "Eval vm_compute in map (fun c => %s (fst c) (snd c)) cases.\n" % kind
    ok, vals, raw = ctx.coq_eval(name, text)
    if not ok:
        ctx.obligation("correspondence:%s" % name, False, raw)
        return None
    return vals[0]


RULE = ("circuits over the operations accepted by each compiler on an index set drawn from {contiguous, gapped, "
        "containing indices >= 8 chosen so that set-iteration order differs from sorted order}, with dagger flags, "
        "matrix-parameter operations of 1-3 modes, and (gaussian_merge) hybrid circuits with Kerr/cubic/cross-Kerr "
        "gates in four families (1 mode, Gaussian only, displacement-free block followed by non-Gaussian gates, general); non-trivial = set order != sorted order, or a dagger flag, or a hybrid circuit with >= 2 modes")
TRUSTED_BASE = [
    "Coq 8.16.1 kernel; vm_compute (primitive floats) for evaluating the model on cases",
    "hand-written models coq/C11/Model.v of GaussianUnitary.compile and Passive.compile (sorted index map, dagger "
    "handling, block construction from primitive values, row operations), tied by float correspondence (tolerance "
    "1e-9) on generated circuits; the k>=3-mode expand(..)@Snet path is modelled by the equivalent row operation; "
    "a daggered D/R/S/S2/BS gate is modelled by sign flips of sin/sinh/amplitude (the code negates params[0])",
    "numpy elementary functions (cos, sin, cosh, sinh, sqrt, exp) evaluated by the harness on the arguments the code uses",
    "harness tools/props/c11.py: reference meaning of a source circuit = ordered product of the per-operation Gaussian "
    "channels measured on the gaussian backend through a Choi state (matrix operations from their defining matrix)",
    "gaussian_merge: DAG surgery not modelled; checked per output by Gaussian stand-ins for the non-Gaussian gates "
    "(an equality of operator words implies equality under every substitution) and by the Fock backend on replay",
]
ASSUMPTIONS = [
    "theorems hold over every commutative ring; trig/hyperbolic values enter as inputs, so no identity about them is needed",
    "the source-side meaning of a command with a dagger flag is the inverse gate (p[0] negated; U^dagger for MZgate/sMZgate)",
]
MANIFEST_TEXT = ("C11: row-operation = left multiplication, the compile-loop invariant, and C11_gunitary / C11_passive (full: "
                 "every set enumeration, every accepted command list, with and without dagger flags) proved for the code as "
                 "repaired by bc7648a/f18521d; the pre-fix behaviour is kept as *_old with its two refutations; "
                 "gaussian_merge validated per output (proved validator + stand-in equivalence), partial")

TOL = 1e-9
TRANSIENT = []  # mismatches that vanished when the reference was recomputed (reported as a broken obligation)


def _close(a, b, tol=TOL):
    a, b = np.asarray(a), np.asarray(b)
    return a.shape == b.shape and bool(np.all(np.abs(a - b) <= tol * np.maximum(1.0, np.maximum(np.abs(a), np.abs(b)))))


def remap_circuit_spec(cspec, frm, to):
    mp = dict(zip(frm, to))
    return [[n, p, [mp.get(m, m) for m in ms], d] for n, p, ms, d in cspec]


def judge(compiler, spec, dec, out_spec):
    """Evaluate the property's predicate for gaussian_unitary / passive on the implementation.
    Returns None if the compiled program has the action of the source, else (signature-suffix list, text)."""
    used = used_modes_of(spec["cmds"])
    src = source_channel(spec["cmds"], used)
    out_modes = sorted({m for c in out_spec for m in c[2]})
    if not set(out_modes) <= set(used):
        return ["acts-on-unused-modes"], "compiled program acts on modes %s, source used %s" % (out_modes, used)
    out = source_channel(out_spec, used)
    if channels_close(src, out):
        return None
    # a failure must persist when the reference is recomputed from scratch
    _CH_CACHE.clear()
    src = source_channel(spec["cmds"], used)
    out = source_channel(out_spec, used)
    if channels_close(src, out):
        TRANSIENT.append(("pure", compiler, spec))
        return None
    d0 = channel_dist(src, out)
    enum = set_order([c[2] for c in dec])
    out_enum = source_channel(remap_circuit_spec(out_spec, sorted(enum), enum), used)
    nodag = [[n, p, ms, False] for n, p, ms, d in dec]
    src_nodag = source_channel(nodag, used)
    if not channels_close(src, source_channel(dec, used)):
        return ["decompose-changes-action"], "the decomposition stage already changes the action (dist %.3g)" % d0
    if channels_close(src, out_enum):
        return ["set-order"], "matrix rows follow list(set(modes)) order %s but registers are sorted %s (dist %.3g)" % (enum, sorted(enum), d0)
    if channels_close(src_nodag, out):
        return ["dagger-ignored"], "compiled action equals the source with every dagger flag dropped (dist %.3g)" % d0
    if channels_close(src_nodag, out_enum):
        return ["set-order", "dagger-ignored"], "both: set order %s vs sorted, and dagger flags dropped (dist %.3g)" % (enum, d0)
    return ["wrong-net-action"], "compiled action differs from the ordered product of the source operations (dist %.3g)" % d0


def run_compiler_case(compiler, spec):
    """-> dict(kind=..., ...) describing what the implementation did."""
    prog = build_program(spec)
    r = compile_prog(prog, compiler, **spec.get("opts", {}))
    if r[0] == "circuit-error":
        return {"kind": "circuit-error"}
    if r[0] == "crash":
        return {"kind": "crash", "exc": r[1], "msg": r[2][:200]}
    comp = compiler_db[compiler]()
    dec = spec_of_circuit(comp.decompose(prog.circuit))
    return {"kind": "ok", "dec": dec, "out": spec_of_circuit(r[1].circuit), "prog": prog, "compiled": r[1]}


def accepted(compiler, name):
    c = compiler_db[compiler]
    return name in c.primitives or name in c.decompositions


def check_pure(ctx, compiler, spec, where):
    """Property predicate for gaussian_unitary/passive on one circuit; reports counterexamples. Returns result dict."""
    res = run_compiler_case(compiler, spec)
    data = {"check": "pure", "compiler": compiler, "spec": spec}
    ok_ops = all(accepted(compiler, c[0]) for c in spec["cmds"])
    if res["kind"] == "crash":
        ctx.counterexample("%s:crash:%s" % (compiler, res["exc"]), "compile raised %s (%s), not a CircuitError" % (res["exc"], res["msg"]), data)
    elif res["kind"] == "circuit-error":
        if ok_ops:
            ctx.counterexample("%s:rejects-accepted-circuit" % compiler, "CircuitError on a circuit made of accepted operations", data)
    else:
        if not ok_ops:
            ctx.counterexample("%s:accepts-unsupported-op" % compiler, "a circuit containing an operation outside the accepted set compiled without CircuitError", data)
        else:
            j = judge(compiler, spec, res["dec"], res["out"])
            if j is not None:
                for s in j[0]:
                    ctx.counterexample("%s:%s" % (compiler, s), "%s: %s" % (compiler, j[1]), data)
                res["judge"] = j[0]
    return res


def is_nontrivial_pure(spec):
    ms = [c[2] for c in spec["cmds"]]
    return set_order(ms) != sorted(set_order(ms)) or any(c[3] for c in spec["cmds"])


# ---------------------------------------------------------------------------------------
# correspondence: model (Coq, floats) vs implementation

def _impl_gu(seq, registers):
    out = compiler_db["gaussian_unitary"]().compile(seq, registers)
    S, regs, disp = None, None, {}
    for c in out:
        nm = c.op.__class__.__name__
        if nm == "GaussianTransform":
            S, regs = np.array(c.op.p[0], dtype=float), [r.ind for r in c.reg]
        else:
            disp[c.reg[0].ind] = complex(c.op.p[0] * np.exp(1j * c.op.p[1]))
    return S, regs, disp


def correspondence(ctx):
    rng = ctx.rng
    # ---- (1) row-operation helpers and _beam_splitter_passive, called directly
    from strawberryfields.compilers import gaussian_unitary as GUm, passive as PAm
    g = _nprng(rng)
    n_h = ctx.budget(40, 300)
    items, impl = [], []
    for _ in range(n_h):
        M = rng.randint(1, 4)
        S, r = g.normal(size=(2 * M, 2 * M)), g.normal(size=2 * M)
        two = M >= 2 and rng.random() < 0.6
        k = 4 if two else 2
        G = g.normal(size=(k, k))
        if rng.random() < 0.2:
            G = np.round(G)
        sl = rng.sample(range(M), 2) if two else [rng.randrange(M)]
        S2, r2 = S.copy(), r.copy()
        if two:
            GUm._apply_symp_two_mode_gate(G, S2, r2, sl[0], sl[1])
        else:
            GUm._apply_symp_one_mode_gate(G, S2, r2, sl[0])
        slots = sl + [s + M for s in sl]
        items.append("(rmat %s %s %s, rvec %s %s %s)" % (_fmat(G), coq.coq_list(slots, str), _fmat(S), _fmat(G), coq.coq_list(slots, str), coq.coq_list(r, _fl)))
        impl.append((S2, r2))
        ctx.case({"helper": "symp", "M": M, "slots": slots}, nontrivial=two and sl[0] > sl[1], bucket="helper-symp%d" % (k // 2))
    citems, cimpl = [], []
    for _ in range(n_h):
        M = rng.randint(1, 4)
        T = g.normal(size=(M, M)) + 1j * g.normal(size=(M, M))
        two = M >= 2 and rng.random() < 0.6
        sl = rng.sample(range(M), 2) if two else [rng.randrange(M)]
        T2 = T.copy()
        if two:
            if rng.random() < 0.5:
                th, ph = rng.uniform(-3, 3), rng.uniform(-3, 3)
                G = PAm._beam_splitter_passive(th, ph)
                ct, st, eip = np.cos(th), np.sin(th), np.cos(ph) + 1j * np.sin(ph)
                Gm = "(pa_block float 0%%float 1%%float PrimFloat.add PrimFloat.mul PrimFloat.sub PrimFloat.opp 0.5%%float false (mkPA float 4 %s [] [] false))" % coq.coq_list([ct, st, eip.real, eip.imag], _fl)
            else:
                G = g.normal(size=(2, 2)) + 1j * g.normal(size=(2, 2))
                Gm = coq.coq_list([coq.coq_list(["(%s, %s)" % (_fl(z.real), _fl(z.imag)) for z in row]) for row in G])
            PAm._apply_two_mode_gate(G, T2, sl[0], sl[1])
        else:
            G0 = complex(g.normal(), g.normal())
            Gm = "[[(%s, %s)]]" % (_fl(G0.real), _fl(G0.imag))
            PAm._apply_one_mode_gate(G0, T2, sl[0])
        Tm = coq.coq_list([coq.coq_list(["(%s, %s)" % (_fl(z.real), _fl(z.imag)) for z in row]) for row in T])
        citems.append("crmat %s %s %s" % (Gm, coq.coq_list(sl, str), Tm))
        cimpl.append(T2)
        ctx.case({"helper": "passive", "M": M, "slots": sl}, nontrivial=two and sl[0] > sl[1], bucket="helper-passive%d" % len(sl))
    text = COQ_HEADER + "Eval vm_compute in [\n%s].\nEval vm_compute in [\n%s].\n" % (";\n".join(items), ";\n".join(citems))
    ok, vals, raw = ctx.coq_eval("cases_helpers", text)
    if not ok:
        ctx.obligation("correspondence:helpers", False, raw)
    else:
        bad = 0
        for (Sm, rm), (Si, ri) in zip(vals[0], impl):
            if not (_close(Sm, Si) and _close(rm, ri)):
                bad += 1
        for Tm, Ti in zip(vals[1], cimpl):
            Tm = np.array([[complex(a, b) for a, b in row] for row in Tm])
            if not _close(Tm, Ti):
                bad += 1
        ctx.traces += len(impl) + len(cimpl)
        if bad:
            ctx.disagreement("corr:row-helpers", "%d of %d direct calls of the _apply_* row helpers differ from the model's rowop" % (bad, len(impl) + len(cimpl)), {"check": "helpers"})

    # ---- (2) the compile loops
    n_cases = ctx.budget(120, 1500)
    for kind, compiler, table in (("gu", "gaussian_unitary", {**GU_PRIMS, **GU_DECOMP}), ("pa", "passive", PASSIVE_PRIMS)):
        specs, cases, impls = [], [], []
        for i in range(n_cases):
            spec = rand_circuit(rng, table, max_used=10 if i % 12 == 5 else 4, max_cmds=8, dagger_prob=0.3 if i % 3 == 0 else 0.0)
            prog = build_program(spec)
            comp = compiler_db[compiler]()
            try:
                seq = comp.decompose(prog.circuit)
                dec = spec_of_circuit(seq)
                enum = set_order([c[2] for c in dec])
                if kind == "gu":
                    im = _impl_gu(seq, prog.register)
                else:
                    out = comp.compile(seq, prog.register)
                    im = (np.array(out[0].op.p[0]), [r.ind for r in out[0].reg])
            except Exception as e:
                ctx.counterexample("%s:crash:%s" % (compiler, type(e).__name__), "compile raised %r" % e, {"check": "pure", "compiler": compiler, "spec": spec})
                continue
            specs.append((spec, dec, enum))
            cases.append((enum, [(gu_model_cmd if kind == "gu" else pa_model_cmd)(c) for c in dec]))
            impls.append(im)
            ctx.case({"compiler": compiler, "spec": spec}, nontrivial=is_nontrivial_pure(spec),
                     bucket="%s-n%d-%s" % (kind, len(enum), "unsorted" if enum != sorted(enum) else "sorted"))
        for s0 in range(0, len(cases), 300):
            vals = model_eval(ctx, "cases_%s_%d" % (kind, s0 // 300), kind, cases[s0:s0 + 300])
            if vals is None:
                return
            for (spec, dec, enum), im, mv_ in zip(specs[s0:s0 + 300], impls[s0:s0 + 300], vals):
                ctx.traces += 1
                n = len(enum)
                diff = None
                if kind == "gu":
                    Sm, rm, ordm = mv_
                    Sm, rm = np.array(Sm, dtype=float).reshape(2 * n, 2 * n), np.array(rm, dtype=float)
                    Si, regs, disp = im
                    if Si is None:
                        if not np.allclose(Sm, np.eye(2 * n), atol=2e-5, rtol=0):
                            diff = "implementation omitted the GaussianTransform but the model's Snet is not the identity"
                    else:
                        if list(regs) != list(ordm):
                            diff = "registers %s vs model ord_reg %s" % (regs, ordm)
                        elif not _close(Sm, Si):
                            diff = "Snet differs (max %.3g)" % float(np.max(np.abs(Sm - Si)))
                    if diff is None:
                        al = 0.5 * (rm[:n] + 1j * rm[n:])
                        for i_, m in enumerate(ordm):
                            if abs(al[i_] - disp.get(m, 0.0)) > 2e-8:
                                diff = "displacement on mode %d: model %r vs implementation %r" % (m, complex(al[i_]), disp.get(m, 0.0))
                else:
                    Tm, ordm = mv_
                    Tm = np.array([[complex(a, b) for a, b in row] for row in Tm]).reshape(n, n)
                    Ti, regs = im
                    if list(regs) != list(ordm):
                        diff = "registers %s vs model ord_reg %s" % (regs, ordm)
                    elif not _close(Tm, Ti):
                        diff = "T differs (max %.3g)" % float(np.max(np.abs(Tm - Ti)))
                if diff is not None:
                    res = check_pure(ctx, compiler, spec, "corr")
                    if not res.get("judge") and res["kind"] == "ok":
                        ctx.disagreement("corr:%s" % compiler, "model vs implementation: %s" % diff, {"check": "pure", "compiler": compiler, "spec": spec})
                    elif res.get("judge"):
                        # the property fails here anyway; still a tie break unless explained by a defect the model shares
                        ctx.disagreement("corr:%s" % compiler, "model vs implementation: %s (property also fails: %s)" % (diff, res["judge"]), {"check": "pure", "compiler": compiler, "spec": spec})


# ---------------------------------------------------------------------------------------
# gaussian_merge: stand-ins, structure, Fock confirmation

def standin_channel(name, params, dag, k=None):
    """A fixed generic Gaussian map standing in for an operation gaussian_merge must leave in place (same key ->
    same map): a generic Gaussian unitary for Kgate/Vgate/CKgate, a generic noisy non-invertible Gaussian channel for
    a measurement, a generic reset channel (X = 0) for the Ket preparation."""
    k = k or NONGAUSS_ALL[name][0]
    h = int(hashlib.sha1(repr((name, [_pkey(x) for x in params], bool(dag), k)).encode()).hexdigest()[:8], 16)
    r = _random.Random(h)
    sq = [math.exp(-0.3 - 0.1 * i) for i in range(k)] + [math.exp(0.3 + 0.1 * i) for i in range(k)]
    S = symp_of_unitary(rand_unitary(r, k, "haar")) @ np.diag(sq) @ symp_of_unitary(rand_unitary(r, k, "haar"))
    d = np.array([r.uniform(-1, 1) for _ in range(2 * k)])
    if name in OPAQUE:
        B = np.array([[r.uniform(-1, 1) for _ in range(2 * k)] for _ in range(2 * k)])
        Y = 0.3 * B @ B.T + 0.2 * np.eye(2 * k)
        if name == "Ket":
            return np.zeros((2 * k, 2 * k)), Y, d
        return S @ np.diag([r.uniform(0.3, 0.8) for _ in range(2 * k)]), Y, d
    return S, np.zeros((2 * k, 2 * k)), d


def hybrid_channel(cmds, modes, nongauss="standin"):
    """source_channel with every non-Gaussian gate replaced by its stand-in (or by the identity)."""
    n = len(modes)
    pos = {m: i for i, m in enumerate(modes)}
    X, Y, d = np.eye(2 * n), np.zeros((2 * n, 2 * n)), np.zeros(2 * n)
    for name, params, ms, dag in cmds:
        if name in NONGAUSS_ALL:
            if nongauss == "identity":
                continue
            Xo, Yo, do = standin_channel(name, params, dag, len(ms))
        else:
            Xo, Yo, do = op_channel(name, params, dag)
        sl = [pos[m] for m in ms]
        E = embed(Xo, sl, n)
        X, Y, d = E @ X, E @ Y @ E.T + embed_noise(Yo, sl, n), E @ d + embed_vec(do, sl, n)
    return X, Y, d


def wire_projection(cmds, w):
    return [(c[0], tuple(_pkey(x) for x in c[1]), tuple(c[2]), bool(c[3])) for c in cmds if c[0] in NONGAUSS_ALL and w in c[2]]


def merge_family(spec):
    used = used_modes_of(spec["cmds"])
    ng = sum(1 for c in spec["cmds"] if c[0] in NONGAUSS_ALL)
    if ng == 0:
        return "gaussian-only"
    if len(used) == 1:
        return "1mode"
    # a displacement-free Gaussian part followed only by non-Gaussian gates: none of the recorded surgery
    # defects (edge lost when the block has displacement gates; later Gaussian gates hoisted over a barrier;
    # dependency-violating merge order behind a barrier) can occur here, so this family must stay clean
    flags = [c[0] in NONGAUSS_ALL for c in spec["cmds"]]
    first_ng = flags.index(True)
    if all(flags[first_ng:]) and not any(c[0] in ("Dgate", "Xgate", "Zgate") for c in spec["cmds"]):
        return "block-then-nongaussian"
    return "hybrid-multimode"


def rand_hybrid(rng, family=None, opaque=False):
    NG = NONGAUSS_ALL if opaque else NONGAUSS
    family = family or rng.choice(["1mode", "gaussian-only", "hybrid-multimode", "hybrid-multimode", "block-then-nongaussian"])
    gauss = {**GU_PRIMS, **GU_DECOMP}
    if family == "block-then-nongaussian":
        if rng.random() < 0.7:
            k = rng.randint(2, 4)
            N, used = k, list(range(k))
        else:
            N, used = rand_index_set(rng, 4)
            if len(used) < 2:
                used = used + [max(used) + 1]
                N = max(N, max(used) + 1)
        nodisp = {k_: v for k_, v in gauss.items() if k_ not in ("Dgate", "Xgate", "Zgate")}
        dp = 0.2 if rng.random() < 0.25 else 0.0
        cmds = [rand_cmd(rng, used, nodisp, dagger_prob=dp, max_mat=2) for _ in range(rng.randint(1, 6))]
        cmds += [rand_cmd(rng, used, NG, dagger_prob=dp, max_mat=2) for _ in range(rng.randint(1, 3))]
        return {"N": N, "cmds": cmds}
    if family == "1mode":
        N, used = rng.choice([(1, [0]), (3, [2]), (10, [9])])
    elif rng.random() < 0.7:
        k = rng.randint(2, 4)
        N, used = k, list(range(k))
    else:
        N, used = rand_index_set(rng, 4)
        if len(used) < 2:
            used = used + [max(used) + 1]
            N = max(N, max(used) + 1)
    n = rng.randint(1, 9)
    cmds = []
    dp = 0.25 if rng.random() < 0.25 else 0.0
    for _ in range(n):
        if family != "gaussian-only" and rng.random() < 0.3:
            cmds.append(rand_cmd(rng, used, NG, dagger_prob=dp, max_mat=2))
        else:
            cmds.append(rand_cmd(rng, used, gauss, dagger_prob=dp, max_mat=2))
    if family != "gaussian-only" and not any(c[0] in NONGAUSS_ALL for c in cmds):
        cmds.insert(rng.randrange(len(cmds) + 1), rand_cmd(rng, used, {"Kgate": NONGAUSS["Kgate"], "Vgate": NONGAUSS["Vgate"]}, dagger_prob=0.0))
    return {"N": N, "cmds": cmds}


def inverse_cmds(cmds):
    """Spec of the inverse of a Gaussian sub-circuit: reversed, gates daggered, matrices inverted."""
    out = []
    for n, ps, ms, d in reversed(cmds):
        if n == "Interferometer":
            out.append([n, [mat_to_json(mat_from_json(ps[0]).conj().T)], ms, False])
        elif n == "GaussianTransform":
            out.append([n, [mat_to_json(np.linalg.inv(mat_from_json(ps[0]).real))], ms, False])
        else:
            out.append([n, ps, ms, not d])
    return out


def rand_gaussian_sub(rng, modes, style=None):
    """A displacement-free Gaussian sub-circuit G on `modes` (list), as spec commands."""
    k = len(modes)
    style = style or rng.choice(["interferometer", "bs-chain", "s2", "mixed", "mixed", "local"])
    if style == "interferometer" or (k == 1 and style in ("bs-chain", "s2")):
        ms = list(modes)
        rng.shuffle(ms)
        return [["Interferometer", [mat_to_json(rand_unitary(rng, k, rng.choice(["haar", "haar", "real", "perm"])))], ms, False]]
    if style == "bs-chain":
        pairs = [rng.sample(modes, 2) for _ in range(rng.randint(1, 4))]
        return [["BSgate", [draw_param(rng, "a"), draw_param(rng, "a")], pr, rng.random() < 0.2] for pr in pairs]
    if style == "s2":
        pairs = [rng.sample(modes, 2) for _ in range(rng.randint(1, 2))]
        return [["S2gate", [round(rng.uniform(0.1, 0.6), 3), draw_param(rng, "a")], pr, rng.random() < 0.3] for pr in pairs]
    if style == "local":
        return [rand_cmd(rng, [m], {"Rgate": GU_PRIMS["Rgate"], "Sgate": GU_PRIMS["Sgate"], "Pgate": GU_DECOMP["Pgate"],
                                    "Fouriergate": GU_DECOMP["Fouriergate"]}, 0.2) for m in modes for _ in range(rng.randint(0, 2))] or \
               [["Rgate", [0.7], [modes[0]], False]]
    table = {k_: v for k_, v in {**GU_PRIMS, **GU_DECOMP}.items() if k_ not in ("Dgate", "Xgate", "Zgate", "GraphEmbed")}
    return [rand_cmd(rng, modes, table, 0.2, max_mat=min(3, k)) for _ in range(rng.randint(1, 4))]


def rand_displacements(rng, modes):
    out = []
    for m in modes:
        kind = rng.choice(["Dgate", "Dgate", "Xgate", "Zgate"])
        if kind == "Dgate":
            out.append(["Dgate", [round(rng.uniform(0.2, 1.2), 3), draw_param(rng, "a")], [m], rng.random() < 0.15])
        else:
            out.append([kind, [rng.choice([-1, 1]) * round(rng.uniform(0.2, 1.0), 3)], [m], rng.random() < 0.15])
    rng.shuffle(out)
    return out


def conj_block(rng, used, style=None, ndisp=None, subset=None):
    """G ; displacements ; G^-1 : net symplectic = identity on the modes of G, non-zero net displacement.
    With `subset`, G lives on a proper subset and other Gaussian gates act on the remaining modes, so the net
    symplectic is the identity only on a subset of the block's modes."""
    k = len(used)
    if subset is None:
        subset = k >= 2 and rng.random() < 0.35
    A = sorted(rng.sample(used, rng.randint(1, k - 1))) if subset else list(used)
    G = rand_gaussian_sub(rng, A, style)
    dm = rng.sample(used, ndisp if ndisp else rng.randint(1, k))
    blk = G + rand_displacements(rng, dm) + inverse_cmds(G)
    if subset:
        B = [m for m in used if m not in A]
        extra = rand_gaussian_sub(rng, B, rng.choice(["local", "mixed", "interferometer"]))
        for c in extra:  # acts on other modes only, so it may sit anywhere
            blk.insert(rng.randrange(len(blk) + 1), c)
    return blk


def rand_conj_circuit(rng, placement=None, n=None, contiguous=None, opaque=False):
    """Circuits built around identity-symplectic blocks with displacement, alone or next to non-Gaussian gates."""
    n = n or rng.randint(1, 5)
    if contiguous if contiguous is not None else rng.random() < 0.7:
        N, used = n, list(range(n))
    else:
        used = sorted(rng.sample(range(0, 20), n))
        N = max(used) + 1 + rng.choice([0, 2])
    placement = placement or rng.choice(["alone", "alone", "pre", "post", "between", "two-blocks"])
    ng = lambda: [rand_cmd(rng, used, NONGAUSS_ALL if opaque else NONGAUSS, dagger_prob=0.1, max_mat=2) for _ in range(rng.randint(1, 2))]
    cmds = conj_block(rng, used)
    if placement == "pre":
        cmds = ng() + cmds
    elif placement == "post":
        cmds = cmds + ng()
    elif placement == "between":
        cmds = ng() + cmds + ng()
    elif placement == "two-blocks":
        cmds = cmds + ng() + conj_block(rng, used)
    return {"N": N, "cmds": cmds}


def conj_sweep():
    """Small deterministic sweep (same circuits on every run): G;D..D;G^-1 for every G style, 1-5 displaced
    modes, alone / after / before / between non-Gaussian gates, contiguous and gapped registers."""
    rng = _random.Random(20260926)
    out = []
    for n in (2, 3, 4, 5):
        for style in ("interferometer", "bs-chain", "s2", "mixed"):
            for nd in sorted({1, n - 1, n}):
                for placement in ("alone", "pre", "post"):
                    used = list(range(n)) if (n + nd) % 2 else sorted(rng.sample(range(0, 12), n))
                    blk = conj_block(rng, used, style=style, ndisp=nd, subset=(placement == "pre" and n >= 3 and nd == n))
                    ngc = [rand_cmd(rng, used, NONGAUSS, dagger_prob=0.0)]
                    cmds = blk if placement == "alone" else (ngc + blk if placement == "pre" else blk + ngc)
                    out.append({"N": max(used) + 1, "cmds": cmds})
    return out


def sf_frame(e):
    tb = traceback.extract_tb(e.__traceback__)
    fr = [f for f in tb if "/strawberryfields/compilers/" in f.filename]
    return fr[-1].name if fr else "?"


class CompileTimeout(Exception):
    pass


HANGS = [0]  # compiles that did not return in this run; after 3 the remaining gaussian_merge work is skipped
MERGE_TIME_LIMIT = 6  # seconds (2 after the first compile that did not return) for one gaussian_merge compile of a <= 15-command circuit (normally milliseconds)


def compile_merge_observed(prog, **opts):
    """prog.compile(compiler='gaussian_merge') under a time limit, recording what the inner
    GaussianUnitary.compile calls returned (to tell WHICH list was empty when an IndexError comes out)."""
    import signal
    import strawberryfields.compilers.gaussian_merge as gm
    inner = []
    inner_io = []
    same_count = [0]
    orig = gm.GaussianUnitary

    class Recorder(orig):
        def compile(self, seq, registers):
            out = super().compile(seq, registers)
            inner.append([c.op.__class__.__name__ for c in out])
            inner_io.append(([(c.op.__class__.__name__, [r.ind for r in c.reg]) for c in seq],
                             [(c.op.__class__.__name__, [r.ind for r in c.reg]) for c in out]))
            # 200 consecutive identical merges (a circuit of <= 40 commands needs < 40 merges in all): the loop has
            # reached a fixed point it will never leave -- no need to wait for the alarm
            if len(inner_io) >= 2 and inner_io[-1] == inner_io[-2]:
                same_count[0] += 1
                if same_count[0] >= 200:
                    raise CompileTimeout()
            else:
                same_count[0] = 0
            del inner_io[:-2]
            return out

    def on_alarm(signum, frame):
        raise CompileTimeout()
    gm.GaussianUnitary = Recorder
    old = signal.signal(signal.SIGALRM, on_alarm)
    signal.alarm(MERGE_TIME_LIMIT)
    try:
        with warnings.catch_warnings():
            warnings.simplefilter("ignore")
            return prog.compile(compiler="gaussian_merge", **opts), inner
    except Exception as e:
        e._inner = inner
        e._inner_io = inner_io[-2:]
        raise
    finally:
        signal.alarm(0)
        signal.signal(signal.SIGALRM, old)
        gm.GaussianUnitary = orig


def check_merge_case(ctx, spec, report=True):
    """Property predicate for gaussian_merge on one hybrid circuit. Returns (signature or None, text, out_spec)."""
    prog = build_program(spec)
    fam = merge_family(spec)
    data = {"check": "merge", "spec": spec}
    sig, text, out = None, "", None
    try:
        compiled, _inner = compile_merge_observed(prog, **spec.get("opts", {}))
    except CompileTimeout as e:
        global MERGE_TIME_LIMIT
        compiled = None
        sig = "gaussian_merge:hang"
        text = "gaussian_merge did not return within %d s (the merge loop does not terminate)" % MERGE_TIME_LIMIT
        io = getattr(e, "_inner_io", [])
        if len(io) == 2 and io[0] == io[1] and io[1][0] == io[1][1] and all(n_ == "Dgate" for n_, _m in io[1][0]):
            # the recorded non-termination: a block made only of Dgates is "merged" into the very same Dgates, which
            # counts as progress, for ever (is_redundant_merge only looks at blocks headed by a GaussianTransform)
            sig += ":dgate-fixed-point"
            text += "; the loop keeps re-merging the Dgates %r into themselves" % (io[1][0],)
        else:
            MERGE_TIME_LIMIT = 2
            HANGS[0] += 1
    except CircuitError:
        if all(accepted("gaussian_merge", c[0]) for c in spec["cmds"]):
            sig, text = "gaussian_merge:rejects-accepted-circuit", "CircuitError on a circuit of accepted operations"
        compiled = None
    except Exception as e:
        compiled = None
        sig = "gaussian_merge:crash:%s@%s" % (type(e).__name__, sf_frame(e))
        text = "gaussian_merge raised %s in %s (%s) instead of compiling or raising CircuitError" % (type(e).__name__, sf_frame(e), str(e)[:120])
        if isinstance(e, IndexError):
            # the recorded finding is ONLY: the inner GaussianUnitary.compile returned [] (merged block = identity
            # with no displacement left) and that empty list was indexed; any other IndexError is something else
            last = getattr(e, "_inner", [None])[-1] if getattr(e, "_inner", None) else None
            if last != []:
                sig += ":inner-result-not-empty"
                text += " (last inner compile returned %r)" % (last,)
    if compiled is not None:
        out = spec_of_circuit(compiled.circuit)
        used = used_modes_of(spec["cmds"])
        if not {m for c in out for m in c[2]} <= set(used):
            sig, text = "gaussian_merge:acts-on-unused-modes", "compiled circuit touches modes outside the source's"
        else:
            src = hybrid_channel(spec["cmds"], used)
            dst = hybrid_channel(out, used)
            if not channels_close(src, dst, 1e-6):
                _CH_CACHE.clear()  # a failure must persist when the reference is recomputed from scratch
                src = hybrid_channel(spec["cmds"], used)
                dst = hybrid_channel(out, used)
                if channels_close(src, dst, 1e-6):
                    TRANSIENT.append(("merge", "gaussian_merge", spec))
            if not channels_close(src, dst, 1e-6):
                dec = spec_of_circuit(compiler_db["gaussian_merge"]().decompose(prog.circuit))
                wires_ok = all(wire_projection(dec, w) == wire_projection(out, w) for w in used)
                total_ok = channels_close(hybrid_channel(spec["cmds"], used, "identity"), hybrid_channel(out, used, "identity"), 1e-6)
                tsrc, tdst = hybrid_channel(spec["cmds"], used, "identity"), hybrid_channel(out, used, "identity")
                symp_ok = (np.allclose(src[0], dst[0], atol=1e-6, rtol=0) and np.allclose(src[1], dst[1], atol=1e-6, rtol=0)
                           and np.allclose(tsrc[0], tdst[0], atol=1e-6, rtol=0))
                if not wires_ok:
                    cls = "nongaussian-order-changed"
                elif total_ok:
                    cls = "misplaced-block"
                elif symp_ok:
                    # every symplectic part is right (with and without the non-Gaussian stand-ins) but the total
                    # displacement content differs: displacement gates were lost, duplicated or changed
                    cls = "displacement-lost"
                else:
                    cls = "wrong-block-content"
                sig = "gaussian_merge:%s:%s" % (fam, cls)
                text = ("compiled hybrid circuit is not equivalent to the source (non-Gaussian gates replaced by generic "
                        "stand-ins; channel distance %.3g); class %s" % (channel_dist(src, dst), cls))
    if sig and sig.startswith("gaussian_merge:crash"):
        # crashes are not family-specific except that the clean families must stay clean
        if fam != "hybrid-multimode" and "IndexError" not in sig:
            sig += ":" + fam
        elif "NetworkXUnfeasible" in sig and not spec.get("_variant"):
            # the recorded cycle defect needs an INDIRECT dependency (>= 4 primitive commands); a cycle on a
            # minimal circuit of <= 3 primitive commands (Gaussian; non-Gaussian; Gaussian) is a different defect
            def same(s2, sig0=sig):
                s2 = dict(s2, _variant=True)
                return check_merge_case(ctx, s2, report=False)[0] == sig0
            small = shrink(spec, same, max_steps=80)
            ndec = len(compiler_db["gaussian_merge"]().decompose(build_program(small).circuit))
            if ndec <= 3:
                # ... except through a Ket preparation, which the surgery does not count as a barrier at all
                sig += ":direct-dependency-via-Ket" if any(c[0] == "Ket" for c in small["cmds"]) else ":direct-dependency"
                text += " (minimal circuit has only %d primitive commands)" % ndec
    if sig and report:
        ctx.counterexample(sig, text, data)
    return sig, text, out


def scale_small(spec, f=0.15):
    out = []
    for n, ps, ms, d in spec["cmds"]:
        kinds = (GU_PRIMS.get(n) or GU_DECOMP.get(n) or NONGAUSS_ALL.get(n) or (None, []))[1]
        q = [(round(p * f, 6) if (k in ("r", "d") and not isinstance(p, dict)) else p) for p, k in zip(ps, kinds)] if kinds else ps
        out.append([n, q, ms, d])
    return {"N": spec["N"], "cmds": out}


def fock_differs(spec, cutoff=9):
    """Run source and gaussian_merge-compiled program (scaled-down parameters) on the Fock backend.
    True / False / None (not comparable: too big, compile fails, matrix ops)."""
    s = scale_small(spec)
    used = used_modes_of(s["cmds"])
    if len(used) > 3 or any(isinstance(p, dict) for c in s["cmds"] for p in c[1]) or any(c[0] in OPAQUE for c in s["cmds"]):
        return None
    if max(used) > 3:
        return None  # index-value dependent behaviour cannot be reproduced on a small Fock register
    nm = max(used) + 1
    if nm > 3:
        return None
    used = list(range(nm))
    s = {"N": nm, "cmds": s["cmds"]}
    prog = build_program(s)
    try:
        comp, _ = compile_merge_observed(prog)
        pre = [(ops.Dgate(0.2, 0.3 * (i + 1)), [i]) for i in range(len(used))]
        kets = []
        for circ in (prog.circuit, comp.circuit):
            p2 = sf.Program(len(used))
            with p2.context as q:
                for op, ms in pre + pairs_of_circuit(circ):
                    op | tuple(q[m] for m in ms)
            st = sf.Engine("fock", backend_options={"cutoff_dim": cutoff}).run(p2).state
            kets.append(st.ket())
        ov = abs(np.vdot(kets[0], kets[1])) ** 2 / (np.vdot(kets[0], kets[0]).real * np.vdot(kets[1], kets[1]).real)
        return bool(1 - ov > 1e-3)
    except Exception:
        return None


def shrink(spec, pred, max_steps=60, budget_s=15.0):
    import time as _time
    cmds = list(spec["cmds"])
    steps = 0
    changed = True
    t_end = _time.time() + budget_s
    while changed and steps < max_steps and _time.time() < t_end:
        changed = False
        for i in range(len(cmds)):
            c2 = cmds[:i] + cmds[i + 1:]
            steps += 1
            if _time.time() > t_end:
                break
            if c2 and pred(dict(spec, cmds=c2)):
                cmds = c2
                changed = True
                break
    return dict(spec, cmds=cmds)


# ---------------------------------------------------------------------------------------
# search

class _Quiet:
    """ctx stand-in used while shrinking."""
    def counterexample(self, *a, **k):
        pass


# minimal inputs of the defects repaired by the fix commits bc7648a (sorted mode order) and f18521d (dagger
# honoured); evaluated first on every run -- if one of them fails again it is reported as a VIOLATION
REGRESSION = [{'check': 'pure', 'compiler': 'gaussian_unitary', 'spec': {'N': 17, 'cmds': [['CXgate', [0.034], [16, 5], False]]}}, {'check': 'pure', 'compiler': 'gaussian_unitary', 'spec': {'N': 5, 'cmds': [['Xgate', [-0.46], [0], True]]}}, {'check': 'pure', 'compiler': 'passive', 'spec': {'N': 9, 'cmds': [['sMZgate', [-0.088, 2.5], [3, 8], False]]}}, {'check': 'pure', 'compiler': 'passive', 'spec': {'N': 2, 'cmds': [['Rgate', [-2.122], [1], True]]}}, {'check': 'merge', 'spec': {'N': 21, 'cmds': [['CXgate', [-0.697], [17, 2], False]]}}, {'check': 'merge', 'spec': {'N': 4, 'cmds': [['Pgate', [0.64], [3], True]]}}, {'check': 'merge', 'spec': {'N': 20, 'cmds': [['CXgate', [0.482], [5, 16], True]]}}]


# ---------------------------------------------------------------------------------------
# golden pass-set: a fixed stream of hybrid circuits with the outcome each had on the tree the findings were
# recorded on.  gaussian_merge has recorded defect CLASSES in the hybrid multi-mode family; an input that used to be
# compiled correctly and now fails is a different defect even if its class name is a recorded one.
GOLDEN_FILE = os.path.join(coq.VERIF, "corpus", "C11-merge-golden.json")
GOLDEN_N = 1200


def golden_specs(n):
    rng = _random.Random(777001)
    out = []
    for i in range(n):
        opq = i % 3 == 1
        sp = rand_conj_circuit(rng, opaque=opq) if i % 4 == 3 else rand_hybrid(rng, "hybrid-multimode", opaque=opq)
        out.append(sp)
    return out


def write_golden():
    """(re)record the outcomes; run by hand on the unchanged tree: python -c 'from props import c11; c11.write_golden()'"""
    exp = [check_merge_case(_Quiet(), sp, report=False)[0] for sp in golden_specs(GOLDEN_N)]
    json.dump({"property": "C11", "kind": "golden-outcomes", "data": {"check": "golden", "generator_seed": 777001, "expected": exp}},
              open(GOLDEN_FILE, "w"), indent=0)
    return exp


def golden_sweep(ctx):
    try:
        exp = json.load(open(GOLDEN_FILE))["data"]["expected"]
    except Exception as e:
        ctx.obligation("golden-pass-set:present", False, repr(e))
        return
    n = ctx.budget(300, GOLDEN_N)
    bad = 0
    for i, sp in enumerate(golden_specs(n)):
        if HANGS[0] >= 3:
            ctx.notes.append("golden sweep skipped after %d compiles that did not terminate" % HANGS[0])
            break
        sig, text, _ = check_merge_case(_Quiet(), sp, report=False)
        ctx.case({"golden": i, "outcome": sig or "ok"}, nontrivial=True, bucket="golden-%s" % ("ok" if sig is None else "known-class"))
        if sig is not None and exp[i] is None:
            bad += 1
            if bad <= 5:
                small = shrink(sp, lambda s2: check_merge_case(_Quiet(), s2, report=False)[0] == sig, budget_s=8.0)
                ctx.counterexample(sig + ":on-previously-correct-input",
                                   "an input of the fixed stream that gaussian_merge compiled correctly when the findings were recorded now fails: " + text,
                                   {"check": "merge", "spec": small, "golden_index": i})
    ctx.obligation("golden-pass-set:present", True)


def replay_corpus(ctx):
    import glob
    import os
    for k_, d in enumerate(REGRESSION):
        if d["check"] == "pure":
            res = check_pure(ctx, d["compiler"], d["spec"], "regression")
            out_ = res.get("judge") or res["kind"]
        else:
            out_ = check_merge_case(ctx, d["spec"])[0] or "ok"
        ctx.case({"regression": k_, "outcome": out_}, nontrivial=True, bucket="regression")
    for path in sorted(glob.glob(os.path.join(coq.VERIF, "corpus", "C11-*.json"))):
        try:
            d = json.load(open(path))["data"]
        except Exception as e:
            ctx.obligation("corpus:" + os.path.basename(path), False, repr(e))
            continue
        if d.get("check") == "golden":
            continue
        if d.get("check") == "pure":
            res = check_pure(ctx, d["compiler"], d["spec"], "corpus")
            ctx.case({"corpus": os.path.basename(path), "outcome": res.get("judge") or res["kind"]}, nontrivial=True, bucket="corpus")
        elif d.get("check") == "merge":
            sig, _, _ = check_merge_case(ctx, d["spec"])
            ctx.case({"corpus": os.path.basename(path), "outcome": sig or "ok"}, nontrivial=True, bucket="corpus")


def search(ctx):
    rng = ctx.rng
    replay_corpus(ctx)
    # (A) gaussian_unitary / passive: compiled matrices+registers vs ordered product of source operations
    n_pure = ctx.budget(250, 3000)
    for compiler, table in (("gaussian_unitary", {**GU_PRIMS, **GU_DECOMP}), ("passive", PASSIVE_PRIMS)):
        found = {}
        for i in range(n_pure):
            mode = i % 10
            if mode == 9:
                # malformed stream: one operation the compiler does not accept
                spec = rand_circuit(rng, table, max_used=3, max_cmds=4, dagger_prob=0.0)
                bad = {"gaussian_unitary": {"Kgate": (1, ["r"]), "LossChannel": (1, ["t"]), "Vgate": (1, ["r"])},
                       "passive": {"Sgate": (1, ["r", "a"]), "Dgate": (1, ["d", "a"]), "S2gate": (2, ["r", "a"]), "Kgate": (1, ["r"])}}[compiler]
                used = used_modes_of(spec["cmds"])
                cands = {k: v for k, v in bad.items() if v[0] <= len(used)}
                spec["cmds"].insert(rng.randrange(len(spec["cmds"]) + 1), rand_cmd(rng, used, cands, 0.0))
            else:
                spec = rand_circuit(rng, table, max_used=rng.choice([2, 3, 4, 5, 5, 9, 12]), max_cmds=rng.choice([3, 6, 10, 16]),
                                    dagger_prob=0.0 if mode < 5 else 0.3)
                if mode in (3, 8):
                    spec["opts"] = {"optimize": True}  # the other documented entry: decompose, optimise, then compile
            before = len(ctx.issues)
            res = check_pure(ctx, compiler, spec, "search")
            ctx.case({"compiler": compiler, "spec": spec, "outcome": res["kind"], "judge": res.get("judge")},
                     nontrivial=is_nontrivial_pure(spec), bucket="search-%s-%s" % (compiler, res["kind"] if not res.get("judge") else "+".join(res["judge"])))
            # shrink the first instance of every new signature so that the replay is small
            for iss in ctx.issues[before:]:
                if iss.kind == "counterexample" and iss.signature not in found:
                    found[iss.signature] = True
                    sig = iss.signature

                    def pred(s2, sig=sig, compiler=compiler):
                        class C(_Quiet):
                            sigs = []
                            def counterexample(self, s, *a, **k):
                                self.sigs.append(s)
                        c = C()
                        c.sigs = []
                        check_pure(c, compiler, s2, "shrink")
                        return c.sigs == [sig]
                    small = shrink(spec, pred)
                    iss.data = {"check": "pure", "compiler": compiler, "spec": small}
        # state-level cross-check on the backend when the compiled program is runnable
        n_state = ctx.budget(30, 250)
        for _ in range(n_state):
            spec = rand_circuit(rng, table, max_used=rng.choice([2, 3, 4]), max_cmds=6, dagger_prob=0.2)
            res = run_compiler_case(compiler, spec)
            if res["kind"] != "ok":
                continue
            used = used_modes_of(spec["cmds"])
            try:
                a = choi_state(spec["N"], used, pairs_of_circuit(res["prog"].circuit))
                b = choi_state(spec["N"], used, pairs_of_circuit(res["compiled"].circuit))
            except Exception as e:
                ctx.hist["state-level-unrunnable:" + type(e).__name__] = ctx.hist.get("state-level-unrunnable:" + type(e).__name__, 0) + 1
                continue
            ctx.case({"compiler": compiler, "spec": spec, "level": "state"}, bucket="state-%s" % compiler)
            if not states_close(a, b, 1e-6):
                ctx.counterexample("%s:state-differs" % compiler, "Result.state of source and compiled program differ on a Choi probe (dist %.3g)" % state_dist(a, b),
                                   {"check": "state", "compiler": compiler, "spec": spec})

    # (B) gaussian_merge on hybrid circuits
    n_merge = ctx.budget(300, 3500)
    found = {}
    vcases = []
    # deterministic sweep of identity-symplectic blocks with displacement (same circuits on every run), then random
    # hybrids; every third random case is built around G ; displacements ; G^-1 blocks
    todo = [("sweep", sp) for sp in conj_sweep()]
    for i in range(n_merge):
        opq = i % 4 == 1
        sp = rand_conj_circuit(rng, opaque=opq) if i % 3 == 2 else rand_hybrid(rng, opaque=opq)
        if i % 5 == 3 and not any(c[0] in NONGAUSS_ALL for c in sp["cmds"]):
            # (with non-Gaussian gates the optimiser may legitimately merge two of them, which the stand-ins cannot follow)
            sp["opts"] = {"optimize": True}
        todo.append(("random", sp))
    hangs = 0
    for origin, spec in todo:
        if hangs >= 3 or HANGS[0] >= 6:
            ctx.notes.append("gaussian_merge search stopped early after 3 compiles that did not terminate")
            break
        before = len(ctx.issues)
        sig, text, out = check_merge_case(ctx, spec)
        if out is not None:
            dec = spec_of_circuit(compiler_db["gaussian_merge"]().decompose(build_program(spec).circuit))
            vcases.append((spec, dec, out, sig))
        fam = merge_family(spec)
        conj = any(c[0] in ("Dgate", "Xgate", "Zgate") for c in spec["cmds"]) and any(c[3] or isinstance(c[1][0] if c[1] else 0, dict) for c in spec["cmds"])
        ctx.case({"compiler": "gaussian_merge", "spec": spec, "outcome": sig or "ok"}, nontrivial=fam in ("hybrid-multimode", "block-then-nongaussian") or conj,
                 bucket="merge-%s-%s-%s" % (origin, fam, (sig or "ok").replace("gaussian_merge:", "")))
        if sig == "gaussian_merge:hang":
            hangs += 1
            found[sig] = True
        if sig == "gaussian_merge:hang:dgate-fixed-point":
            found.setdefault(sig, True)  # (not shrunk: every shrink step would wait for the time limit)
        if sig and sig not in found:
            found[sig] = True
            small = shrink(spec, lambda s2, sig=sig: check_merge_case(_Quiet(), s2, report=False)[0] == sig)
            for iss in ctx.issues[before:]:
                iss.data = {"check": "merge", "spec": small}
            if "crash" not in sig:
                fd = fock_differs(small)
                ctx.notes.append("gaussian_merge %s: Fock-backend confirmation on the shrunk case: %s" % (sig, fd))
    run_validator(ctx, vcases)
    golden_sweep(ctx)
    ctx.obligation("reference-deterministic", not TRANSIENT, "mismatches that vanished on recomputation: %r" % TRANSIENT[:3])


def run_validator(ctx, vcases):
    """Translation validation: feed (decomposed source, implementation output) to the proved Coq validator."""
    def enc(cmds, ids):
        items = []
        for n, ps, ms, dg in cmds:
            if n in NONGAUSS_ALL:
                k = ids.setdefault((n, tuple(_pkey(x) for x in ps), bool(dg)), len(ids) + 1)
            else:
                k = 0
            items.append("mkH %d %s" % (k, coq.coq_list(ms, str)))
        return coq.coq_list(items, lambda t: "(%s)" % t)
    for s0 in range(0, len(vcases), 1000):
        chunk = vcases[s0:s0 + 1000]
        items = []
        for spec, dec, out, sig in chunk:
            ids = {}
            items.append("(%s, %s)" % (enc(dec, ids), enc(out, ids)))
        text = ("From Coq Require Import List Bool.\nImport ListNotations.\nFrom SFV Require Import C11.Merge.\n"
                "Definition cases : list (list hcmd * list hcmd) := [\n%s].\n"
                "Eval vm_compute in map (fun c => check_merge (fst c) (snd c)) cases.\n" % ";\n".join(items))
        ok, vals, raw = ctx.coq_eval("cases_merge_%d" % (s0 // 1000), text)
        if not ok:
            ctx.obligation("validator:gaussian_merge", False, raw)
            return
        for (spec, dec, out, sig), v in zip(chunk, vals[0]):
            ctx.traces += 1
            used = used_modes_of(spec["cmds"])
            py = all(wire_projection(dec, w) == wire_projection(out, w) for w in used)
            if bool(v) != py:
                ctx.disagreement("corr:merge-validator", "Coq check_merge says %s, harness projection says %s" % (v, py), {"check": "merge", "spec": spec})
            if not v and sig is None:
                ctx.counterexample("gaussian_merge:%s:validator-rejects" % merge_family(spec),
                                   "a non-Gaussian operation changed its place on some wire although the stand-in test passed", {"check": "merge", "spec": spec})
    ctx.obligation("validator:gaussian_merge", True)


def replay(ctx, data):
    d = data["data"]
    chk = d.get("check")
    if chk == "pure":
        class C(_Quiet):
            def __init__(self):
                self.sigs = []
            def counterexample(self, s, what, *a, **k):
                self.sigs.append(s)
                print("  ", s, "-", what)
        c = C()
        res = check_pure(c, d["compiler"], d["spec"], "replay")
        print("compiler:", d["compiler"], "outcome:", res["kind"])
        if res["kind"] == "ok":
            print("source (decomposed):", [(x[0], x[2], x[3]) for x in res["dec"]])
            print("compiled:", [(x[0], x[2]) for x in res["out"]])
        return bool(c.sigs)
    if chk == "state":
        spec = d["spec"]
        res = run_compiler_case(d["compiler"], spec)
        used = used_modes_of(spec["cmds"])
        a = choi_state(spec["N"], used, pairs_of_circuit(res["prog"].circuit))
        b = choi_state(spec["N"], used, pairs_of_circuit(res["compiled"].circuit))
        print("state distance:", state_dist(a, b))
        return not states_close(a, b, 1e-6)
    if chk == "merge":
        sig, text, out = check_merge_case(_Quiet(), d["spec"], report=False)
        print("source:", [(x[0], x[2]) for x in d["spec"]["cmds"]])
        print("compiled:", [(x[0], x[2]) for x in (out or [])])
        print("predicate:", sig, text)
        if sig and "crash" not in sig:
            fd = fock_differs(d["spec"])
            print("Fock backend (scaled-down parameters) source vs compiled differ:", fd)
        return bool(sig)
    if chk == "golden":
        print("golden outcome list, not a single input; run ./check C11 quick")
        return False
    if chk == "helpers":
        print("row-helper correspondence: re-run ./check C11 quick")
        return True
    return False
