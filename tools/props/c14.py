"""C14 implementation-side driver: program specs, builders, canonical views, round trips, diffs.

A *spec* is plain JSON:
  {"n": 3, "name": "prog"|None, "target": None|str, "shots": None|int, "cutoff": None|int,
   "tdm": None | {"N": [2], "arrays": [[..], ..], "shift": "default"|int},
   "cmds": [{"op": "Sgate", "p": [param..], "modes": [..], "dagger": bool, "select": val|None,
             "dark": list|None, "kw": {ctor kwargs}}]}
param encodings: number | {"c":[re,im]} | {"a": nested list, "dt": "int"|"float"|"complex"} (complex entries [re,im])
                 | {"s": str} | {"e": expr}
expr: ["num", x] | ["free", name] | ["meas", mode] | ["tdm", i] | ["add", e, e] | ["mul", e, e] | ["neg", e]
      | ["sin", e] | ["cos", e] | ["exp", e] | ["pow", e, k]
"""
import math
import os
import traceback
import warnings

warnings.filterwarnings("ignore")
import numpy as np  # noqa: E402
import sympy  # noqa: E402

import strawberryfields as sf  # noqa: E402
from strawberryfields import ops  # noqa: E402
import strawberryfields.parameters as sfpar  # noqa: E402
from strawberryfields.tdm import TDMProgram  # noqa: E402
from strawberryfields import io as sfio  # noqa: E402

MEASURE = ("MeasureFock", "MeasureHomodyne", "MeasureHeterodyne", "MeasureThreshold")
SCRATCH = os.path.join(os.path.dirname(os.path.dirname(os.path.dirname(os.path.abspath(__file__)))), ".work", "C14", "files")


# ------------------------------------------------------------------------------------------
# spec -> Program

def _expr(e, prog, q, p):
    k = e[0]
    if k == "num":
        return e[1]
    if k == "free":
        return prog.params(e[1])
    if k == "meas":
        return q[e[1]].par
    if k == "tdm":
        return p[e[1]]
    if k == "add":
        return _expr(e[1], prog, q, p) + _expr(e[2], prog, q, p)
    if k == "mul":
        return _expr(e[1], prog, q, p) * _expr(e[2], prog, q, p)
    if k == "neg":
        return -_expr(e[1], prog, q, p)
    if k == "pow":
        return _expr(e[1], prog, q, p) ** e[2]
    if k in ("sin", "cos", "exp"):
        return getattr(sfpar.par_funcs, k)(_expr(e[1], prog, q, p))
    raise ValueError("bad expr %r" % (e,))


def _val(v, prog=None, q=None, p=None):
    if isinstance(v, dict):
        if "c" in v:
            return complex(v["c"][0], v["c"][1])
        if "a" in v:
            dt = v.get("dt", "float")
            if dt == "complex":
                def cx(x):
                    if isinstance(x, list) and len(x) == 2 and not isinstance(x[0], list):
                        return complex(x[0], x[1])
                    return [cx(y) for y in x]
                return np.array(cx(v["a"]), dtype=complex)
            return np.array(v["a"], dtype={"int": int, "float": float}[dt])
        if "s" in v:
            return v["s"]
        if "e" in v:
            return _expr(v["e"], prog, q, p)
        if "l" in v:
            return [_val(x, prog, q, p) for x in v["l"]]
    return v


def _fresh_sympy():
    """sympy caches Symbol instances and function applications by structural equality, and MeasuredParameter keeps its
    RegRef as a mutable attribute of the cached instance: expressions built for one program can resurface, carrying
    that program's RegRefs, in the next.  Every build / load here starts from an empty cache so cases are independent."""
    try:
        from sympy.core.cache import clear_cache
        clear_cache()
    except Exception:
        pass


def build(spec):
    _fresh_sympy()
    tdm = spec.get("tdm")
    if tdm:
        prog = TDMProgram(list(tdm["N"]) if len(tdm["N"]) > 1 else tdm["N"][0], name=spec.get("name"))
        shift = tdm.get("shift", "default")
        cm = prog.context(*[list(a) for a in tdm["arrays"]], shift=shift)
    else:
        prog = sf.Program(spec["n"], name=spec.get("name"))
        cm = prog.context
    with cm as ctxv:
        if tdm:
            p, q = ctxv
        else:
            p, q = None, ctxv
        for c in spec["cmds"]:
            name = c["op"]
            if name == "New":
                ops.New(c["p"][0])
                continue
            regs = tuple(prog.reg_refs[m] for m in c["modes"])
            if name == "Del":
                ops.Del | regs
                continue
            cls = getattr(ops, name)
            args = [_val(v, prog, q, p) for v in c.get("p", [])]
            kw = {k: _val(v, prog, q, p) for k, v in c.get("kw", {}).items()}
            if c.get("select") is not None:
                kw["select"] = _val(c["select"], prog, q, p)
            if c.get("dark") is not None:
                kw["dark_counts"] = _val(c["dark"], prog, q, p)
            op = cls(*args, **kw)
            if c.get("dagger"):
                op = op.H
            op | regs
    for nm, val in (spec.get("defaults") or {}).items():
        if nm in prog.free_params:
            prog.free_params[nm].default = val
    for nm, val in (spec.get("bind") or {}).items():
        if nm in prog.free_params:
            prog.free_params[nm].val = val
    if spec.get("target") is not None:
        prog._target = spec["target"]
    if spec.get("shots") is not None:
        prog.run_options["shots"] = spec["shots"]
    if spec.get("cutoff") is not None:
        prog.backend_options["cutoff_dim"] = spec["cutoff"]
    return prog


# ------------------------------------------------------------------------------------------
# Program -> canonical view (JSON-able, no object identities)

def _num(x):
    """canonical numeric: ("num", re, im)"""
    c = complex(x)
    return ["num", c.real, c.imag]


def _sym_canon(e):
    """Map SF atoms to plain symbols with canonical names; return (expr, kinds)."""
    sub = {}
    for a in e.atoms(sympy.Symbol):
        if isinstance(a, sfpar.MeasuredParameter):
            sub[a] = sympy.Symbol("M_%d" % a.regref.ind)
        elif isinstance(a, sfpar.FreeParameter):
            sub[a] = sympy.Symbol("F_%s" % a.name)
        else:
            sub[a] = sympy.Symbol("S_%s" % a.name)
    return e.subs(sub)


def pview(x):
    import decimal
    if x is None:
        return None
    if isinstance(x, bool):
        return ["bool", bool(x)]
    if isinstance(x, str):
        return ["str", x]
    if isinstance(x, sympy.Basic):
        val = None
        try:  # the current value, when every atom is bound (or there is none)
            c_ = complex(sfpar.par_evaluate(x))
            val = [c_.real, c_.imag]
        except Exception:
            val = None
        return ["sym", sympy.srepr(_sym_canon(x)), val]
    if isinstance(x, (int, float, complex, np.number, decimal.Decimal)):
        return _num(x)
    if type(x).__name__ == "DecimalComplex":
        return _num(complex(x))
    if isinstance(x, np.ndarray):
        if x.dtype == object:
            return ["arr", list(x.shape), [pview(y) for y in x.flatten()]]
        try:
            return ["arr", list(x.shape), [_num(y) for y in x.flatten()]]
        except (TypeError, ValueError):
            return ["arr", list(x.shape), [pview(y.item() if hasattr(y, "item") else y) for y in x.flatten()]]
    if isinstance(x, (list, tuple)):
        return ["seq", [pview(y) for y in x]]
    return ["other", type(x).__name__, repr(x)[:80]]


EXTRA_ATTRS = {
    "GraphEmbed": ["sq"],
    "BipartiteGraphEmbed": ["mean_photon_per_mode", "ns"],
    "GaussianTransform": ["vacuum"],
}


def view(prog):
    cmds = []
    for c in prog.circuit:
        o = c.op
        name = type(o).__name__
        d = {"op": name, "modes": [r.ind for r in c.reg], "p": [pview(x) for x in o.p],
             "dagger": bool(getattr(o, "dagger", False)),
             "select": pview(getattr(o, "select", None)),
             "dark": pview(getattr(o, "dark_counts", None))}
        if name in EXTRA_ATTRS:
            d["extra"] = {a: pview(getattr(o, a, None)) for a in EXTRA_ATTRS[name]}
        cmds.append(d)
    v = {"type": type(prog).__name__, "n": prog.num_subsystems, "target": prog.target,
         "shots": prog.run_options.get("shots"), "cutoff": prog.backend_options.get("cutoff_dim"),
         "cmds": cmds, "tdm": None}
    if isinstance(prog, TDMProgram):
        v["tdm"] = {"N": list(prog.N), "arrays": [pview(np.asarray(a)) if not isinstance(a, np.ndarray) else pview(a) for a in prog.tdm_params],
                    "shift": prog.shift if isinstance(prog.shift, str) else int(prog.shift), "timebins": prog.timebins}
    return v


# ------------------------------------------------------------------------------------------
# comparison of views

def _kind(pv):
    if pv is None:
        return "None"
    if pv[0] == "arr":
        return "arr"
    if pv[0] == "sym":
        m, f = "Symbol('M_" in pv[1], "Symbol('F_" in pv[1]
        return "sym-mixed" if (m and f) else ("sym-meas" if m else ("sym-free" if f else "sym-const"))
    return pv[0]


def _num_close(a, b, tol):
    return abs(a[1] - b[1]) <= tol * max(1.0, abs(a[1]), abs(b[1])) and abs(a[2] - b[2]) <= tol * max(1.0, abs(a[2]), abs(b[2]))


def _flat_nums(pv):
    """flatten arr/seq of nums into (shape-ish, list) or None"""
    if pv[0] == "arr":
        return pv[1], pv[2]
    if pv[0] == "seq":
        out = []
        shape = [len(pv[1])]
        for y in pv[1]:
            if y is None:
                return None
            if y[0] == "num":
                out.append(y)
            else:
                f = _flat_nums(y)
                if f is None:
                    return None
                out.extend(f[1])
        return shape, out
    return None


def sym_equal(s1, s2):
    """equality of two canonical (srepr) expressions: structural, else same symbols and numerically equal
    (relative 1e-9; sympy's str() prints floats with 15 digits) at three fixed sample points"""
    if s1 == s2:
        return True
    try:
        e1, e2 = sympy.sympify(s1), sympy.sympify(s2)
        n1, n2 = sorted(str(x) for x in e1.free_symbols), sorted(str(x) for x in e2.free_symbols)
        if n1 != n2:
            return False
        syms = sorted(e1.free_symbols | e2.free_symbols, key=str)
        for k in range(3):
            sub = {}
            for x in syms:
                h = int(__import__("hashlib").sha1((str(x) + str(k)).encode()).hexdigest()[:6], 16)
                sub[x] = 0.3 + (h % 1000) / 1400.0
            a, b = complex(e1.evalf(30, subs=sub)), complex(e2.evalf(30, subs=sub))
            if abs(a - b) > 1e-9 * max(1.0, abs(a), abs(b)):
                return False
        return True
    except Exception:
        return False


def pv_equal(a, b, tol=0.0):
    """Semantic equality of two parameter views: numbers by value (int 0 == float 0.0), arrays and
    sequences elementwise, symbolic expressions up to algebraic identity with atoms matched by kind+name."""
    if a is None or b is None:
        return a is None and b is None
    ka, kb = a[0], b[0]
    if ka == "num" and kb == "num":
        return _num_close(a, b, tol)
    if {ka, kb} == {"sym", "num"}:
        # an expression without free / measured atoms (e.g. sf.math.sin(0.3)) is a number
        sy, nu = (a, b) if ka == "sym" else (b, a)
        if "Symbol(" not in sy[1] and len(sy) > 2 and sy[2] is not None:
            return _num_close(["num", sy[2][0], sy[2][1]], nu, max(tol, 1e-12))
        return False
    if ka == "bool" and kb == "bool":
        return a[1] == b[1]
    if ka == "bool" and kb == "num" or ka == "num" and kb == "bool":
        x, y = (a, b) if ka == "num" else (b, a)
        return x[2] == 0 and x[1] == float(y[1])
    if ka == "str" and kb == "str":
        return a[1] == b[1]
    if ka == kb and ka in ("sym", "strexpr", "rrt"):
        return sym_equal(a[1], b[1])
    if ka in ("arr", "seq") and kb in ("arr", "seq"):
        if ka == "arr" and kb == "arr" and a[1] != b[1]:
            return False
        fa, fb = _flat_nums(a), _flat_nums(b)
        if fa is None or fb is None:
            if ka == "seq" and kb == "seq" and len(a[1]) == len(b[1]):
                return all(pv_equal(x, y, tol) for x, y in zip(a[1], b[1]))
            return False
        if len(fa[1]) != len(fb[1]):
            return False
        if ka != kb and len(fa[0]) != 1 and len(fb[0]) != 1:
            pass
        return all(x[0] == "num" and y[0] == "num" and _num_close(x, y, tol) if (x[0] == "num" and y[0] == "num") else pv_equal(x, y, tol)
                   for x, y in zip(fa[1], fb[1]))
    return False


def diff_views(v1, v2, ir, tol=0.0, compare_n=False, fields=None):
    """List of (signature, description) for every respect in which v2 (loaded) differs from v1 (original)."""
    out = []
    pre = ir + ":"
    if v1["type"] != v2["type"]:
        out.append((pre + "program-type:%s->%s" % (v1["type"], v2["type"]), "program class %s loaded as %s" % (v1["type"], v2["type"])))
    if compare_n and v1["n"] != v2["n"]:
        out.append((pre + "num-subsystems", "num_subsystems %s -> %s" % (v1["n"], v2["n"])))
    for f in ("target", "shots", "cutoff"):
        if fields is not None and f not in fields:
            continue
        if v1[f] != v2[f]:
            kind = "dropped" if v2[f] is None else ("invented" if v1[f] is None else "changed")
            ctxt = ("tdm" if v1["tdm"] is not None else "plain") + ("" if f == "target" else ("+target" if v1["target"] is not None else "+no-target"))
            out.append((pre + "%s-%s:%s" % (f, kind, ctxt), "%s %r -> %r" % (f, v1[f], v2[f])))
    if (v1["tdm"] is None) != (v2["tdm"] is None):
        out.append((pre + "tdm-presence", "tdm data %s -> %s" % (v1["tdm"] is not None, v2["tdm"] is not None)))
    elif v1["tdm"] is not None:
        t1, t2 = v1["tdm"], v2["tdm"]
        if t1["N"] != t2["N"]:
            out.append((pre + "tdm-N-changed", "TDM N %r -> %r" % (t1["N"], t2["N"])))
        if t1["shift"] != t2["shift"]:
            out.append((pre + "tdm-shift-changed", "TDM shift %r -> %r" % (t1["shift"], t2["shift"])))
        if len(t1["arrays"]) != len(t2["arrays"]):
            out.append((pre + "tdm-array-count", "number of TDM arrays %d -> %d" % (len(t1["arrays"]), len(t2["arrays"]))))
        else:
            for i, (a, b) in enumerate(zip(t1["arrays"], t2["arrays"])):
                if not pv_equal(a, b, tol):
                    out.append((pre + "tdm-array-changed", "TDM array p%d %r -> %r" % (i, a, b)))
                    break
    c1, c2 = v1["cmds"], v2["cmds"]
    if len(c1) != len(c2):
        out.append((pre + "circuit-length", "circuit length %d -> %d" % (len(c1), len(c2))))
    for i, (a, b) in enumerate(zip(c1, c2)):
        where = "cmd[%d] %s" % (i, a["op"])
        if a["op"] != b["op"]:
            out.append((pre + "op-class-changed", "%s loaded as %s" % (where, b["op"])))
            continue
        if a["modes"] != b["modes"]:
            sig = "modes-reordered" if sorted(a["modes"]) == sorted(b["modes"]) else "modes-changed"
            out.append((pre + sig, "%s modes %r -> %r" % (where, a["modes"], b["modes"])))
        if a["dagger"] != b["dagger"]:
            out.append((pre + ("dagger-dropped" if a["dagger"] else "dagger-invented"), "%s dagger %s -> %s" % (where, a["dagger"], b["dagger"])))
        for f in ("select", "dark"):
            if not pv_equal(a[f], b[f], tol):
                kind = "dropped" if b[f] is None else ("invented" if a[f] is None else "changed:%s->%s" % (_kind(a[f]), _kind(b[f])))
                out.append((pre + "%s-%s" % (f, kind), "%s %s %r -> %r" % (where, f, a[f], b[f])))
        if len(a["p"]) != len(b["p"]):
            out.append((pre + "param-count", "%s has %d parameters, loaded %d" % (where, len(a["p"]), len(b["p"]))))
        for j, (x, y) in enumerate(zip(a["p"], b["p"])):
            if not pv_equal(x, y, tol):
                kx, ky = _kind(x), _kind(y)
                if kx == ky:
                    sig = "param-value-changed:" + kx
                    if kx == "num":
                        dx = complex(y[1] - x[1], y[2] - x[2])
                        k12 = dx.real / (math.pi / 12)
                        if abs(x[1] + y[1]) <= 1e-9 * max(1, abs(x[1])) and abs(x[2] + y[2]) <= 1e-9 * max(1, abs(x[2])):
                            sig += "-negated"
                        elif dx.imag == 0 and abs(k12) > 0.5 and abs(k12 - round(k12)) < 1e-4:
                            sig += "-shifted-by-multiple-of-pi/12"
                        else:
                            sig += "-other"
                    if kx.startswith("sym"):
                        try:
                            neg = sympy.srepr(-sympy.sympify(x[1]))
                            sig += "-negated" if sym_equal(neg, y[1]) else "-other"
                        except Exception:
                            sig += "-other"
                else:
                    sig = "param-kind:%s->%s" % (kx, ky)
                    if kx.startswith("sym") and ky == "num" and len(x) > 2 and x[2] is not None:
                        # a bound free parameter written as its current value: the value at least must be right
                        sig += ":frozen-at-bound-value" if _num_close(["num", x[2][0], x[2][1]], y, max(tol, 1e-12)) else ":wrong-value"
                if a["op"] in MEASURE:
                    sig = "measure-" + sig
                out.append((pre + sig, "%s parameter %d: %r -> %r" % (where, j, x, y)))
        for k in a.get("extra", {}):
            if not pv_equal(a["extra"][k], b.get("extra", {}).get(k), max(tol, 1e-9)):
                out.append((pre + "ctor-option-lost:%s.%s" % (a["op"], k), "%s attribute %s: %r -> %r" % (where, k, a["extra"][k], b.get("extra", {}).get(k))))
    # de-duplicate signatures, keep first description
    seen, res = set(), []
    for s, w in out:
        if s not in seen:
            seen.add(s)
            res.append((s, w))
    return res


# ------------------------------------------------------------------------------------------
# round trips

def _exc_site(e):
    """innermost frame inside strawberryfields / blackbird / xir (function name), for narrow signatures"""
    tb = traceback.extract_tb(e.__traceback__)
    site = None
    for fr in tb:
        fn = fr.filename
        if "/strawberryfields/" in fn or "/blackbird/" in fn or "/xir/" in fn:
            mod = "sf" if "/strawberryfields/" in fn else ("blackbird" if "/blackbird/" in fn else "xir")
            site = "%s.%s" % (mod, fr.name)
    return site or "?"


class Stage(Exception):
    def __init__(self, stage, exc):
        self.stage = stage
        self.exc = exc
        self.site = _exc_site(exc)
        super().__init__("%s: %s: %s" % (stage, type(exc).__name__, exc))

    @property
    def signature(self):
        return "%s:%s@%s" % (self.stage, type(self.exc).__name__, self.site)


def parse_level(level):
    """A route through the serialisation API is written as '<level>[+option]...':
       rec   to_program(to_ir(prog, **opts))                 text  loads(to_ir(prog, **opts).serialize())
       file  sf.save(<path>, prog, ir, **opts); sf.load(<path>, ir)      fileobj  the same through open file objects
       options: decl (to_xir add_decl=True), v1.1 (to_blackbird version="1.1"), eng-gaussian / eng-fock (generate_code eng=...)"""
    parts = level.split("+")
    opts = {}
    for o in parts[1:]:
        if o == "decl":
            opts["add_decl"] = True
        elif o.startswith("v"):
            opts["version"] = o[1:]
        elif o.startswith("eng-"):
            opts["eng"] = o[4:]
    return parts[0], opts


def write_ir(prog, ir, opts=None):
    opts = opts or {}
    try:
        if ir == "bb":
            return sfio.to_blackbird(prog, **({"version": opts["version"]} if "version" in opts else {}))
        return sfio.to_xir(prog, **({"add_decl": True} if opts.get("add_decl") else {}))
    except Exception as e:
        raise Stage("write", e)


def _frame_names(e):
    return [fr.name for fr in traceback.extract_tb(e.__traceback__)]


def roundtrip(prog, ir, level):
    """Returns (loaded_program, text or None).  Raises Stage."""
    base, opts = parse_level(level)
    if base in ("file", "fileobj"):
        # the public file API: sf.save / sf.load (which go through sf.loads and to_program)
        kw = {"add_decl": True} if (ir == "xir" and opts.get("add_decl")) else {}
        irname = "blackbird" if ir == "bb" else "xir"
        os.makedirs(SCRATCH, exist_ok=True)
        path = os.path.join(SCRATCH, "rt_%d.%s" % (os.getpid(), "xbb" if ir == "bb" else "xir"))
        try:
            try:
                if base == "fileobj":
                    with open(path, "w") as f:
                        sf.save(f, prog, ir=irname, **kw)
                else:
                    # by name: without the extension (save appends it), with it (kept as is), or as a pathlib.Path
                    import pathlib
                    variant = len(prog.circuit) % 3
                    target = path[:-4] if variant == 0 else (path if variant == 1 else pathlib.Path(path))
                    sf.save(target, prog, ir=irname, **kw)
                    stray = [f_ for f_ in os.listdir(SCRATCH) if f_.startswith("rt_%d." % os.getpid()) and os.path.join(SCRATCH, f_) != path]
                    if stray or not os.path.exists(path):
                        for f_ in stray:
                            os.remove(os.path.join(SCRATCH, f_))
                        raise Stage("write", ValueError("sf.save(%r) wrote %r instead of %r" % (type(target).__name__ + ":" + os.path.basename(str(target)), sorted(stray), os.path.basename(path))))
            except Stage:
                raise
            except Exception as e:
                raise Stage("serialize" if "serialize" in _frame_names(e) else "write", e)
            try:
                if base == "fileobj":
                    with open(path) as f:
                        text = f.read()
                    with open(path) as f:
                        return sf.load(f, ir=irname), text
                text = open(path).read()
                import pathlib
                return sf.load(pathlib.Path(path) if len(prog.circuit) % 2 else path, ir=irname), text
            except Exception as e:
                raise Stage("load" if "to_program" in _frame_names(e) else "parse", e)
        finally:
            try:
                os.remove(path)
            except OSError:
                pass
    obj = write_ir(prog, ir, opts)
    if ir == "bb" and "version" in opts and obj.version != opts["version"]:
        raise Stage("write", ValueError("to_blackbird(version=%r) produced version %r" % (opts["version"], obj.version)))
    if base == "rec":
        try:
            return sfio.to_program(obj), None
        except Exception as e:
            raise Stage("load", e)
    try:
        text = obj.serialize()
    except Exception as e:
        raise Stage("serialize", e)
    try:
        if ir == "bb":
            import blackbird
            parsed = blackbird.loads(text)
            if "version" in opts and parsed.version != opts["version"]:
                raise ValueError("version %r read back as %r" % (opts["version"], parsed.version))
        else:
            import xir
            parsed = xir.parse_script(text)
    except Exception as e:
        raise Stage("parse", e)
    try:
        return sfio.to_program(parsed), text
    except Exception as e:
        raise Stage("load", e)


class _FakeRemote:
    """what generate_code looks at on a RemoteEngine (no network here): .connection and .target"""
    connection = object()
    target = "X8_01"
    backend_name = "not-the-target"
    backend_options = {}


def roundtrip_code(prog, level="text"):
    _, opts = parse_level(level)
    eng = None
    if opts.get("eng") == "gaussian":
        eng = sf.Engine("gaussian")
    elif opts.get("eng") == "fock":
        eng = sf.Engine("fock", backend_options={"cutoff_dim": 7})
    elif opts.get("eng") == "remote":
        eng = _FakeRemote()
    try:
        code = sfio.generate_code(prog, eng=eng) if eng is not None else sfio.generate_code(prog)
    except Exception as e:
        raise Stage("write", e)
    ns = {"np": np}
    run = code
    if eng is not None:
        # the generated script ends by running the program; everything before that line is executed
        lines = code.rstrip("\n").split("\n")
        if lines[-1].strip() != "results = eng.run(prog)":
            st = Stage("write", ValueError("generated code does not end with the run statement: %r" % lines[-1]))
            st.site = "generated-code"
            raise st
        run = "\n".join(lines[:-1])
        if isinstance(eng, _FakeRemote):
            want_line = 'eng = sf.RemoteEngine("%s")' % eng.target
            if want_line not in lines:
                st = Stage("write", ValueError("generated code lacks %r: %r" % (want_line, [l_ for l_ in lines if l_.startswith("eng")])))
                st.site = "generated-code-engine"
                raise st
            run = "\n".join(l_ for l_ in lines[:-1] if l_ != want_line)
    try:
        exec(compile(run, "<generated>", "exec"), ns)  # noqa: S102 - code produced by the library under test
    except Exception as e:
        st = Stage("load", e)
        st.site = "generated-code"
        raise st
    if eng is not None and not isinstance(eng, _FakeRemote):
        e2 = ns.get("eng")
        got = (getattr(e2, "backend_name", None), (getattr(e2, "backend_options", {}) or {}).get("cutoff_dim"))
        want = (eng.backend_name, eng.backend_options.get("cutoff_dim"))
        if got != want:
            st = Stage("load", ValueError("engine %r regenerated as %r" % (want, got)))
            st.site = "generated-code-engine"
            raise st
    return ns["prog"], code


# ------------------------------------------------------------------------------------------
# running (gaussian backend) for state comparison

GAUSS_OK = {"Xgate", "Zgate", "Rgate", "Pgate", "Fouriergate", "CXgate", "CZgate", "Dgate", "Sgate", "BSgate", "MZgate",
            "S2gate", "LossChannel", "ThermalLossChannel", "Vacuum", "Coherent", "Squeezed", "DisplacedSqueezed",
            "Thermal", "Interferometer", "GraphEmbed", "BipartiteGraphEmbed", "GaussianTransform", "Gaussian",
            "MeasureHomodyne", "MeasureHeterodyne"}


def runnable_gaussian(v):
    if v["tdm"] is not None:
        return False
    for c in v["cmds"]:
        if c["op"] not in GAUSS_OK:
            return False
        if c["op"].startswith("Measure") and c["select"] is None:
            return False
        for p in c["p"]:
            if p is not None and p[0] in ("str", "other"):
                return False
            if p is not None and p[0] == "sym" and (len(p) < 3 or p[2] is None):
                return False
            if p is not None and p[0] == "num" and abs(complex(p[1], p[2])) > 50:
                return False  # squeezing / displacement of this size is numerically meaningless on the gaussian backend
    return True


def run_state(prog):
    eng = sf.Engine("gaussian")
    res = eng.run(prog.copy() if hasattr(prog, "copy") else prog)
    st = res.state
    return np.array(st.means()), np.array(st.cov())


def reduced(mc, k):
    m, c = mc
    n = len(m) // 2
    idx = list(range(k)) + [n + i for i in range(k)]
    return m[idx], c[np.ix_(idx, idx)]


# ==========================================================================================
# Generators
# ==========================================================================================
import copy
import os
import json
import re

GATES1 = {"Xgate": ["r"], "Zgate": ["r"], "Rgate": ["a"], "Pgate": ["r"], "Vgate": ["r"], "Kgate": ["r"],
          "Dgate": ["d", "a"], "Sgate": ["r", "a"]}
GATES2 = {"CXgate": ["r"], "CZgate": ["r"], "CKgate": ["r"], "BSgate": ["a", "a"], "MZgate": ["a", "a"], "S2gate": ["r", "a"]}
CHANNELS = {"LossChannel": ["t"], "ThermalLossChannel": ["t", "n"]}
PREPS = {"Vacuum": [], "Coherent": ["d", "a"], "Squeezed": ["r", "a"], "DisplacedSqueezed": ["d", "a", "r", "a"],
         "Fock": ["k"], "Thermal": ["n"]}
GENERIC = {}
for _d in (GATES1, GATES2, CHANNELS, PREPS):
    GENERIC.update(_d)
NMODES = {k: 1 for k in list(GATES1) + list(CHANNELS) + list(PREPS)}
NMODES.update({k: 2 for k in GATES2})
DAGGERABLE = set(GATES1) | set(GATES2) | {"Fouriergate"}
NONGAUSS = {"Vgate", "Kgate", "CKgate", "Fock"}

FREE_NAMES = ["a", "alpha", "b1", "foo_bar", "theta", "x"]
ODD_FREE_NAMES = ["q1", "quux", "p7", "q0"]
ANGLES = [0.0, math.pi / 2, math.pi, -math.pi / 2, math.pi / 4, 2 * math.pi, math.pi / 12, 5 * math.pi / 12, 3 * math.pi, 0.3, -0.7]


def draw_num(rng, kind):
    r = rng.random()
    if kind == "k":
        return rng.randrange(0, 4)
    if kind == "t":
        return rng.choice([1.0, 0.5, 0.25, 0.0, 1]) if r < 0.4 else rng.uniform(0.05, 1.0)
    if kind == "n":
        return rng.choice([0.0, 0.5, 1, 2.25]) if r < 0.4 else rng.uniform(0, 1.5)
    if kind == "a":
        if r < 0.35:
            return rng.choice(ANGLES)
        if r < 0.45:
            return rng.choice([0, 1, -1, 2])
        return rng.uniform(-math.pi, math.pi) if r < 0.9 else round(rng.uniform(-3, 3), 3)
    if kind == "d":
        if r < 0.3:
            return rng.choice([0.0, 0.5, 1, 1.25])
        return rng.uniform(0, 1.2)
    # r
    if r < 0.25:
        return rng.choice([0.0, 0.5, -0.5, 1, -1, -0.0, 1e-12, 0.1])
    if r < 0.30:
        return rng.choice([1e-20, 123456.789, -2.5e-7])
    return rng.uniform(-0.8, 0.8) if r < 0.9 else round(rng.uniform(-1, 1), 2)


def draw_expr(rng, atoms, depth=None):
    """expression using each atom at most once (no cancellation)"""
    atoms = list(atoms)
    rng.shuffle(atoms)
    depth = rng.choice([0, 0, 1, 1, 2, 3]) if depth is None else depth
    e = atoms.pop()
    for _ in range(depth):
        k = rng.choice(["mulnum", "addnum", "neg", "sin", "cos", "exp", "pow", "addatom", "mulatom"])
        if k == "mulnum":
            e = ["mul", ["num", rng.choice([2, 3, 0.5, -1.5, 2.25])], e]
        elif k == "addnum":
            e = ["add", e, ["num", rng.choice([1, 0.5, -0.25, 3])]]
        elif k == "neg":
            e = ["neg", e]
        elif k in ("sin", "cos", "exp"):
            e = [k, e]
        elif k == "pow":
            e = ["pow", e, rng.choice([2, 3])]
        elif atoms:
            e = ["add" if k == "addatom" else "mul", e, atoms.pop()]
    return e


def expr_atoms(e):
    if e[0] in ("free", "meas", "tdm"):
        return [tuple(e)]
    out = []
    for x in e[1:]:
        if isinstance(x, list):
            out += expr_atoms(x)
    return out


def rand_unitary(rng, n, complex_=True):
    rs = np.random.RandomState(rng.randrange(2 ** 31))
    a = rs.randn(n, n) + (1j * rs.randn(n, n) if complex_ else 0)
    qm, _ = np.linalg.qr(a)
    return qm


def arr_spec(a):
    a = np.asarray(a)
    if np.iscomplexobj(a):
        def enc(x):
            if isinstance(x, np.ndarray):
                return [enc(y) for y in x]
            return [float(x.real), float(x.imag)]
        return {"a": enc(a), "dt": "complex"}
    if a.dtype.kind == "i":
        return {"a": a.tolist(), "dt": "int"}
    return {"a": a.tolist(), "dt": "float"}


def gen_program(rng, wide=True, profile=None):
    """Random program spec.  Mostly valid, structured; `wide` adds op classes outside the Coq model's comparison
    (constructor keyword options) and rare odd inputs."""
    prof = profile or rng.choice(["clean", "clean", "mixed", "mixed", "mixed", "tdm", "options"])
    feats = set()
    if prof in ("mixed", "tdm"):
        for f, pr in (("dagger", 0.4), ("free", 0.3), ("meas", 0.3), ("select", 0.35), ("special", 0.3), ("array", 0.25),
                      ("fourier", 0.15), ("oddname", 0.06), ("meta", 0.05), ("measphi", 0.15), ("strparam", 0.12), ("mixedexpr", 0.08)):
            if rng.random() < pr:
                feats.add(f)
    spec = {"name": rng.choice(["prog", "prog", None, "my_circuit"]), "target": None, "shots": None, "cutoff": None, "tdm": None}
    if prof == "options" or rng.random() < 0.25:
        spec["target"] = rng.choice([None, "gaussian", "fock", "X8_01", "gaussian"])
        spec["shots"] = rng.choice([None, 1, 10, 500])
        spec["cutoff"] = rng.choice([None, 5, 12])
    tdm = prof == "tdm"
    if tdm:
        N = rng.choice([[1], [2], [2], [3], [1, 2], [2, 1, 1]])
        n = sum(N)
        nv = rng.randint(1, 3)
        tb = rng.randint(1, 4)
        arrays = []
        for _ in range(nv):
            kind = rng.choice(["int", "float", "angle", "mixed"])
            if kind == "int":
                arrays.append([rng.randrange(-3, 7) for _ in range(tb)])
            elif kind == "float":
                arrays.append([rng.uniform(-1, 1) for _ in range(tb)])
            elif kind == "angle":
                arrays.append([rng.choice(ANGLES) for _ in range(tb)])
            else:
                arrays.append([rng.choice([0, 0.5, 1, math.pi, rng.uniform(-1, 1)]) for _ in range(tb)])
        spec["tdm"] = {"N": N, "arrays": arrays, "shift": "default" if rng.random() < 0.9 else rng.randrange(0, 3)}
    else:
        n = rng.choice([1, 2, 2, 3, 3, 4, 5, 10, 12])
    spec["n"] = n
    ncmds = rng.choice([1, 1, 2, 3, 4, 5, 6, 8]) if not tdm else rng.choice([1, 2, 3, 4])
    cmds = []
    measured = []
    live = list(range(n))
    tdm_unused = list(range(len(spec["tdm"]["arrays"]))) if tdm else []

    def sym_param():
        atoms = []
        if tdm and (tdm_unused or rng.random() < 0.5):
            i = tdm_unused.pop() if tdm_unused else rng.randrange(len(spec["tdm"]["arrays"]))
            e = ["tdm", i]
            if rng.random() < 0.2:
                e = draw_expr(rng, [e], depth=1)
            return {"e": e}
        if "free" in feats:
            nm = rng.choice(ODD_FREE_NAMES) if ("oddname" in feats and rng.random() < 0.5) else rng.choice(FREE_NAMES)
            atoms.append(["free", nm])
        if "meas" in feats and measured:
            atoms.append(["meas", rng.choice(measured)])
        if not atoms:
            return None
        if "mixedexpr" not in feats and len(atoms) > 1:
            atoms = [rng.choice(atoms)]
        if len(atoms) > 1 and rng.random() < 0.5:
            return {"e": draw_expr(rng, atoms, depth=rng.choice([1, 2]))}
        return {"e": draw_expr(rng, [rng.choice(atoms)])}

    def numeric_params(kinds):
        ps = []
        for k in kinds:
            v = draw_num(rng, k)
            if k != "k" and (tdm or feats & {"free", "meas"}) and rng.random() < 0.45:
                s = sym_param()
                if s is not None:
                    v = s
            ps.append(v)
        return ps

    for ci in range(ncmds):
        r = rng.random()
        avail = [m for m in live]
        if not avail:
            break
        c = None
        if "meta" in feats and r < 0.12 and not tdm and len(avail) > 1:
            m = rng.choice(avail)
            live.remove(m)
            c = {"op": "Del", "p": [], "modes": [m]}
        elif "fourier" in feats and r < 0.25:
            c = {"op": "Fouriergate", "p": [], "modes": [rng.choice(avail)], "dagger": "dagger" in feats and rng.random() < 0.3}
        elif r < 0.22 and (rng.random() < 0.6 or "select" in feats or "measphi" in feats):
            kind = rng.choice(["MeasureHomodyne", "MeasureHomodyne", "MeasureFock", "MeasureHeterodyne", "MeasureThreshold"])
            if kind in ("MeasureHomodyne", "MeasureHeterodyne"):
                ms = [rng.choice(avail)]
            else:
                ms = rng.sample(avail, rng.randint(1, min(3, len(avail))))
            c = {"op": kind, "p": [], "modes": ms}
            if kind == "MeasureHomodyne":
                phi = draw_num(rng, "a")
                if (tdm and rng.random() < 0.7) or ("measphi" in feats and rng.random() < 0.6):
                    s = sym_param()
                    if s is not None:
                        phi = s
                c["p"] = [phi]
            if "select" in feats and rng.random() < 0.7:
                if kind == "MeasureHomodyne":
                    c["select"] = rng.choice([0.0, 0.5, -1.25, 1, rng.uniform(-1, 1)])
                elif kind == "MeasureHeterodyne":
                    c["select"] = rng.choice([{"c": [0.25, -0.5]}, {"c": [rng.uniform(-1, 1), rng.uniform(-1, 1)]}, 0.5])
                elif kind == "MeasureFock" and rng.random() < 0.5:
                    c["dark"] = {"l": [rng.choice([0.1, 0.0, 0.25, 1]) for _ in ms]}
                else:
                    c["select"] = {"l": [rng.randrange(0, 2 if kind == "MeasureThreshold" else 3) for _ in ms]}
            measured.extend(ms)
        elif "special" in feats and r < 0.40:
            k = rng.choice(["Catstate", "Catstate", "GKP", "MSgate", "Ket", "DensityMatrix", "Interferometer", "Interferometer",
                            "GaussianTransform", "Gaussian", "PassiveChannel"] + (["GraphEmbed"] if wide else []))
            if k == "Catstate":
                a0 = rng.choice([0.5, 1, {"c": [0.3, 0.2]}, rng.uniform(0, 1)])
                c = {"op": k, "p": [a0, draw_num(rng, "a"), rng.choice([0, 1, 0.5])], "modes": [rng.choice(avail)]}
                c["p"] += [{"s": rng.choice(["complex", "real"])}, 1e-12, 2]
            elif k == "GKP":
                c = {"op": k, "p": [{"l": [rng.choice([0, rng.uniform(0, 1)]), rng.choice([0, rng.uniform(0, 1)])]}, rng.choice([0.2, 0.35]), 1e-12, {"s": "real"}, {"s": "square"}], "modes": [rng.choice(avail)]}
            elif k == "MSgate":
                c = {"op": k, "p": [draw_num(rng, "r"), draw_num(rng, "a")] + [rng.choice([10.0, 9.0]), rng.choice([1.0, 0.95]), rng.random() < 0.5], "modes": [rng.choice(avail)]}
            elif k in ("Ket", "DensityMatrix"):
                d = rng.choice([2, 3])
                if k == "Ket":
                    v = np.zeros(d, dtype=complex if rng.random() < 0.5 else float)
                    v[rng.randrange(d)] = 1
                else:
                    v = np.zeros((d, d), dtype=complex if rng.random() < 0.5 else float)
                    j = rng.randrange(d)
                    v[j, j] = 1
                c = {"op": k, "p": [arr_spec(v)], "modes": [rng.choice(avail)]}
            elif k in ("Interferometer", "PassiveChannel"):
                m = rng.randint(1, min(3, len(avail)))
                ms = rng.sample(avail, m)
                kindU = rng.choice(["haar", "real", "perm", "id"])
                if kindU == "haar":
                    U = rand_unitary(rng, m)
                elif kindU == "real":
                    U = rand_unitary(rng, m, False)
                elif kindU == "perm":
                    perm = list(range(m))
                    rng.shuffle(perm)
                    U = np.eye(m)[perm] * (1.0 if rng.random() < 0.5 else 1)
                    if rng.random() < 0.5:
                        U = U.astype(int)
                else:
                    U = np.eye(m)
                if k == "PassiveChannel":
                    U = U * 0.5
                c = {"op": k, "p": [arr_spec(U)], "modes": ms}
            elif k == "GaussianTransform":
                m = rng.randint(1, min(2, len(avail)))
                ms = rng.sample(avail, m)
                U = rand_unitary(rng, m)
                S = np.block([[U.real, -U.imag], [U.imag, U.real]])
                c = {"op": k, "p": [arr_spec(S)], "modes": ms}
            elif k == "Gaussian":
                m = rng.randint(1, min(2, len(avail)))
                ms = rng.sample(avail, m)
                V = np.diag([rng.choice([1.0, 2.0, 1.5])] * (2 * m))
                c = {"op": k, "p": [arr_spec(V), arr_spec(np.array([rng.uniform(-1, 1) for _ in range(2 * m)]))], "modes": ms}
            elif k == "GraphEmbed":
                m = rng.randint(2, 3) if len(avail) >= 2 else 0
                if m and len(avail) >= m:
                    ms = rng.sample(avail, m)
                    A = np.ones((m, m)) - np.eye(m)
                    c = {"op": k, "p": [arr_spec(A)], "modes": ms}
                    if rng.random() < 0.6:
                        c["kw"] = {"mean_photon_per_mode": rng.choice([0.5, 2.0])}
        if c is None:
            names = [k for k in GENERIC if NMODES[k] <= len(avail)]
            name = rng.choice(names)
            ms = rng.sample(avail, NMODES[name])
            c = {"op": name, "p": numeric_params(GENERIC[name]), "modes": ms}
            if name in DAGGERABLE and "dagger" in feats and rng.random() < 0.5:
                c["dagger"] = True
            if "strparam" in feats and name in ("Zgate", "Rgate") and rng.random() < 0.3:
                c["p"] = [{"s": rng.choice(["complex", "hello"])}]
        c.setdefault("dagger", False)
        c.setdefault("select", None)
        c.setdefault("dark", None)
        cmds.append(c)
    # repeated applications of the same operation class (2-4 in total), on other / descending modes, dagger flipped
    if cmds and rng.random() < 0.4:
        for _ in range(rng.randint(1, 3)):
            src = rng.choice([c for c in cmds])
            if src["op"] not in GENERIC or len(live) < NMODES[src["op"]]:
                continue
            c2 = copy.deepcopy(src)
            ms = rng.sample(live, NMODES[src["op"]])
            c2["modes"] = sorted(ms, reverse=True) if rng.random() < 0.5 else ms
            c2["p"] = [(draw_num(rng, k) if not isinstance(v, dict) else v) for v, k in zip(src["p"], GENERIC[src["op"]])]
            if src["op"] in DAGGERABLE and rng.random() < 0.5:
                c2["dagger"] = not src.get("dagger", False)
            cmds.insert(rng.randint(0, len(cmds)), c2)
    spec["cmds"] = cmds
    if "free" in feats and not tdm and rng.random() < 0.3:
        names = set()
        for c in cmds:
            for x in c.get("p", []):
                if isinstance(x, dict) and "e" in x:
                    names |= {a_[1] for a_ in expr_atoms(x["e"]) if a_[0] == "free"}
        mode = rng.choice(["bind", "default", "both"])
        if mode in ("bind", "both"):
            spec["bind"] = {nm: rng.choice([0.25, -0.5, 1, rng.uniform(-1, 1)]) for nm in sorted(names)}
        if mode in ("default", "both"):
            spec["defaults"] = {nm: rng.choice([0.75, -0.125, 2, rng.uniform(-1, 1)]) for nm in sorted(names)}
    return spec


def spec_features(spec):
    f = set()
    for c in spec["cmds"]:
        if c.get("dagger"):
            f.add("dagger")
        if c.get("select") is not None or c.get("dark") is not None:
            f.add("select")
        for p in c.get("p", []):
            if isinstance(p, dict) and "e" in p:
                f.add("symbolic")
    if spec.get("tdm"):
        f.add("tdm")
    return f


def nontrivial(spec):
    return bool(spec_features(spec) & {"dagger", "select", "symbolic"})


# ==========================================================================================
# The property predicate on the implementation
# ==========================================================================================

CAUSE_PRIORITY = ["mixedexpr", "measexpr", "meas", "freeexpr", "free", "tdmexpr", "tdm", "constexpr", "list", "str", "bool", "arr1", "arr2", "arr3", "cplx"]
CAUSE_NAME = {"mixedexpr": "symbolic-param", "measexpr": "symbolic-param", "meas": "symbolic-param", "freeexpr": "symbolic-param",
              "free": "symbolic-param", "tdmexpr": "symbolic-param", "tdm": "symbolic-param", "constexpr": "constant-expression", "str": "str-param", "bool": "bool-param",
              "list": "list-param", "arr1": "array-1d", "arr2": "array-2d", "arr3": "array-3d", "cplx": "complex-param"}


def _pkind(p):
    if isinstance(p, bool):
        return "bool"
    if isinstance(p, dict):
        if "c" in p:
            return "cplx"
        if "a" in p:
            a = p["a"]
            d = 0
            while isinstance(a, list) and a and not (p.get("dt") == "complex" and len(a) == 2 and not isinstance(a[0], list)):
                d += 1
                a = a[0]
            return "arr%d" % d
        if "s" in p:
            return "str"
        if "l" in p:
            return "list"
        if "e" in p:
            at = expr_atoms(p["e"])
            kinds = {a[0] for a in at}
            bare = p["e"][0] in ("free", "meas", "tdm")
            if kinds == {"tdm"}:
                return "tdm" if bare else "tdmexpr"
            if kinds == {"free"}:
                return "free" if bare else "freeexpr"
            if kinds == {"meas"}:
                return "meas" if bare else "measexpr"
            if not kinds:
                return "constexpr"
            return "mixedexpr"
    return "num"


def _odd_free_name(spec):
    """free parameters whose NAME is what the readers key on: q... (taken for a register reference) or p<digits>
    (taken for a TDM loop variable)"""
    names = set()
    for c in spec["cmds"]:
        for x in c.get("p", []):
            if isinstance(x, dict) and "e" in x:
                names |= {a[1] for a in expr_atoms(x["e"]) if a[0] == "free"}
    if any(n.startswith("q") for n in names):
        return "free-param-named-q*"
    if any(re.fullmatch(r"p\d+", n) for n in names):
        return "free-param-named-p<digits>"
    return None


def spec_cause(spec):
    """Coarse input class of a (minimised) failing spec, from a fixed vocabulary."""
    parts = []
    ops_ = [c["op"] for c in spec["cmds"]]
    if "Fouriergate" in ops_:
        parts.append("Fouriergate")
    elif "Del" in ops_ or "New" in ops_:
        parts.append("meta-op")
    elif _odd_free_name(spec):
        parts.append(_odd_free_name(spec))
    else:
        kinds = set()
        meas = False
        flags = set()
        for c in spec["cmds"]:
            ks = {_pkind(x) for x in c.get("p", [])} - {"num"}
            if ks or c.get("select") is not None or c.get("dark") is not None:
                meas = meas or c["op"].startswith("Measure")
            kinds |= ks
            if c.get("select") is not None:
                flags.add("select")
            if c.get("dark") is not None:
                flags.add("dark")
        for k in CAUSE_PRIORITY:
            if k in kinds:
                parts.append(("measure-" if meas else "") + CAUSE_NAME[k])
                break
        else:
            if flags:
                parts.append("measure-" + "+".join(sorted(flags)))
            elif any(o.startswith("Measure") for o in ops_):
                parts.append("measure")
    if spec.get("tdm"):
        # TDM-ness is only named when nothing more specific explains the failure
        if not parts:
            parts.append("tdm")
        elif parts[0] in ("measure", "measure-select", "measure-dark", "measure-dark+select"):
            parts.insert(0, "tdm")
    return "|".join(parts) if parts else "plain"


# ==========================================================================================
# Reader-only routes: scripts written by an independent printer in the style people write by hand
# (shortcut names, keyword arguments, templates {a}, XIR gate definitions, pi constants) are loaded with sf.loads
# and compared with the program they denote.  This reaches reader code that writer-produced text never reaches.
# ==========================================================================================
import inspect as _inspect

SHORT = {"Vacuum": "Vac", "Fouriergate": "Fourier"}


class NotExpressible(Exception):
    pass


def _h(spec, salt):
    return int(__import__("hashlib").sha1((json.dumps(spec, sort_keys=True) + salt).encode()).hexdigest()[:8], 16)


def _ctor_names(op):
    ps = list(_inspect.signature(getattr(ops, op).__init__).parameters.values())[1:]
    return [p.name for p in ps]


def _num_text(v, ir):
    if isinstance(v, bool):
        raise NotExpressible("bool")
    if isinstance(v, int):
        return str(v)
    if isinstance(v, float):
        return repr(v)
    if isinstance(v, dict) and "c" in v:
        re_, im = v["c"]
        return "%r%s%rj" % (float(re_), "+-"[int(im < 0)], abs(float(im)))
    raise NotExpressible(repr(v)[:40])


def _expr_text(e, ir, tdm, top=True):
    """conservative syntax only: what the two grammars are documented to accept"""
    k = e[0]
    if ir == "xir" and not (k == "tdm" and top):
        raise NotExpressible("from_xir has no symbolic positional parameters")
    if k == "tdm" and not top:
        raise NotExpressible("Blackbird TDM scripts take bare loop variables")
    if k == "free" and (e[1].startswith("q") or re.fullmatch(r"p\d+", e[1])):
        raise NotExpressible("template names that look like registers / loop variables")
    if k == "num":
        return _num_text(e[1], ir) if not (isinstance(e[1], (int, float)) and e[1] < 0) else "(%s)" % _num_text(e[1], ir)
    if k == "free":
        return "{%s}" % e[1] if ir == "bb" else e[1]
    if k == "meas":
        return "q%d" % e[1]
    if k == "tdm":
        return "p%d" % e[1]
    if k == "add":
        return "(%s + %s)" % (_expr_text(e[1], ir, tdm, False), _expr_text(e[2], ir, tdm, False))
    if k == "mul":
        return "%s*%s" % (_expr_text(e[1], ir, tdm, False), _expr_text(e[2], ir, tdm, False))
    if k == "neg":
        return "(0 - %s)" % _expr_text(e[1], ir, tdm, False)
    if k == "pow":
        return "(%s)**%d" % (_expr_text(e[1], ir, tdm, False), e[2])
    return "%s(%s)" % (k, _expr_text(e[1], ir, tdm, False))


def _list_text(v, ir):
    if isinstance(v, list):
        return "[" + ", ".join(_list_text(x, ir) for x in v) + "]"
    return _num_text(v, ir)


def _val_text(v, ir, tdm, arrays):
    if isinstance(v, dict):
        if "e" in v:
            return _expr_text(v["e"], ir, tdm)
        if "l" in v:
            return _list_text(v["l"], ir)
        if "s" in v:
            if ir == "bb":
                return '"%s"' % v["s"]
            raise NotExpressible("string parameter in XIR")
        if "a" in v:
            a = _val(v)
            if ir == "xir":
                def enc(x):
                    if isinstance(x, np.ndarray):
                        return "[" + ", ".join(enc(y) for y in x) + "]"
                    if np.iscomplexobj(a):
                        return "%r%s%rj" % (float(x.real), "+-"[int(x.imag < 0)], abs(float(x.imag)))
                    return repr(x.item())
                return enc(a)
            if a.ndim != 2:
                raise NotExpressible("blackbird arrays are two-dimensional")
            nm = "A%d" % len(arrays)
            kind = "complex" if np.iscomplexobj(a) else ("int" if a.dtype.kind == "i" else "float")
            rows = []
            for row in a:
                if kind == "complex":
                    rows.append("    " + ", ".join("%r%s%rj" % (float(x.real), "+-"[int(x.imag < 0)], abs(float(x.imag))) for x in row))
                else:
                    rows.append("    " + ", ".join(repr(x.item()) for x in row))
            arrays.append("%s array %s[%d, %d] =\n%s\n" % (kind, nm, a.shape[0], a.shape[1], "\n".join(rows)))
            return nm
    return _num_text(v, ir)


def hand_blackbird(spec):
    if any(c.get("dagger") or c["op"] in ("Del", "New") or c.get("kw") for c in spec["cmds"]):
        raise NotExpressible("no Blackbird syntax")
    if spec.get("target") is None and (spec.get("shots") is not None or spec.get("cutoff") is not None):
        raise NotExpressible("options need a target line")
    tdm = spec.get("tdm")
    if tdm and (len(tdm["N"]) != 1 or tdm.get("shift", "default") != "default"):
        raise NotExpressible("Blackbird TDM scripts carry neither N nor shift")
    lines = ["name %s" % (spec.get("name") or "prog"), "version 1.0"]
    if spec.get("target") is not None:
        o = []
        if spec.get("shots") is not None:
            o.append("shots=%d" % spec["shots"])
        if spec.get("cutoff") is not None:
            o.append("cutoff_dim=%d" % spec["cutoff"])
        lines.append("target %s%s" % (spec["target"], " (%s)" % ", ".join(o) if o else ""))
    arrays = []
    if tdm:
        lines.append("type tdm (temporal_modes=%d)" % len(tdm["arrays"][0]))
        for i, a in enumerate(tdm["arrays"]):
            kind = "int" if all(isinstance(x, int) and not isinstance(x, bool) for x in a) else "float"
            arrays.append("%s array p%d[1, %d] =\n    %s\n" % (kind, i, len(a), ", ".join(repr(x if kind == "int" else float(x)) for x in a)))
    body = []
    used = set()
    for ci, c in enumerate(spec["cmds"]):
        name = c["op"]
        used |= set(c["modes"])
        ms = str(c["modes"][0]) if len(c["modes"]) == 1 else "[" + ", ".join(map(str, c["modes"])) + "]"
        if any(isinstance(v, dict) and "l" in v for v in c.get("p", [])):
            raise NotExpressible("a list is not Blackbird argument syntax")
        args = [_val_text(v, "bb", tdm, arrays) for v in c.get("p", [])]
        kws = []
        if c.get("select") is not None:
            kws.append("select=" + _val_text(c["select"], "bb", tdm, arrays))
        if c.get("dark") is not None:
            kws.append("dark_counts=" + _val_text(c["dark"], "bb", tdm, arrays))
        if name == "MeasureHomodyne" and not kws and c["p"] and not isinstance(c["p"][0], (dict, bool)) \
                and c["p"][0] in (0, math.pi / 2) and _h(spec, "short%d" % ci) % 2:
            body.append("%s | %s" % ("MeasureX" if c["p"][0] == 0 else "MeasureP", ms))
            continue
        if name == "MeasureHeterodyne" and not kws and _h(spec, "short%d" % ci) % 2:
            body.append("MeasureHD | %s" % ms)
            continue
        if not args and not kws:
            if name in SHORT and _h(spec, "short%d" % ci) % 2:
                body.append("%s | %s" % (SHORT[name], ms))
            elif name == "Fouriergate":
                body.append("Fourier | %s" % ms)
            else:
                body.append("%s() | %s" % (name, ms))
            continue
        if name == "Fouriergate":
            body.append("Fourier | %s" % ms)
            continue
        # trailing arguments by keyword, every other command
        if args and name in GENERIC and _h(spec, "kw%d" % ci) % 2:
            names = _ctor_names(name)
            cut = _h(spec, "cut%d" % ci) % (len(args) + 1)
            args = args[:cut] + ["%s=%s" % (n, a) for n, a in zip(names[cut:], args[cut:])]
        body.append("%s(%s) | %s" % (name, ", ".join(args + kws), ms))
    if max(used, default=-1) != spec["n"] - 1:
        raise NotExpressible("trailing unused modes")
    return "\n".join(lines) + "\n\n" + "\n".join(arrays) + ("\n" if arrays else "") + "\n".join(body) + "\n"


def hand_xir(spec):
    if any(c["op"] in ("Del", "New") or c.get("kw") for c in spec["cmds"]):
        raise NotExpressible("meta operation")
    tdm = spec.get("tdm")
    if tdm and tdm.get("shift", "default") != "default":
        raise NotExpressible("shift")
    opts = []
    if tdm:
        opts += ["_type_: tdm", "N: [%s]" % ", ".join(map(str, tdm["N"]))]
    if spec.get("name"):
        opts.append("_name_: %s" % spec["name"])
    if spec.get("target") is not None:
        # the reserved key and the key to_xir writes are both accepted
        opts.append("%s: %s" % ("_target_" if _h(spec, "tg") % 2 else "target", spec["target"]))
    if spec.get("cutoff") is not None:
        opts.append("cutoff_dim: %d" % spec["cutoff"])
    if spec.get("shots") is not None:
        opts.append("shots: %d" % spec["shots"])
    out = []
    if opts:
        out.append("options:\n" + "".join("    %s;\n" % o for o in opts) + "end;\n")
    if tdm:
        out.append("constants:\n" + "".join("    p%d: %s;\n" % (i, _list_text(list(a), "xir")) for i, a in enumerate(tdm["arrays"])) + "end;\n")
    used = set()
    stmts, defs = [], []
    cmds = spec["cmds"]
    i = 0
    while i < len(cmds):
        c = cmds[i]
        used |= set(c["modes"])
        name = c["op"]
        wires = "[" + ", ".join(map(str, c["modes"])) + "]"
        if name in MEASURE:
            items = []
            if c.get("p"):
                items.append("phi: " + _val_text(c["p"][0], "xir", tdm, None))
            if c.get("select") is not None:
                items.append("select: " + _val_text(c["select"], "xir", tdm, None))
            if c.get("dark") is not None:
                items.append("dark_counts: " + _val_text(c["dark"], "xir", tdm, None))
            stmts.append("%s%s | %s;" % (name, "(%s)" % ", ".join(items) if items else "", wires))
            i += 1
            continue
        args = [] if name == "Fouriergate" else [_val_text(v, "xir", tdm, None) for v in c.get("p", [])]
        numeric = all(not isinstance(v, dict) for v in c.get("p", [])) and name != "Fouriergate"
        # a user-defined gate wrapping one or two consecutive plain numeric commands
        if numeric and args and _h(spec, "def%d" % i) % 3 == 0:
            group = [c]
            if i + 1 < len(cmds) and cmds[i + 1]["op"] in GENERIC and cmds[i + 1].get("p") and not cmds[i + 1].get("dagger") \
                    and all(not isinstance(v, dict) for v in cmds[i + 1]["p"]):
                group.append(cmds[i + 1])
            gw = []
            for g in group:
                for m in g["modes"]:
                    if m not in gw:
                        gw.append(m)
            formals, actuals, inner = [], [], []
            for g in group:
                fs = []
                for v in g["p"]:
                    fs.append("x%d" % len(formals))
                    formals.append(fs[-1])
                    actuals.append(_num_text(v, "xir"))
                inner.append("    %s%s(%s) | [%s];" % ("inv " if g.get("dagger") else "", g["op"], ", ".join(fs), ", ".join("w%d" % gw.index(m) for m in g["modes"])))
                used |= set(g["modes"])
            HAND_INFO.setdefault("in_definition", []).extend(range(i, i + len(group)))
            gname = "my_gate_%d" % len(defs)
            defs.append("gate %s(%s)[%s]:\n%s\nend;\n" % (gname, ", ".join(formals), ", ".join("w%d" % k for k in range(len(gw))), "\n".join(inner)))
            stmts.append("%s(%s) | [%s];" % (gname, ", ".join(actuals), ", ".join(map(str, gw))))
            i += len(group)
            continue
        stmts.append("%s%s%s | %s;" % ("inv " if c.get("dagger") else "", name, "(%s)" % ", ".join(args) if args else "", wires))
        i += 1
    if not tdm and max(used, default=0) != spec["n"] - 1:
        raise NotExpressible("trailing unused modes")
    return "\n".join(out) + ("\n" if out else "") + "\n".join(defs) + ("\n" if defs else "") + "\n".join(stmts) + "\n"


HAND_INFO = {}


def roundtrip_hand(spec, ir):
    HAND_INFO.clear()
    if spec.get("bind") or spec.get("defaults"):
        raise NotExpressible("a binding is not part of a script")
    text = hand_blackbird(spec) if ir == "bb" else hand_xir(spec)
    try:
        return sfio.loads(text, ir="blackbird" if ir == "bb" else "xir"), text
    except Exception as e:
        raise Stage("load" if "to_program" in _frame_names(e) else "parse", e)


LEVELS = [("bb", "rec"), ("bb", "text"), ("bb", "text+v1.1"), ("bb", "file"), ("bb", "fileobj"),
          ("xir", "rec"), ("xir", "text"), ("xir", "rec+decl"), ("xir", "text+decl"), ("xir", "file+decl"), ("xir", "fileobj"),
          ("code", "text"), ("code", "text+eng-gaussian"), ("code", "text+eng-fock"), ("code", "text+eng-remote"),
          ("bb", "hand"), ("xir", "hand")]


def _eval_spec_expr(e, env):
    """value of a spec expression under the binding env (bound value, else default), computed without the library"""
    import cmath
    k = e[0]
    if k == "num":
        return e[1]
    if k == "free":
        return env[e[1]]
    if k in ("meas", "tdm"):
        raise KeyError(k)
    if k == "add":
        return _eval_spec_expr(e[1], env) + _eval_spec_expr(e[2], env)
    if k == "mul":
        return _eval_spec_expr(e[1], env) * _eval_spec_expr(e[2], env)
    if k == "neg":
        return -_eval_spec_expr(e[1], env)
    if k == "pow":
        return _eval_spec_expr(e[1], env) ** e[2]
    return {"sin": cmath.sin, "cos": cmath.cos, "exp": cmath.exp}[k](_eval_spec_expr(e[1], env))


def oracle_values(spec, v):
    """Replace the library's own evaluation of symbolic parameters in a view of build(spec) by an independent one."""
    env = dict(spec.get("defaults") or {})
    env.update(spec.get("bind") or {})
    cmds = [c for c in spec["cmds"]]
    if len(cmds) != len(v["cmds"]):
        return v
    for c, vc in zip(cmds, v["cmds"]):
        for x, pv in zip(c.get("p", []), vc["p"]):
            if isinstance(x, dict) and "e" in x and pv is not None and pv[0] == "sym" and len(pv) > 2:
                try:
                    z = complex(_eval_spec_expr(x["e"], env))
                    pv[2] = [z.real, z.imag]
                except (KeyError, OverflowError, ZeroDivisionError):
                    pv[2] = None
    return v


def check_roundtrip(spec, ir, level, with_state=True):
    """Evaluate the property's predicate for one (format, level) on the implementation.
    Returns list of issues: dict(base=signature without blame, kind, what, exc=bool)."""
    issues = []
    try:
        prog = build(spec)
    except Exception as e:  # the spec itself is not constructible: not a property failure
        return [{"base": "unbuildable", "kind": "skip", "what": "%s: %s" % (type(e).__name__, e), "exc": True}]
    v0 = oracle_values(spec, view(prog))
    tol = 0.0
    try:
        if level == "hand":
            try:
                loaded, text = roundtrip_hand(spec, ir)
            except NotExpressible:
                return []
            tol = 1e-12  # pi constants are evaluated by the XIR parser
        elif ir == "code":
            loaded, text = roundtrip_code(prog, level)
            tol = 1e-5  # _factor_out_pi snaps values within np.isclose of a multiple of pi/12
        else:
            # the writer must not modify the program it serialises
            write_ir(prog, ir, parse_level(level)[1])
            v_after = oracle_values(spec, view(prog))
            if v_after != v0:
                d = diff_views(v0, v_after, ir, compare_n=True)
                issues.append({"base": ir + ":writer-mutates-program", "kind": "mutate", "exc": False,
                               "what": "to_%s modified the program it was given: %s" % ("blackbird" if ir == "bb" else "xir", "; ".join(w for _, w in d)[:300])})
                prog = build(spec)
            loaded, text = roundtrip(prog, ir, level)
    except Stage as s:
        issues.append({"base": "%s:%s" % (ir, s.signature), "kind": "exception", "exc": True,
                       "what": "%s round trip (%s level) raised at stage %s: %s: %s" % (ir, level, s.stage, type(s.exc).__name__, str(s.exc)[:200])})
        return issues
    v1 = view(loaded)
    fields = None
    if ir == "code":
        fields = ()  # generate_code(prog) without an engine does not claim to carry target / options
    base_level = parse_level(level)[0]
    diffs = diff_views(v0, v1, ir, tol=tol, compare_n=(ir == "bb" and base_level == "rec") or ir == "code" or base_level == "hand", fields=fields)
    if base_level == "hand":
        indef = set(HAND_INFO.get("in_definition", ())) if ir == "xir" else set()

        def suffix(w):
            m_ = re.search(r"cmd\[(\d+)\]", w)
            return "@gate-definition" if (m_ and int(m_.group(1)) in indef) else "@text"
        diffs = [(s_ + suffix(w), w) for s_, w in diffs]
    elif base_level != "rec" and ir in ("bb", "xir") and diffs:
        # differences that the object-level round trip does not show are caused by the text layer: marked @text
        try:
            l2, _ = roundtrip(build(spec), ir, "+".join(["rec"] + [o for o in level.split("+")[1:] if o == "decl"]))
            rec_sigs = {s_ for s_, _ in diff_views(v0, view(l2), ir, tol=tol, compare_n=False, fields=fields)}
        except Stage:
            rec_sigs = None  # the object-level round trip fails outright (reported separately): no attribution possible
        if rec_sigs is not None:
            diffs = [(s_ if s_ in rec_sigs else s_ + "@text", w) for s_, w in diffs]
    for sig, w in diffs:
        issues.append({"base": sig, "kind": "diff", "exc": False, "what": "after %s round trip (%s level): %s" % (ir, level, w)})
    if with_state and runnable_gaussian(v0) and (not diffs or all("dagger-dropped" in d[0] for d in diffs)):
        try:
            s0 = run_state(build(spec))
        except Exception:
            s0 = None
        if s0 is not None:
            try:
                s1 = run_state(loaded)
                k = min(v0["n"], v1["n"])
                a, b = reduced(s0, k), reduced(s1, k)
                if not (np.all(np.isfinite(s0[0])) and np.all(np.isfinite(s0[1])) and np.max(np.abs(s0[1])) < 1e6):
                    raise FloatingPointError("state not finite / too large to compare")
                atol = 1e-4 if ir == "code" else 1e-5  # homodyne conditioning in the gaussian backend is itself only ~1e-7 reproducible
                same = np.allclose(a[0], b[0], atol=atol, rtol=1e-9) and np.allclose(a[1], b[1], atol=atol, rtol=1e-9)
                if v0["n"] > k:
                    # the dropped trailing modes must have been untouched vacuum
                    rest = [i for i in range(v0["n"]) if i >= k]
                    m, cv = s0
                    nn = v0["n"]
                    idx = rest + [nn + i for i in rest]
                    same = same and np.allclose(m[idx], 0, atol=1e-9) and np.allclose(cv[np.ix_(idx, idx)], np.eye(len(idx)) * cv[idx[0], idx[0]], atol=1e-9)
                if not same and not diffs:
                    issues.append({"base": ir + ":state-differs", "kind": "state", "exc": False,
                                   "what": "loaded program has the same listed commands but prepares a different Gaussian state"})
                elif diffs:
                    for it in issues:
                        if it["kind"] == "diff":
                            it["what"] += " [gaussian states of original and loaded program %s]" % ("agree" if same else "DIFFER")
            except FloatingPointError:
                pass
            except Exception as e:
                issues.append({"base": ir + ":loaded-program-does-not-run:" + type(e).__name__, "kind": "state", "exc": False,
                               "what": "original program runs on the gaussian backend, loaded one raises %s: %s" % (type(e).__name__, str(e)[:150])})
    return issues


def shrink(spec, ir, level, base):
    """Greedy minimisation keeping an issue with the same base signature."""
    def still(s):
        try:
            return any(i["base"] == base for i in check_roundtrip(s, ir, level, with_state=base.endswith("state-differs") or "does-not-run" in base))
        except Exception:
            return False
    cur = copy.deepcopy(spec)
    i = len(cur["cmds"]) - 1
    while i >= 0:
        cand = copy.deepcopy(cur)
        del cand["cmds"][i]
        if still(cand):
            cur = cand
        i -= 1
    for f in ("target", "shots", "cutoff"):
        if cur.get(f) is not None:
            cand = copy.deepcopy(cur)
            cand[f] = None
            if still(cand):
                cur = cand
    for c_i, c in enumerate(cur["cmds"]):
        if c["op"] in GENERIC:
            for p_i, pv in enumerate(c.get("p", [])):
                if isinstance(pv, dict):
                    cand = copy.deepcopy(cur)
                    cand["cmds"][c_i]["p"][p_i] = 0.5
                    if still(cand):
                        cur = cand
    for c_i, c in enumerate(cur["cmds"]):
        for f in ("dagger", "select", "dark"):
            if c.get(f):
                cand = copy.deepcopy(cur)
                cand["cmds"][c_i][f] = False if f == "dagger" else None
                if still(cand):
                    cur = cand
    return cur


def code_domain(spec):
    """generate_code is checked on programs whose parameters are scalars or TDM loop variables"""
    for c in spec["cmds"]:
        if c["op"] in ("Del", "New"):
            return False
        for x in c.get("p", []):
            if _pkind(x) not in ("num", "cplx", "tdm"):
                return False
    return True


def _rename_odd(spec):
    def ren(e):
        if e[0] == "free" and (e[1].startswith("q") or re.fullmatch(r"p\d+", e[1])):
            return ["free", "zz_" + e[1]]
        return [e[0]] + [ren(x) if isinstance(x, list) else x for x in e[1:]]
    sp = copy.deepcopy(spec)
    for c in sp["cmds"]:
        c["p"] = [({"e": ren(x["e"])} if isinstance(x, dict) and "e" in x else x) for x in c.get("p", [])]
    return sp


def full_signature(issue, min_spec, ir=None, level=None):
    if issue["exc"]:
        if _odd_free_name(min_spec) and ir is not None:
            # the odd name is only blamed when an ordinary name makes this failure go away
            sp2 = _rename_odd(min_spec)
            try:
                if any(i["base"] == issue["base"] for i in check_roundtrip(sp2, ir, level, with_state=False)):
                    return "%s[%s]" % (issue["base"], spec_cause(sp2))
            except Exception:
                pass
        return "%s[%s]" % (issue["base"], spec_cause(min_spec))
    return issue["base"]


def evaluate(ctx, spec, origin="search", levels=LEVELS, seen=None):
    """Run the predicate at every level; report counterexamples (minimised, de-duplicated per signature)."""
    found = []
    for ir, level in levels:
        if ir == "code" and not code_domain(spec):
            continue
        for it in check_roundtrip(spec, ir, level):
            if it["kind"] == "skip":
                continue
            key = (ir, level, it["base"]) if not it["exc"] else None
            if seen is not None and key is not None and key in seen:
                found.append((it["base"], ir, level))
                continue
            ms = shrink(spec, ir, level, it["base"])
            sig = full_signature(it, ms, ir, level)
            if seen is not None:
                if key is not None:
                    seen.add(key)
                if (sig, ir, level) in seen:
                    found.append((sig, ir, level))
                    continue
                seen.add((sig, ir, level))
            # re-describe on the minimised input
            what = it["what"]
            for it2 in check_roundtrip(ms, ir, level):
                if it2["base"] == it["base"]:
                    what = it2["what"]
                    break
            ctx.counterexample(sig, what, {"check": "roundtrip", "ir": ir, "level": level, "base": it["base"], "spec": ms, "origin": origin})
            found.append((sig, ir, level))
    return found


# ==========================================================================================
# Tie to the Coq model: encode specs as Gallina terms, decode model results to canonical views
# ==========================================================================================
from vlib import coq  # noqa: E402

OPNAMES = sorted(set(GENERIC) | {"Catstate", "GKP", "MSgate", "Ket", "DensityMatrix", "Interferometer", "GaussianTransform",
                                 "Gaussian", "PassiveChannel", "GraphEmbed", "BipartiteGraphEmbed", "Bosonic"})
MKIND = {"MeasureFock": "MFock", "MeasureHomodyne": "MHom", "MeasureHeterodyne": "MHet", "MeasureThreshold": "MThr"}
MKIND_INV = {v: k for k, v in MKIND.items()}
META = ["Del", "New"]
META_CLASSNAME = {"Del": "_Delete", "New": "_New_modes"}
UN = {"neg": 0, "sin": 1, "cos": 2, "exp": 3}
BIN = {"add": 0, "mul": 1, "pow": 2}
UN_INV = {v: k for k, v in UN.items()}
BIN_INV = {v: k for k, v in BIN.items()}
TARGETS = ["gaussian", "fock", "X8_01", "TD2", "bosonic", "tf"]
ERRNAME = {"ENameError": "NameError", "ETypeError": "TypeError", "EValueError": "ValueError", "EIndexError": "IndexError",
           "EAttributeError": "AttributeError"}


class Tables:
    def __init__(self):
        self.vals = []    # id -> spec value
        self.names = []   # NId / NQx index -> string
        self.lits = []    # SLit index -> string

    def vid(self, v):
        key = json.dumps(v, sort_keys=True)
        for i, (k, _) in enumerate(self.vals):
            if k == key:
                return i
        self.vals.append((key, v))
        return len(self.vals) - 1

    def name(self, s):
        if re.fullmatch(r"p\d+", s):
            return "(NP %d)" % int(s[1:])
        if re.fullmatch(r"q\d+", s):
            return "(NQ %d)" % int(s[1:])
        if s not in self.names:
            self.names.append(s)
        i = self.names.index(s)
        return ("(NQx %d)" if s[0] == "q" else "(NId %d)") % i

    def lit(self, s):
        if s not in self.lits:
            self.lits.append(s)
        return self.lits.index(s)


def enc_expr(e, T):
    k = e[0]
    if k == "num":
        return "(ENum %s)" % coq.coq_Z(T.vid(e[1]))
    if k == "free":
        return "(EAtom (AFree %s))" % T.name(e[1])
    if k == "meas":
        return "(EAtom (AMeas %d))" % e[1]
    if k == "tdm":
        return "(EAtom (AFree (NP %d)))" % e[1]
    if k in UN:
        return "(EUn %d %s)" % (UN[k], enc_expr(e[1], T))
    if k == "pow":
        return "(EBin 2 %s (ENum %s))" % (enc_expr(e[1], T), coq.coq_Z(T.vid(e[2])))
    return "(EBin %d %s %s)" % (BIN[k], enc_expr(e[1], T), enc_expr(e[2], T))


def enc_val(v, T):
    if isinstance(v, dict) and "s" in v:
        return "(VStr (SLit %d))" % T.lit(v["s"])
    if isinstance(v, dict) and "e" in v:
        return "(VSym %s)" % enc_expr(v["e"], T)
    if isinstance(v, dict) and ("l" in v or "a" in v):
        return "(VSeq %s)" % coq.coq_Z(T.vid(v))
    return "(VNum %s)" % coq.coq_Z(T.vid(v))


def enc_opt(v, f):
    return "None" if v is None else "(Some %s)" % f(v)


def enc_cmd(c, T):
    name = c["op"]
    params = [enc_val(v, T) for v in c.get("p", [])]
    if name == "Fouriergate":
        cls = "OFourier"
        params = [enc_val(math.pi / 2, T)]
    elif name in MKIND:
        cls = "(OMeas %s)" % MKIND[name]
    elif name in META:
        cls = "(OMeta %d)" % META.index(name)
        params = []
    else:
        cls = "(OGate %d)" % OPNAMES.index(name)
    return "(mkCmd %s %s %s %s %s %s)" % (cls, coq.coq_list(params), coq.coq_list(c["modes"], str), coq.coq_bool(c.get("dagger")),
                                         enc_opt(c.get("select"), lambda v: enc_val(v, T)), enc_opt(c.get("dark"), lambda v: enc_val(v, T)))


def enc_prog(spec, T):
    tdm = spec.get("tdm")
    if tdm:
        t = "(Some (mkTdm %s %s %s))" % (coq.coq_list(tdm["N"], str), coq.coq_list([coq.coq_Z(T.vid({"a": a, "dt": "obj"})) for a in tdm["arrays"]]),
                                         "None" if tdm.get("shift", "default") == "default" else "(Some %d)" % tdm["shift"])
    else:
        t = "None"
    return "(mkProg %d %s %s %s %s %s)" % (
        spec["n"], enc_opt(spec.get("target"), lambda s: str(TARGETS.index(s))), enc_opt(spec.get("shots"), coq.coq_Z),
        enc_opt(spec.get("cutoff"), coq.coq_Z), coq.coq_list([enc_cmd(c, T) for c in spec["cmds"]]), t)


# ---- decoding ---------------------------------------------------------------------------------

def _head(t):
    return t[0] if isinstance(t, tuple) else t


def dec_name(t, T):
    h = _head(t)
    if h == "NP":
        return "p%d" % t[1]
    if h == "NQ":
        return "q%d" % t[1]
    return T.names[t[1]]


def dec_expr(t, T, style):
    """style: 'sf' (atoms M_k / F_name, as _sym_canon), 'print' (free -> FREE_name, meas -> q<k>), 'names' (bare names)"""
    h = _head(t)
    if h == "EAtom":
        a = t[1]
        if _head(a) == "AMeas":
            return sympy.Symbol(("M_%d" if style == "sf" else "q%d") % a[1])
        nm = dec_name(a[1], T)
        return sympy.Symbol({"sf": "F_", "print": "FREE_", "names": ""}[style] + nm)
    if h == "ENum":
        return sympy.sympify(T.vals[t[1]][1])
    if h == "EUn":
        x = dec_expr(t[2], T, style)
        f = UN_INV[t[1]]
        return -x if f == "neg" else getattr(sympy, f)(x)
    a, b = dec_expr(t[2], T, style), dec_expr(t[3], T, style)
    f = BIN_INV[t[1]]
    return a + b if f == "add" else (a * b if f == "mul" else a ** b)


def dec_val(t, T):
    if t is None:
        return None
    h = _head(t)
    if h in ("VNum", "VSeq"):
        v = T.vals[t[1]][1]
        if isinstance(v, dict) and v.get("dt") == "obj":
            return pview(np.asarray(v["a"]))
        return pview(_val(v))
    if h == "VSym":
        return ["sym", sympy.srepr(dec_expr(t[1], T, "sf"))]
    if h == "VRRT":
        return ["rrt", sympy.srepr(dec_expr(t[1], T, "sf"))]
    s = t[1]
    sh = _head(s)
    if sh == "SLit":
        return ["str", T.lits[s[1]]]
    if sh == "SName":
        return ["strexpr", sympy.srepr(sympy.Symbol(dec_name(s[1], T)))]
    return ["strexpr", sympy.srepr(dec_expr(s[1], T, "print" if sh == "SPrint" else "names"))]


def dec_opt(t, f):
    if t is None:
        return None
    return f(t[1])


def dec_cls(t):
    h = _head(t)
    if h == "OFourier":
        return "Fouriergate"
    if h == "OMeas":
        return MKIND_INV[t[1]]
    if h == "OMeta":
        return META_CLASSNAME[META[t[1]]]
    return OPNAMES[t[1]]


def dec_prog(t, T):
    # mkProg pn ptarget pshots pcutoff pcirc ptdm
    _, n, tg, sh, cu, circ, tdm = t
    cmds = []
    for c in circ:
        _, cls, ps, ms, dg, se, da = c
        cmds.append({"op": dec_cls(cls), "modes": list(ms), "p": [dec_val(x, T) for x in ps], "dagger": bool(dg),
                     "select": dec_opt(se, lambda v: dec_val(v, T)), "dark": dec_opt(da, lambda v: dec_val(v, T))})
    v = {"type": "Program", "n": n, "target": dec_opt(tg, lambda i: TARGETS[i]), "shots": dec_opt(sh, int), "cutoff": dec_opt(cu, int),
         "cmds": cmds, "tdm": None}
    if tdm is not None:
        _, N, arrs, shift = tdm[1]
        v["type"] = "TDMProgram"
        v["tdm"] = {"N": list(N), "arrays": [dec_val(("VNum", a), T) for a in arrs], "shift": "default" if shift is None else shift[1]}
    return v


def dec_res(t, f):
    if _head(t) == "Ok":
        return ("ok", f(t[1]))
    return ("err", ERRNAME[t[1]])


def dec_bb(t, T):
    _, mx, tg, sh, cu, ops_, vars_ = t
    return {"maxmode": mx, "target": dec_opt(tg, lambda i: TARGETS[i]), "shots": dec_opt(sh, int), "cutoff": dec_opt(cu, int),
            "ops": [{"op": dec_cls(o[1]), "args": [dec_val(x, T) for x in o[2]], "select": dec_opt(o[3], lambda v: dec_val(v, T)),
                     "dark": dec_opt(o[4], lambda v: dec_val(v, T)), "modes": list(o[5])} for o in ops_],
            "vars": dec_opt(vars_, lambda l: [dec_val(("VNum", a), T) for a in l])}


def dec_x(t, T):
    _, ttdm, tg, tgus, cu, sh, st = t
    return {"tdm": dec_opt(ttdm, lambda pr: {"N": list(pr[0]), "arrays": [dec_val(("VNum", a), T) for a in pr[1]]}),
            "target": dec_opt(tg, lambda i: TARGETS[i]), "target_us": dec_opt(tgus, lambda i: TARGETS[i]),
            "cutoff": dec_opt(cu, int), "shots": dec_opt(sh, int),
            "stmts": [{"op": dec_cls(x[1]), "list": [dec_val(y, T) for y in x[2]], "phi": dec_opt(x[3], lambda v: dec_val(v, T)),
                       "select": dec_opt(x[4], lambda v: dec_val(v, T)), "dark": dec_opt(x[5], lambda v: dec_val(v, T)), "wires": list(x[6]),
                       "inv": bool(x[7])} for x in st]}


# ---- canonical form of the implementation's IR objects -------------------------------------------

FUNCS = {"sin": sympy.sin, "cos": sympy.cos, "exp": sympy.exp, "log": sympy.log, "sqrt": sympy.sqrt}


def parse_str_expr(s):
    s2 = re.sub(r"\{(\w+)\}", r"FREE_\1", s)
    idents = set(re.findall(r"[A-Za-z_]\w*", s2))
    loc = dict(FUNCS)
    for i in idents:
        if i not in FUNCS:
            loc[i] = sympy.Symbol(i)
    from sympy.parsing.sympy_parser import parse_expr
    return parse_expr(s2, local_dict=loc, global_dict={"Integer": sympy.Integer, "Float": sympy.Float, "Rational": sympy.Rational, "Symbol": sympy.Symbol})


def norm_str(pv, lits):
    """["str", s] for a non-literal string becomes ["strexpr", srepr(parsed)]; applied recursively"""
    if pv is None:
        return None
    if pv[0] == "str" and pv[1] not in lits:
        try:
            return ["strexpr", sympy.srepr(parse_str_expr(pv[1]))]
        except Exception:
            return ["str", pv[1]]
    return pv


def ir_pview(x, lits):
    if type(x).__name__ == "RegRefTransform":
        return ["rrt", sympy.srepr(_sym_canon(x.expr))]
    return norm_str(pview(x), lits)


def canon_bb(bb, lits):
    opts = bb.target["options"]
    ops_ = []
    for o in bb.operations:
        kw = dict(o.get("kwargs", {}))
        d = {"op": o["op"], "args": [ir_pview(x, lits) for x in o.get("args", [])], "select": ir_pview(kw.pop("select", None), lits),
             "dark": ir_pview(kw.pop("dark_counts", None), lits), "modes": list(o["modes"])}
        if kw:
            d["other_kwargs"] = sorted(kw)
        ops_.append(d)
    vars_ = None
    if bb.programtype["name"] == "tdm":
        vars_ = [pview(np.asarray(bb._var[k]).flatten()) for k in bb._var]
    return {"maxmode": max(bb.modes), "target": bb.target["name"], "shots": opts.get("shots"), "cutoff": opts.get("cutoff_dim"),
            "ops": ops_, "vars": vars_}


def canon_x(x, lits):
    o = x.options
    st = []
    for s_ in x.statements:
        ps = s_.params
        d = {"op": s_.name, "list": [], "phi": None, "select": None, "dark": None, "wires": [int(w) for w in s_.wires],
             "inv": bool(s_.is_inverse)}
        if isinstance(ps, dict):
            ps = dict(ps)
            d["phi"] = ir_pview(ps.pop("phi", None), lits)
            d["select"] = ir_pview(ps.pop("select", None), lits)
            d["dark"] = ir_pview(ps.pop("dark_counts", None), lits)
            if ps:
                d["other_kwargs"] = sorted(ps)
        else:
            d["list"] = [ir_pview(y, lits) for y in ps]
        st.append(d)
    tdm = None
    if o.get("_type_") == "tdm":
        consts = x.constants
        tdm = {"N": list(o.get("N")), "arrays": [pview(np.asarray(consts[k], dtype=object)) for k in consts]}
    return {"tdm": tdm, "target": o.get("target"), "target_us": o.get("_target_"), "cutoff": o.get("cutoff_dim"), "shots": o.get("shots"), "stmts": st}


def ir_equal(a, b):
    """structural equality of canonical IR dicts with pv_equal on parameter views; returns list of differing paths"""
    out = []

    def is_pv(x):
        return isinstance(x, list) and x and isinstance(x[0], str) and x[0] in ("num", "arr", "seq", "str", "strexpr", "sym", "rrt", "bool", "other")

    def go(x, y, path):
        if is_pv(x) or is_pv(y):
            if not (is_pv(x) and is_pv(y) and pv_equal(x, y)):
                out.append("%s: %r vs %r" % (path, x, y))
        elif isinstance(x, dict) and isinstance(y, dict):
            for k in sorted(set(x) | set(y)):
                if k not in x or k not in y:
                    out.append("%s.%s: present on one side only" % (path, k))
                else:
                    go(x[k], y[k], path + "." + k)
        elif isinstance(x, list) and isinstance(y, list):
            if len(x) != len(y):
                out.append("%s: length %d vs %d" % (path, len(x), len(y)))
            for i, (p_, q_) in enumerate(zip(x, y)):
                go(p_, q_, "%s[%d]" % (path, i))
        elif x != y:
            out.append("%s: %r vs %r" % (path, x, y))
    go(a, b, "")
    return out


def norm_view(v, lits):
    v = copy.deepcopy(v)
    for c in v["cmds"]:
        c["p"] = [norm_str(x, lits) for x in c["p"]]
        c["select"] = norm_str(c["select"], lits)
        c["dark"] = norm_str(c["dark"], lits)
        c.pop("extra", None)
    if v.get("tdm"):
        v["tdm"].pop("timebins", None)
    return v


def impl_records(spec, lits):
    """Run the implementation's writers and readers at object level; return canonical results."""
    out = {}
    for ir in ("bb", "xir", "xird"):
        prog = build(spec)
        try:
            if ir == "bb":
                # the version argument only labels the program
                ver = "1.%d" % (len(spec["cmds"]) % 3)
                obj = sfio.to_blackbird(prog, version=ver)
                if obj.version != ver:
                    raise AssertionError("to_blackbird(version=%r) gave %r" % (ver, obj.version))
            else:
                obj = sfio.to_xir(prog, add_decl=True) if ir == "xird" else sfio.to_xir(prog, add_decl=False)
            if ir == "xird":
                cx = canon_x(obj, lits)
                cx["gate_decls"] = [[g.name, len(g.params), len(g.wires)] for g in obj.declarations["gate"]]
                cx["out_decls"] = sorted(o.name for o in obj.declarations["out"])
                out[ir + "_w"] = ("ok", cx)
            else:
                out[ir + "_w"] = ("ok", canon_bb(obj, lits) if ir == "bb" else canon_x(obj, lits))
        except Exception as e:
            out[ir + "_w"] = ("err", type(e).__name__)
            out[ir + "_r"] = ("err", type(e).__name__)
            continue
        try:
            loaded = sfio.to_program(obj)
            out[ir + "_r"] = ("ok", norm_view(view(loaded), lits))
        except Exception as e:
            out[ir + "_r"] = ("err", type(e).__name__)
    return out


def model_domain(spec):
    """specs the Coq model speaks about"""
    if spec.get("bind") or spec.get("defaults"):
        return False
    for c in spec["cmds"]:
        if c.get("kw") or c["op"] == "New":
            return False
        if any(_pkind(x) == "constexpr" for x in c.get("p", [])):
            return False
        for x in c.get("p", []):
            if isinstance(x, dict) and "e" in x:
                for a_ in expr_atoms(x["e"]):
                    # the model does not bound-check register[k] for a free parameter named q<k> (left to the search)
                    if a_[0] == "free" and re.fullmatch(r"q\d+", a_[1]) and int(a_[1][1:]) >= spec["n"]:
                        return False
        if c["op"] not in OPNAMES and c["op"] not in MKIND and c["op"] not in META and c["op"] != "Fouriergate":
            return False
    return True


def expr_survives(spec):
    """sympy must not have simplified away an atom of a generated expression (the abstract expression is only a label)"""
    try:
        prog = build(spec)
    except Exception:
        return False
    k = 0
    for c, cm in zip(spec["cmds"], [x for x in prog.circuit]):
        for sp, actual in zip(c.get("p", []), cm.op.p):
            if isinstance(sp, dict) and "e" in sp:
                if not isinstance(actual, sympy.Basic):
                    return False
                want = set()
                for a in expr_atoms(sp["e"]):
                    want.add(("M_%d" % a[1]) if a[0] == "meas" else ("F_p%d" % a[1] if a[0] == "tdm" else "F_" + a[1]))
                have = {str(s_) for s_ in _sym_canon(actual).free_symbols}
                if want != have:
                    return False
    return True


# ==========================================================================================
# The check module proper
# ==========================================================================================
PROP = "C14"
LEVEL = "proof"
COQ_TARGETS = ["C14/Model.vo", "C14/Proofs.vo", "C14/Refuted.vo", "C14/Converse.vo", "C14/Decl.vo"]
COQ_DIRS = ["C14"]
PROPERTIES_FILE = "Properties/C14.v"
ALLOWED_AXIOMS = set()
RULE = ("a case is one generated program (1-12 modes incl. non-contiguous / descending / >=9 mode indices, 0-8 commands over every "
        "operation class of the front end: gates, channels, preparations, four measurement classes, decompositions with array "
        "arguments, Fouriergate, Del; parameters int / float (incl. -0.0, 1e-20, multiples of pi) / complex / 1-d, 2-d real and complex "
        "arrays / strings / bool / free, measured, mixed and TDM-loop-variable expressions; daggers; select / dark_counts; target, "
        "shots, cutoff_dim; TDM programs with 1-3 arrays, N of 1-3 bands, shift; the same operation class applied 2-4 times on other / "
        "descending modes, daggered and not) pushed through every route of the serialisation API: to_blackbird (default and version=), "
        "to_xir (add_decl False / True), to_program, serialize + blackbird.loads / xir.parse_script, sf.save / sf.load by file name "
        "(extension appended) and by open file object, generate_code without engine and with a gaussian / fock(cutoff) engine; "
        "reader-only routes: Blackbird and XIR scripts written by an independent printer in hand-written style (shortcut names Vac / "
        "Fourier / MeasureX / MeasureP / MeasureHD, keyword arguments, {a} templates, measured-parameter expressions, 2-d array "
        "variables, XIR user-defined gates wrapping 1-2 commands) loaded with sf.loads; free parameters also bound / with defaults "
        "(values checked against an independent evaluation), expressions without atoms; "
        "non-trivial = contains a dagger, a select/dark_counts or a symbolic parameter")
TRUSTED_BASE = [
    "Coq 8.16.1 kernel; vm_compute for evaluating the model on generated programs",
    "hand-written model coq/C14/Model.v of to_blackbird / from_blackbird / from_blackbird_to_tdm / to_xir / from_xir / from_xir_to_tdm / "
    "par_convert at the level of Program <-> IR operation records, tied on every run by exact correspondence (writer output records, "
    "reader results and exception kinds) on generated programs",
    "the text layer (blackbird / xir printers and parsers, external packages), sympy printing and generate_code are not modelled; they are "
    "exercised end to end by the search (sf.loads(serialize(p)), exec(generate_code(p)))",
    "harness: tools/props/c14.py (spec builder, canonical views, semantic comparison of parameters incl. sympy simplification for "
    "symbolic ones, gaussian backend for state comparison)",
]
ASSUMPTIONS = [
    "non-symbolic, non-string parameter values are opaque in the model (the code passes them through); string literals used as parameters "
    "are not of the form p<digits> or {..}; symbolic parameters contain at least one unbound / unmeasured atom; a free parameter "
    "named q<k> has k < number of modes in the modelled domain (the IndexError otherwise is found by the search only)",
    "neither text format declares the number of modes, so unused trailing modes are not required to survive a text round trip "
    "(num_subsystems is compared only for the Blackbird object-level round trip and generate_code)",
    "program name and Interferometer mesh / tolerance options are not part of the compared meaning; generate_code is checked on programs "
    "whose parameters are scalars or TDM loop variables, with 1e-5 relative tolerance (it snaps values to multiples of pi/12)",
]
MANIFEST_TEXT = ("C14: Coq theorems C14_bb_roundtrip / C14_xir_roundtrip (for every program satisfying the decidable hypotheses bb_prog_ok / "
                 "xir_prog_ok, from(to(p)) = p exactly - commands, parameters, modes, dagger (XIR), select, dark_counts, target, options, TDM "
                 "data); C14_bb_roundtrip_iff: for well-formed programs the Blackbird hypotheses are also necessary (full, iff); for XIR the "
                 "converse is not proved.  Universally quantified 'never survives' theorems and _refuted witnesses show which hypotheses "
                 "cannot be dropped for the current code (all recorded as known findings).  Model tied to /repo by exact correspondence of "
                 "writer records, reader results and exception kinds; the text layer (external blackbird / xir packages) and generate_code "
                 "are covered by the failing-input search only")


def _corpus_files():
    import glob
    import os
    return sorted(glob.glob(os.path.join(coq.VERIF, "corpus", "C14-*.json")))


def correspondence(ctx):
    rng = ctx.rng
    n_cases = ctx.budget(100, 1500)
    # the fixed sweep first (every parameter kind in every slot, plain and TDM), then random programs
    specs = [sp for sp in systematic_specs() if model_domain(sp) and expr_survives(sp)]
    n_cases += len(specs)
    tries = 0
    while len(specs) < n_cases and tries < n_cases * 5:
        tries += 1
        sp = gen_program(rng, wide=False)
        if model_domain(sp) and expr_survives(sp):
            specs.append(sp)
    SH = 150
    for si in range(0, len(specs), SH):
        shard = specs[si:si + SH]
        tabs, items = [], []
        for sp in shard:
            T = Tables()
            items.append(enc_prog(sp, T))
            tabs.append(T)
        text = "\n".join([
            "From Coq Require Import List ZArith Bool.", "Import ListNotations.", "From SFV Require Import C14.Model.",
            "Unset Printing Records.",
            "Definition cases : list prog := [", ";\n".join(items) + "].",
            "Eval vm_compute in map (fun p => (p, to_bb p, bb_roundtrip p, to_xir p, xir_roundtrip p, "
            "(xprog_of (to_xir_opt true p), xgate_decls (to_xir_opt true p), xout_decls (to_xir_opt true p), xir_roundtrip_opt true p))) cases."])
        ok, vals, raw = ctx.coq_eval("cases_%d" % (si // SH), text)
        if not ok or not vals or len(vals[0]) != len(shard):
            ctx.obligation("correspondence:model-eval:shard%d" % (si // SH), False, raw)
            return
        for sp, T, mv in zip(shard, tabs, vals[0]):
            ctx.traces += 1
            lits = set(T.lits)
            p_t, bbw_t, bbr_t, xw_t, xr_t, (xdw_t, gd_t, od_t, xdr_t) = mv
            # self-check of the encoding: the decoded model program is the built program
            v0 = norm_view(view(build(sp)), lits)
            enc_diff = diff_views(v0, dec_prog(p_t, T), "enc", compare_n=not any(c["op"] in META for c in sp["cmds"]))
            if enc_diff:
                ctx.obligation("correspondence:encoding-selfcheck", False, "%s\n%s" % (enc_diff, json.dumps(sp)))
                return
            impl = impl_records(sp, lits)
            model = {"bb_w": dec_res(bbw_t, lambda t: dec_bb(t, T)), "bb_r": dec_res(bbr_t, lambda t: dec_prog(t, T)),
                     "xir_w": ("ok", dec_x(xw_t, T)), "xir_r": dec_res(xr_t, lambda t: dec_prog(t, T)),
                     "xird_w": ("ok", dict(dec_x(xdw_t, T), gate_decls=[[dec_cls(g[1]), g[2], g[3]] for g in gd_t],
                                           out_decls=sorted(dec_cls(o) for o in od_t))),
                     "xird_r": dec_res(xdr_t, lambda t: dec_prog(t, T))}
            ctx.case({"spec": sp, "model": {k: (v[0] if v[0] == "ok" else v[1]) for k, v in model.items()}},
                     nontrivial=nontrivial(sp), bucket="corr:" + "+".join(sorted(spec_features(sp))) if spec_features(sp) else "corr:plain")
            bad = []
            for k in ("bb_w", "bb_r", "xir_w", "xir_r", "xird_w", "xird_r"):
                m, i = model[k], impl[k]
                if m[0] != i[0]:
                    bad.append((k, "model %s vs implementation %s" % (m if m[0] == "err" else "ok", i if i[0] == "err" else "ok")))
                elif m[0] == "err":
                    if m[1] != i[1]:
                        bad.append((k, "error kind: model %s vs implementation %s" % (m[1], i[1])))
                elif k.endswith("_w"):
                    d = ir_equal(m[1], i[1])
                    if d:
                        bad.append((k, "; ".join(d)[:400]))
                else:
                    d = diff_views(m[1], i[1], "xir" if k.startswith("xir") else "bb", compare_n=True)
                    if d:
                        bad.append((k, "; ".join(w for _, w in d)[:400]))
            if bad:
                # the tie is broken on this input: does the implementation violate the property here?
                before = len(ctx.issues)
                evaluate(ctx, sp, origin="correspondence", seen=ctx.extra.setdefault("_seen", set()))
                ctx.disagreement("corr:" + bad[0][0], "model and implementation differ on %s: %s" % (bad[0][0], bad[0][1]),
                                 {"check": "corr", "spec": sp, "where": bad})
    ctx.extra.pop("_seen", None)


def search(ctx):
    rng = ctx.rng
    seen = set()
    # corpus first
    for f in _corpus_files():
        try:
            d = json.load(open(f))["data"]
            evaluate(ctx, d["spec"], origin="corpus:" + os.path.basename(f), levels=[(d["ir"], d["level"])], seen=seen)
        except Exception as e:
            ctx.obligation("corpus:" + os.path.basename(f), False, repr(e))
    for sp in systematic_specs():
        found = evaluate(ctx, sp, origin="systematic", seen=seen)
        feats = spec_features(sp)
        ctx.case({"spec": sp, "failing": sorted({f[0] for f in found})[:6]}, nontrivial=nontrivial(sp),
                 bucket="sweep:" + ("+".join(sorted(feats)) if feats else "plain") + (":ok" if not found else ":fails"))
    n_cases = ctx.budget(200, 3000)
    for _ in range(n_cases):
        sp = gen_program(rng, wide=True)
        found = evaluate(ctx, sp, origin="search", seen=seen)
        feats = spec_features(sp)
        ctx.case({"spec": sp, "failing": sorted({f[0] for f in found})[:6]}, nontrivial=nontrivial(sp),
                 bucket="search:" + ("+".join(sorted(feats)) if feats else "plain") + (":ok" if not found else ":fails"))
    ctx.extra["signatures_seen"] = sorted({k[0] for k in seen if len(k) == 3 and isinstance(k[0], str)})


def replay(ctx, data):
    d = data["data"]
    if d.get("check") == "corr":
        sp = d["spec"]
        res = []
        for ir, level in LEVELS:
            res += [(ir, level, i) for i in check_roundtrip(sp, ir, level) if i["kind"] != "skip"]
        for ir, level, i in res:
            print("%s/%s: %s: %s" % (ir, level, i["base"], i["what"][:300]))
        return bool(res)
    sp, ir, level = d["spec"], d["ir"], d["level"]
    print("program:", json.dumps(sp))
    iss = [i for i in check_roundtrip(sp, ir, level) if i["kind"] != "skip"]
    for i in iss:
        print("%s/%s: %s: %s" % (ir, level, i["base"], i["what"][:400]))
    base = d.get("base")
    hit = [i for i in iss if base is None or i["base"] == base]
    if not hit and iss:
        print("(the recorded failure %r is gone, but the round trip still fails in another way)" % base)
    return bool(hit)


def systematic_specs():
    """A fixed sweep: every parameter kind in every position (gate argument, homodyne angle, select), in plain and TDM
    programs, plus each program-level feature on its own.  Run on every check before the random search."""
    def cmd(op, p=(), modes=(0,), **k):
        d = {"op": op, "p": list(p), "modes": list(modes), "dagger": False, "select": None, "dark": None}
        d.update(k)
        return d

    def prog(cmds, n=2, tdm=None, **k):
        s = {"name": "prog", "target": None, "shots": None, "cutoff": None, "tdm": tdm, "n": n, "cmds": cmds}
        s.update(k)
        if tdm:
            s["n"] = sum(tdm["N"])
        return s
    E = lambda e: {"e": e}
    kinds = {
        "num": 0.25, "int": 2, "negzero": -0.0, "pi": math.pi, "cplx": {"c": [0.25, -0.5]},
        "free": E(["free", "a"]), "freeexpr": E(["mul", ["num", 2], ["free", "a"]]), "freefn": E(["sin", ["free", "alpha"]]),
        "freepow": E(["pow", ["free", "theta"], 2]),
        "meas": E(["meas", 1]), "measexpr": E(["mul", ["num", 2], ["meas", 1]]), "measfn": E(["add", ["sin", ["meas", 1]], ["num", 1]]),
        "measnegpow": E(["neg", ["pow", ["meas", 1], 2]]), "freenegpow": E(["neg", ["pow", ["free", "a"], 2]]),
        "mixed": E(["add", ["free", "b1"], ["meas", 1]]), "mixedfn": E(["mul", ["free", "x"], ["cos", ["meas", 1]]]),
        "free_q1": E(["free", "q1"]), "free_quux": E(["free", "quux"]), "free_p7": E(["free", "p7"]), "free_q1expr": E(["exp", ["free", "q1"]]), "free_q9": E(["free", "q9"]),
    }
    tdm1 = {"N": [2], "arrays": [[0.5, 1.5, math.pi]], "shift": "default"}
    tdm2 = {"N": [2], "arrays": [[1, 2], [0.25, -0.75]], "shift": "default"}
    tkinds = dict(kinds)
    tkinds.update({"tdm": E(["tdm", 0]), "tdmexpr": E(["mul", ["num", 2], ["tdm", 0]]), "tdmfn": E(["sin", ["tdm", 0]]), "tdmneg": E(["neg", ["tdm", 0]])})
    out = []
    for name, v in kinds.items():
        out.append(prog([cmd("MeasureHomodyne", [0.0], [1]), cmd("Rgate", [v], [0])]))
        out.append(prog([cmd("MeasureHomodyne", [0.0], [1]), cmd("Sgate", [0.5, v], [0])]))
        out.append(prog([cmd("MeasureFock", [], [1]), cmd("MeasureHomodyne", [v], [0])]))
        out.append(prog([cmd("MeasureFock", [], [1]), cmd("MeasureHomodyne", [v], [0], select=0.5)]))
    for name, v in tkinds.items():
        out.append(prog([cmd("BSgate", [v, 0.0], [0, 1]), cmd("MeasureHomodyne", [E(["tdm", 0])], [0])], tdm=tdm1))
        out.append(prog([cmd("Rgate", [E(["tdm", 0])], [1]), cmd("MeasureHomodyne", [v], [0])], tdm=tdm1))
    # values without a symbolic part, in every slot
    for v in (0.5, 1, {"c": [0.1, 0.2]}):
        out.append(prog([cmd("MeasureHomodyne", [0.3], [0], select=v)]))
        out.append(prog([cmd("MeasureHeterodyne", [], [0], select=v)]))
        out.append(prog([cmd("Rgate", [E(["tdm", 0])], [1]), cmd("MeasureHomodyne", [E(["tdm", 1])], [0], select=v)], tdm=tdm2))
        out.append(prog([cmd("Rgate", [E(["tdm", 0])], [1]), cmd("MeasureHeterodyne", [], [0], select=v)], tdm=tdm2))
    for sel in ({"l": [1]}, {"l": [0, 2]}):
        ms = list(range(len(sel["l"])))
        out.append(prog([cmd("MeasureFock", [], ms, select=sel)]))
        out.append(prog([cmd("MeasureThreshold", [], ms, select={"l": [min(1, x) for x in sel["l"]]})]))
        out.append(prog([cmd("MeasureFock", [], ms, dark={"l": [0.1 * (i + 1) for i in ms]})]))
        out.append(prog([cmd("Rgate", [E(["tdm", 0])], [1]), cmd("MeasureFock", [], ms, select=sel)], tdm=tdm1))
        out.append(prog([cmd("Rgate", [E(["tdm", 0])], [1]), cmd("MeasureFock", [], ms, dark={"l": [0.1 * (i + 1) for i in ms]})], tdm=tdm1))
    out.append(prog([cmd("Rgate", [E(["tdm", 0])], [1]), cmd("MeasureHomodyne", [0.3], [0])], tdm=tdm1))
    out.append(prog([cmd("Rgate", [E(["tdm", 0])], [1]), cmd("MeasureFock", [], [0, 1])], tdm=tdm1))
    # daggers on every gate class, Fouriergate, meta operations
    for g in sorted(DAGGERABLE - {"Fouriergate"}):
        ps = [0.25 + 0.125 * i for i, _ in enumerate(GENERIC[g])]
        out.append(prog([cmd("Squeezed", [0.3, 0.1], [0]), cmd("Coherent", [0.4, 0.2], [1]), cmd(g, ps, list(range(NMODES[g])), dagger=True)]))
    out.append(prog([cmd("Fouriergate", [], [0])]))
    out.append(prog([cmd("Fouriergate", [], [1], dagger=True)]))
    out.append(prog([cmd("Rgate", [E(["tdm", 0])], [1]), cmd("Fouriergate", [], [0])], tdm=tdm1))
    out.append(prog([cmd("Sgate", [0.3, 0.0], [1]), cmd("Del", [], [1]), cmd("Rgate", [0.3], [2])], n=3))
    out.append(prog([cmd("New", [1], []), cmd("Rgate", [0.3], [1])], n=1))
    # options
    for tg in (None, "gaussian", "X8_01"):
        for sh in (None, 7):
            for cu in (None, 6):
                out.append(prog([cmd("Sgate", [0.4, 0.0], [1])], target=tg, shots=sh, cutoff=cu))
                out.append(prog([cmd("Rgate", [E(["tdm", 0])], [1]), cmd("MeasureHomodyne", [E(["tdm", 1])], [0])], tdm=tdm2, target=tg, shots=sh, cutoff=cu))
    # TDM structure
    for N in ([1], [3], [1, 2], [2, 1, 1]):
        for shift in ("default", 0, 1):
            t = {"N": N, "arrays": [[0.1, 0.2, 0.3]], "shift": shift}
            out.append(prog([cmd("Rgate", [E(["tdm", 0])], [0]), cmd("MeasureHomodyne", [E(["tdm", 0])], [sum(N) - 1])], tdm=t))
    # values: arrays, strings, bools, lists
    out.append(prog([cmd("Ket", [arr_spec(np.array([0.0, 1.0, 0.0]))], [0])]))
    out.append(prog([cmd("Ket", [arr_spec(np.array([0, 1j, 0]))], [1])]))
    out.append(prog([cmd("DensityMatrix", [arr_spec(np.diag([0.0, 1.0]))], [0])]))
    out.append(prog([cmd("Interferometer", [arr_spec(np.array([[0, 1], [1, 0]]))], [1, 0])]))
    out.append(prog([cmd("Interferometer", [arr_spec(np.array([[0, 1j], [1j, 0]]))], [0, 1])]))
    out.append(prog([cmd("Interferometer", [arr_spec(np.eye(3))], [2, 0, 1])], n=3))
    out.append(prog([cmd("Gaussian", [arr_spec(np.eye(2) * 2.0), arr_spec(np.array([0.5, -0.5]))], [0])]))
    out.append(prog([cmd("GaussianTransform", [arr_spec(np.array([[0.0, -1.0], [1.0, 0.0]]))], [1])]))
    out.append(prog([cmd("Catstate", [0.5, 0.1, 1, {"s": "complex"}, 1e-12, 2], [0])]))
    out.append(prog([cmd("Catstate", [{"c": [0.3, 0.2]}, 0.0, 0, {"s": "real"}, 1e-12, 2], [0])]))
    out.append(prog([cmd("GKP", [{"l": [0.1, 0.2]}, 0.2, 1e-12, {"s": "real"}, {"s": "square"}], [0])]))
    out.append(prog([cmd("MSgate", [0.3, 0.1, 10.0, 1.0, True], [0])]))
    out.append(prog([cmd("MSgate", [0.3, 0.1, 9.0, 0.9, False], [0])]))
    out.append(prog([cmd("Rgate", [E(["tdm", 0])], [1]), cmd("MSgate", [0.3, 0.1, 9.0, 0.9, False], [0])], tdm=tdm1))
    out.append(prog([cmd("Zgate", [{"s": "hello"}], [0])]))
    out.append(prog([cmd("Rgate", [E(["tdm", 0])], [1]), cmd("Zgate", [{"s": "hello"}], [0])], tdm=tdm1))
    out.append(prog([cmd("Rgate", [E(["tdm", 0])], [1]), cmd("Ket", [arr_spec(np.array([0.0, 1.0]))], [0])], tdm=tdm1))
    A = np.ones((2, 2)) - np.eye(2)
    out.append(prog([cmd("GraphEmbed", [arr_spec(A)], [0, 1])]))
    out.append(prog([cmd("GraphEmbed", [arr_spec(A)], [0, 1], kw={"mean_photon_per_mode": 2.0})]))
    # every multiple of pi/12 from -14 to 26 (all gcd classes of _factor_out_pi), six per program
    ks = list(range(-14, 27))
    for i0 in range(0, len(ks), 6):
        out.append(prog([cmd("Rgate", [k_ * math.pi / 12], [j % 2]) for j, k_ in enumerate(ks[i0:i0 + 6])]))
    # falsy but meaningful values: select 0 / 0.0 / [0], dark counts [0.0], angle 0, shots / cutoff small
    for v in (0, 0.0):
        out.append(prog([cmd("MeasureHomodyne", [0.3], [0], select=v), cmd("MeasureHeterodyne", [], [1], select=v)]))
        out.append(prog([cmd("Rgate", [E(["tdm", 0])], [1]), cmd("MeasureHomodyne", [E(["tdm", 1])], [0], select=v)], tdm=tdm2))
    out.append(prog([cmd("MeasureFock", [], [0], select={"l": [0]}), cmd("MeasureThreshold", [], [1], select={"l": [0]})]))
    out.append(prog([cmd("MeasureFock", [], [0, 1], dark={"l": [0.0, 0.0]})]))
    out.append(prog([cmd("MeasureHomodyne", [0], [0]), cmd("MeasureHomodyne", [0.0], [1])]))
    # bound free parameters and expressions without atoms (par_evaluate succeeds)
    out.append(prog([cmd("Rgate", [E(["free", "a"])], [0]), cmd("Sgate", [E(["mul", ["num", 2], ["free", "a"]]), E(["free", "b1"])], [1])], bind={"a": 0.4, "b1": -0.25}))
    out.append(prog([cmd("MeasureFock", [], [1]), cmd("MeasureHomodyne", [E(["free", "a"])], [0])], bind={"a": 0.4}))
    out.append(prog([cmd("Dgate", [E(["sin", ["num", 0.3]]), 0.0], [0]), cmd("Rgate", [E(["mul", ["num", 2], ["cos", ["num", 0.5]]])], [1])]))
    out.append(prog([cmd("Coherent", [0.3, 0.1], [0]), cmd("Rgate", [E(["free", "a"])], [0]), cmd("BSgate", [E(["free", "a"]), 0.2], [0, 1])], bind={"a": 0.7}))
    out.append(prog([cmd("Coherent", [0.3, 0.1], [0]), cmd("Rgate", [E(["free", "a"])], [0]), cmd("Zgate", [E(["neg", ["free", "b1"]])], [1])], defaults={"a": 0.7, "b1": 0.5}))
    out.append(prog([cmd("Coherent", [0.3, 0.1], [0]), cmd("Rgate", [E(["free", "a"])], [0]), cmd("Zgate", [E(["mul", ["num", 3], ["free", "b1"]])], [1])], bind={"a": -0.3, "b1": 0.25}, defaults={"a": 0.7, "b1": 0.5}))
    out.append(prog([cmd("Coherent", [0.3, 0.1], [0]), cmd("Xgate", [E(["neg", ["sin", ["num", 0.3]]])], [0]), cmd("Zgate", [E(["cos", ["num", 2.5]])], [1]), cmd("Rgate", [E(["mul", ["num", -2], ["exp", ["num", 0.5]]])], [1])]))
    # angles a hair below / above a multiple of pi/12 (generate_code factors out pi)
    for k in (1, 5, 6, 12, -6, 24):
        for eps in (-2e-7, 2e-7, 0.0):
            out.append(prog([cmd("Sgate", [0.5, k * math.pi / 12 + eps], [0]), cmd("Rgate", [k * math.pi / 12 + eps], [1])]))
    # the same operation class applied 2-4 times: other modes, descending mode order, daggered and not, other parameters
    for g in ("Sgate", "Rgate", "BSgate", "S2gate", "Dgate", "CXgate", "Kgate", "LossChannel", "Coherent"):
        k = NMODES[g]
        nps = len(GENERIC[g])
        for reps in (2, 3, 4):
            cs = []
            for r in range(reps):
                ms = [(r + j) % 4 for j in range(k)]
                if r % 2:
                    ms = sorted(ms, reverse=True)
                ps = [0.125 * (r + 1) + 0.25 * j for j in range(nps)]
                cs.append(cmd(g, ps, ms, dagger=(g in DAGGERABLE and r % 2 == 1)))
            out.append(prog(cs + [cmd("MeasureHomodyne", [0.1], [0]), cmd("MeasureHomodyne", [0.2], [3])], n=4))
    out.append(prog([cmd("Rgate", [E(["tdm", 0])], [0]), cmd("BSgate", [0.3, 0.1], [0, 1]), cmd("Rgate", [0.25], [1], dagger=True),
                     cmd("BSgate", [E(["tdm", 0]), 0.0], [1, 0]), cmd("MeasureHomodyne", [E(["tdm", 0])], [0])], tdm=tdm1))
    # mode layouts
    out.append(prog([cmd("BSgate", [0.4, 0.1], [11, 3]), cmd("S2gate", [0.3, 0.2], [9, 10]), cmd("MeasureFock", [], [11, 0, 5])], n=12))
    out.append(prog([cmd("Sgate", [0.4, 0.1], [0])], n=5))
    return out
