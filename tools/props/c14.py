"""C14 implementation-side driver: program specs, builders, canonical views, round trips, diffs.

A *spec* is plain JSON:
  {"n": 3, "name": "prog"|None, "target": None|str, "shots": None|int, "cutoff": None|int,
   "tdm": None | {"N": [2], "arrays": [[..], ..], "shift": "default"|int},
   "cmds": [{"op": "Sgate", "p": [param..], "modes": [..], "dagger": bool, "select": val|None,
             "dark": list|None, "kw": {ctor kwargs}}]}
param encodings: number | {"c":[re,im]} | {"a": nested list, "dt": "int"|"float"|"complex"} (complex entries [re,im])
                 | {"s": str} | {"e": expr}
expr: ["num", x] | ["free", name] | ["meas", mode] | ["tdm", i] | ["add", e, e] | ["mul", e, e] | ["neg", e]
      | ["sin", e] | ["cos", e] | ["exp", e] | ["pow", e, k]
"""
import math
import traceback
import warnings

warnings.filterwarnings("ignore")
import numpy as np  # noqa: E402
import sympy  # noqa: E402

import strawberryfields as sf  # noqa: E402
from strawberryfields import ops  # noqa: E402
import strawberryfields.parameters as sfpar  # noqa: E402
from strawberryfields.tdm import TDMProgram  # noqa: E402
from strawberryfields import io as sfio  # noqa: E402

MEASURE = ("MeasureFock", "MeasureHomodyne", "MeasureHeterodyne", "MeasureThreshold")


# ------------------------------------------------------------------------------------------
# spec -> Program

def _expr(e, prog, q, p):
    k = e[0]
    if k == "num":
        return e[1]
    if k == "free":
        return prog.params(e[1])
    if k == "meas":
        return q[e[1]].par
    if k == "tdm":
        return p[e[1]]
    if k == "add":
        return _expr(e[1], prog, q, p) + _expr(e[2], prog, q, p)
    if k == "mul":
        return _expr(e[1], prog, q, p) * _expr(e[2], prog, q, p)
    if k == "neg":
        return -_expr(e[1], prog, q, p)
    if k == "pow":
        return _expr(e[1], prog, q, p) ** e[2]
    if k in ("sin", "cos", "exp"):
        return getattr(sfpar.par_funcs, k)(_expr(e[1], prog, q, p))
    raise ValueError("bad expr %r" % (e,))


def _val(v, prog=None, q=None, p=None):
    if isinstance(v, dict):
        if "c" in v:
            return complex(v["c"][0], v["c"][1])
        if "a" in v:
            dt = v.get("dt", "float")
            if dt == "complex":
                def cx(x):
                    if isinstance(x, list) and len(x) == 2 and not isinstance(x[0], list):
                        return complex(x[0], x[1])
                    return [cx(y) for y in x]
                return np.array(cx(v["a"]), dtype=complex)
            return np.array(v["a"], dtype={"int": int, "float": float}[dt])
        if "s" in v:
            return v["s"]
        if "e" in v:
            return _expr(v["e"], prog, q, p)
        if "l" in v:
            return [_val(x, prog, q, p) for x in v["l"]]
    return v


def build(spec):
    tdm = spec.get("tdm")
    if tdm:
        prog = TDMProgram(list(tdm["N"]) if len(tdm["N"]) > 1 else tdm["N"][0], name=spec.get("name"))
        shift = tdm.get("shift", "default")
        cm = prog.context(*[list(a) for a in tdm["arrays"]], shift=shift)
    else:
        prog = sf.Program(spec["n"], name=spec.get("name"))
        cm = prog.context
    with cm as ctxv:
        if tdm:
            p, q = ctxv
        else:
            p, q = None, ctxv
        for c in spec["cmds"]:
            name = c["op"]
            if name == "New":
                ops.New(c["p"][0])
                continue
            regs = tuple(prog.register[m] for m in c["modes"])
            if name == "Del":
                ops.Del | regs
                continue
            cls = getattr(ops, name)
            args = [_val(v, prog, q, p) for v in c.get("p", [])]
            kw = {k: _val(v, prog, q, p) for k, v in c.get("kw", {}).items()}
            if c.get("select") is not None:
                kw["select"] = _val(c["select"], prog, q, p)
            if c.get("dark") is not None:
                kw["dark_counts"] = _val(c["dark"], prog, q, p)
            op = cls(*args, **kw)
            if c.get("dagger"):
                op = op.H
            op | regs
    if spec.get("target") is not None:
        prog._target = spec["target"]
    if spec.get("shots") is not None:
        prog.run_options["shots"] = spec["shots"]
    if spec.get("cutoff") is not None:
        prog.backend_options["cutoff_dim"] = spec["cutoff"]
    return prog


# ------------------------------------------------------------------------------------------
# Program -> canonical view (JSON-able, no object identities)

def _num(x):
    """canonical numeric: ("num", re, im)"""
    c = complex(x)
    return ["num", c.real, c.imag]


def _sym_canon(e):
    """Map SF atoms to plain symbols with canonical names; return (expr, kinds)."""
    sub = {}
    for a in e.atoms(sympy.Symbol):
        if isinstance(a, sfpar.MeasuredParameter):
            sub[a] = sympy.Symbol("M_%d" % a.regref.ind)
        elif isinstance(a, sfpar.FreeParameter):
            sub[a] = sympy.Symbol("F_%s" % a.name)
        else:
            sub[a] = sympy.Symbol("S_%s" % a.name)
    return e.subs(sub)


def pview(x):
    import decimal
    if x is None:
        return None
    if isinstance(x, bool):
        return ["bool", bool(x)]
    if isinstance(x, str):
        return ["str", x]
    if isinstance(x, sympy.Basic):
        return ["sym", sympy.srepr(_sym_canon(x))]
    if isinstance(x, (int, float, complex, np.number, decimal.Decimal)):
        return _num(x)
    if type(x).__name__ == "DecimalComplex":
        return _num(complex(x))
    if isinstance(x, np.ndarray):
        if x.dtype == object:
            return ["arr", list(x.shape), [pview(y) for y in x.flatten()]]
        return ["arr", list(x.shape), [_num(y) for y in x.flatten()]]
    if isinstance(x, (list, tuple)):
        return ["seq", [pview(y) for y in x]]
    return ["other", type(x).__name__, repr(x)[:80]]


EXTRA_ATTRS = {
    "GraphEmbed": ["sq"],
    "BipartiteGraphEmbed": ["mean_photon_per_mode", "ns"],
    "GaussianTransform": ["vacuum"],
}


def view(prog):
    cmds = []
    for c in prog.circuit:
        o = c.op
        name = type(o).__name__
        d = {"op": name, "modes": [r.ind for r in c.reg], "p": [pview(x) for x in o.p],
             "dagger": bool(getattr(o, "dagger", False)),
             "select": pview(getattr(o, "select", None)),
             "dark": pview(getattr(o, "dark_counts", None))}
        if name in EXTRA_ATTRS:
            d["extra"] = {a: pview(getattr(o, a, None)) for a in EXTRA_ATTRS[name]}
        cmds.append(d)
    v = {"type": type(prog).__name__, "n": prog.num_subsystems, "target": prog.target,
         "shots": prog.run_options.get("shots"), "cutoff": prog.backend_options.get("cutoff_dim"),
         "cmds": cmds, "tdm": None}
    if isinstance(prog, TDMProgram):
        v["tdm"] = {"N": list(prog.N), "arrays": [pview(np.asarray(a)) if not isinstance(a, np.ndarray) else pview(a) for a in prog.tdm_params],
                    "shift": prog.shift if isinstance(prog.shift, str) else int(prog.shift), "timebins": prog.timebins}
    return v


# ------------------------------------------------------------------------------------------
# comparison of views

def _kind(pv):
    if pv is None:
        return "None"
    if pv[0] == "arr":
        return "arr"
    return pv[0]


def _num_close(a, b, tol):
    return abs(a[1] - b[1]) <= tol * max(1.0, abs(a[1]), abs(b[1])) and abs(a[2] - b[2]) <= tol * max(1.0, abs(a[2]), abs(b[2]))


def _flat_nums(pv):
    """flatten arr/seq of nums into (shape-ish, list) or None"""
    if pv[0] == "arr":
        return pv[1], pv[2]
    if pv[0] == "seq":
        out = []
        shape = [len(pv[1])]
        for y in pv[1]:
            if y is None:
                return None
            if y[0] == "num":
                out.append(y)
            else:
                f = _flat_nums(y)
                if f is None:
                    return None
                out.extend(f[1])
        return shape, out
    return None


def sym_equal(s1, s2):
    if s1 == s2:
        return True
    try:
        e1, e2 = sympy.sympify(s1), sympy.sympify(s2)
        d = sympy.simplify(e1 - e2)
        return d == 0
    except Exception:
        return False


def pv_equal(a, b, tol=0.0):
    """Semantic equality of two parameter views: numbers by value (int 0 == float 0.0), arrays and
    sequences elementwise, symbolic expressions up to algebraic identity with atoms matched by kind+name."""
    if a is None or b is None:
        return a is None and b is None
    ka, kb = a[0], b[0]
    if ka == "num" and kb == "num":
        return _num_close(a, b, tol)
    if ka == "bool" and kb == "bool":
        return a[1] == b[1]
    if ka == "bool" and kb == "num" or ka == "num" and kb == "bool":
        x, y = (a, b) if ka == "num" else (b, a)
        return x[2] == 0 and x[1] == float(y[1])
    if ka == "str" and kb == "str":
        return a[1] == b[1]
    if ka == "sym" and kb == "sym":
        return sym_equal(a[1], b[1])
    if ka in ("arr", "seq") and kb in ("arr", "seq"):
        if ka == "arr" and kb == "arr" and a[1] != b[1]:
            return False
        fa, fb = _flat_nums(a), _flat_nums(b)
        if fa is None or fb is None:
            if ka == "seq" and kb == "seq" and len(a[1]) == len(b[1]):
                return all(pv_equal(x, y, tol) for x, y in zip(a[1], b[1]))
            return False
        if len(fa[1]) != len(fb[1]):
            return False
        if ka != kb and len(fa[0]) != 1 and len(fb[0]) != 1:
            pass
        return all(x[0] == "num" and y[0] == "num" and _num_close(x, y, tol) if (x[0] == "num" and y[0] == "num") else pv_equal(x, y, tol)
                   for x, y in zip(fa[1], fb[1]))
    return False


def diff_views(v1, v2, ir, tol=0.0, compare_n=False, fields=None):
    """List of (signature, description) for every respect in which v2 (loaded) differs from v1 (original)."""
    out = []
    pre = ir + ":"
    if v1["type"] != v2["type"]:
        out.append((pre + "program-type:%s->%s" % (v1["type"], v2["type"]), "program class %s loaded as %s" % (v1["type"], v2["type"])))
    if compare_n and v1["n"] != v2["n"]:
        out.append((pre + "num-subsystems", "num_subsystems %s -> %s" % (v1["n"], v2["n"])))
    for f in ("target", "shots", "cutoff"):
        if fields is not None and f not in fields:
            continue
        if v1[f] != v2[f]:
            kind = "dropped" if v2[f] is None else ("invented" if v1[f] is None else "changed")
            out.append((pre + "%s-%s" % (f, kind), "%s %r -> %r" % (f, v1[f], v2[f])))
    if (v1["tdm"] is None) != (v2["tdm"] is None):
        out.append((pre + "tdm-presence", "tdm data %s -> %s" % (v1["tdm"] is not None, v2["tdm"] is not None)))
    elif v1["tdm"] is not None:
        t1, t2 = v1["tdm"], v2["tdm"]
        if t1["N"] != t2["N"]:
            out.append((pre + "tdm-N-changed", "TDM N %r -> %r" % (t1["N"], t2["N"])))
        if t1["shift"] != t2["shift"]:
            out.append((pre + "tdm-shift-changed", "TDM shift %r -> %r" % (t1["shift"], t2["shift"])))
        if len(t1["arrays"]) != len(t2["arrays"]):
            out.append((pre + "tdm-array-count", "number of TDM arrays %d -> %d" % (len(t1["arrays"]), len(t2["arrays"]))))
        else:
            for i, (a, b) in enumerate(zip(t1["arrays"], t2["arrays"])):
                if not pv_equal(a, b, tol):
                    out.append((pre + "tdm-array-changed", "TDM array p%d %r -> %r" % (i, a, b)))
                    break
    c1, c2 = v1["cmds"], v2["cmds"]
    if len(c1) != len(c2):
        out.append((pre + "circuit-length", "circuit length %d -> %d" % (len(c1), len(c2))))
    for i, (a, b) in enumerate(zip(c1, c2)):
        where = "cmd[%d] %s" % (i, a["op"])
        if a["op"] != b["op"]:
            out.append((pre + "op-class-changed", "%s loaded as %s" % (where, b["op"])))
            continue
        if a["modes"] != b["modes"]:
            sig = "modes-reordered" if sorted(a["modes"]) == sorted(b["modes"]) else "modes-changed"
            out.append((pre + sig, "%s modes %r -> %r" % (where, a["modes"], b["modes"])))
        if a["dagger"] != b["dagger"]:
            out.append((pre + ("dagger-dropped" if a["dagger"] else "dagger-invented"), "%s dagger %s -> %s" % (where, a["dagger"], b["dagger"])))
        for f in ("select", "dark"):
            if not pv_equal(a[f], b[f], tol):
                kind = "dropped" if b[f] is None else ("invented" if a[f] is None else "changed:%s->%s" % (_kind(a[f]), _kind(b[f])))
                out.append((pre + "%s-%s" % (f, kind), "%s %s %r -> %r" % (where, f, a[f], b[f])))
        if len(a["p"]) != len(b["p"]):
            out.append((pre + "param-count", "%s has %d parameters, loaded %d" % (where, len(a["p"]), len(b["p"]))))
        for j, (x, y) in enumerate(zip(a["p"], b["p"])):
            if not pv_equal(x, y, tol):
                kx, ky = _kind(x), _kind(y)
                if kx == ky:
                    sig = "param-value-changed:" + kx
                else:
                    sig = "param-kind:%s->%s" % (kx, ky)
                if a["op"] in MEASURE:
                    sig = "measure-" + sig
                out.append((pre + sig, "%s parameter %d: %r -> %r" % (where, j, x, y)))
        for k in a.get("extra", {}):
            if not pv_equal(a["extra"][k], b.get("extra", {}).get(k), max(tol, 1e-9)):
                out.append((pre + "ctor-option-lost:%s.%s" % (a["op"], k), "%s attribute %s: %r -> %r" % (where, k, a["extra"][k], b.get("extra", {}).get(k))))
    # de-duplicate signatures, keep first description
    seen, res = set(), []
    for s, w in out:
        if s not in seen:
            seen.add(s)
            res.append((s, w))
    return res


# ------------------------------------------------------------------------------------------
# round trips

def _exc_site(e):
    """innermost frame inside strawberryfields / blackbird / xir (function name), for narrow signatures"""
    tb = traceback.extract_tb(e.__traceback__)
    site = None
    for fr in tb:
        fn = fr.filename
        if "/strawberryfields/" in fn or "/blackbird/" in fn or "/xir/" in fn:
            mod = "sf" if "/strawberryfields/" in fn else ("blackbird" if "/blackbird/" in fn else "xir")
            site = "%s.%s" % (mod, fr.name)
    return site or "?"


class Stage(Exception):
    def __init__(self, stage, exc):
        self.stage = stage
        self.exc = exc
        self.site = _exc_site(exc)
        super().__init__("%s: %s: %s" % (stage, type(exc).__name__, exc))

    @property
    def signature(self):
        return "%s:%s@%s" % (self.stage, type(self.exc).__name__, self.site)


def write_ir(prog, ir):
    try:
        return sfio.to_blackbird(prog) if ir == "bb" else sfio.to_xir(prog)
    except Exception as e:
        raise Stage("write", e)


def roundtrip(prog, ir, level):
    """level 'rec': to_program(to_ir(prog)); level 'text': loads(to_ir(prog).serialize()).
    Returns (loaded_program, text or None).  Raises Stage."""
    obj = write_ir(prog, ir)
    if level == "rec":
        try:
            return sfio.to_program(obj), None
        except Exception as e:
            raise Stage("load", e)
    try:
        text = obj.serialize()
    except Exception as e:
        raise Stage("serialize", e)
    try:
        if ir == "bb":
            import blackbird
            parsed = blackbird.loads(text)
        else:
            import xir
            parsed = xir.parse_script(text)
    except Exception as e:
        raise Stage("parse", e)
    try:
        return sfio.to_program(parsed), text
    except Exception as e:
        raise Stage("load", e)


def roundtrip_code(prog):
    try:
        code = sfio.generate_code(prog)
    except Exception as e:
        raise Stage("write", e)
    ns = {"np": np}
    try:
        exec(compile(code, "<generated>", "exec"), ns)  # noqa: S102 - code produced by the library under test
    except Exception as e:
        st = Stage("load", e)
        st.site = "generated-code"
        raise st
    return ns["prog"], code


# ------------------------------------------------------------------------------------------
# running (gaussian backend) for state comparison

GAUSS_OK = {"Xgate", "Zgate", "Rgate", "Pgate", "Fouriergate", "CXgate", "CZgate", "Dgate", "Sgate", "BSgate", "MZgate",
            "S2gate", "LossChannel", "ThermalLossChannel", "Vacuum", "Coherent", "Squeezed", "DisplacedSqueezed",
            "Thermal", "Interferometer", "GraphEmbed", "BipartiteGraphEmbed", "GaussianTransform", "Gaussian",
            "MeasureHomodyne", "MeasureHeterodyne"}


def runnable_gaussian(v):
    if v["tdm"] is not None:
        return False
    for c in v["cmds"]:
        if c["op"] not in GAUSS_OK:
            return False
        if c["op"].startswith("Measure") and c["select"] is None:
            return False
        for p in c["p"]:
            if p is not None and p[0] in ("sym", "str", "other"):
                return False
    return True


def run_state(prog):
    eng = sf.Engine("gaussian")
    res = eng.run(prog.copy() if hasattr(prog, "copy") else prog)
    st = res.state
    return np.array(st.means()), np.array(st.cov())


def reduced(mc, k):
    m, c = mc
    n = len(m) // 2
    idx = list(range(k)) + [n + i for i in range(k)]
    return m[idx], c[np.ix_(idx, idx)]
